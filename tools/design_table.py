#!/usr/bin/env python3
"""Regenerates the summary table of DESIGN.md section 0 from evidence/*.json
(between the markers <!-- TABLE:BEGIN --> and <!-- TABLE:END -->)."""
import json
import os
import re

VERIF = os.path.dirname(os.path.dirname(os.path.abspath(__file__)))


def short(fn):
  return fn.split(':')[-1]


def main():
  rows = ['| id | level | functions under contract (real bodies) | obligations discharged (unbounded) | shape-bounded obligations | bounded cases (quick run) | known findings met | wall s |',
          '|---|---|---|---|---|---|---|---|']
  for i in range(1, 21):
    pid = f'C{i:02d}'
    e = json.load(open(os.path.join(VERIF, 'evidence', pid + '.json')))
    c = e['coverage']
    fns = sorted({short(f) for f in c.get('functions_under_contract', [])})
    shown = ', '.join(f'`{f}`' for f in fns[:6]) + (f' … ({len(fns)} in all)' if len(fns) > 6 else '')
    b = c.get('bounded', {})
    rows.append(f"| {pid} | {e['level']} | {shown} | {c.get('discharged', 0)}/{c.get('obligations', 0)} | "
                f"{b.get('of_which_discharged', 0)}/{b.get('contract_obligations_with_stated_bound', 0)} | {b.get('cases', 0):,} | "
                f"{len(c.get('refuted_known', [])) + len([1 for k in c.get('known_bounded', [])])} | {e['wall_s']} |")
  p = os.path.join(VERIF, 'DESIGN.md')
  s = open(p).read()
  new = '<!-- TABLE:BEGIN -->\n' + '\n'.join(rows) + '\n<!-- TABLE:END -->'
  if '<!-- TABLE:BEGIN -->' in s:
    s = re.sub(r'<!-- TABLE:BEGIN -->.*?<!-- TABLE:END -->', lambda m: new, s, flags=re.S)
  else:
    raise SystemExit('markers not found in DESIGN.md')
  open(p, 'w').write(s)
  print('\n'.join(rows))


if __name__ == '__main__':
  main()
