#!/usr/bin/env python3
"""Writes one prompt per property for the sub-agents that strengthen a bounded
driver after a round of seeded changes:  tools/strengthen_prompts.py <round> <out-dir> [extra-notes.json]

The prompt names the seeds of that round the check of the property missed
(seeded/results.json), the seeds it must keep catching, and the rules.  The
agents may edit only the driver file of their property.
"""
import glob
import json
import os
import sys

VERIF = os.path.dirname(os.path.dirname(os.path.abspath(__file__)))

TEMPLATE = '''You are strengthening one bounded test driver of a verification harness for the Python library google/pyglove (the library under test lives in /repo; NEVER modify /repo). The harness lives in /verif. Read /verif/bounded/README.md first (driver API and rules), then the driver you own: /verif/{driver}. You may edit ONLY that driver file (and create helper files next to it named bounded/_{stem}_*.py if really needed). Do not edit pyvc/, contracts/, other drivers, known_findings.json, waivers.json, or anything in /repo.

PROPERTY {pid} ({title}) -- the driver's oracle must come from this statement, never from what the code happens to do:
"""{statement}"""
Quantified over: {quant}

WHY YOU ARE HERE: independent engineers wrote realistic regressions ("seeded changes") of pyglove that break this property while the whole pyglove test suite still passes. This is round {round}: the changes of the earlier rounds are all caught by now. The current check `cd /verif && ./check {pid}` does NOT notice the following seeded changes (each directory has patch.diff = the regression, demo.py = a script showing the breakage, meta.json = description and trigger):
{missed}
{notes}
YOUR TASK
1. Read each missed seed (meta.json, patch.diff, demo.py) to understand which *class of inputs / operations / option combinations / orders of operations* the driver does not exercise or does not check. First decide whether the demo really shows a violation of the property STATEMENT above (quote the sentence); if a seed in your honest reading does not violate the statement, say so in your report and do not chase it.
2. Extend the driver so that it covers that whole class in a principled way, NOT a special case that replays the demo. Think about which neighbouring gaps of the same kind exist (same mechanism in sibling classes/functions, the same feature combination elsewhere, the same boundary value in sibling options) and close those too. Use stable, input-class-level case ids as the README requires.
3. A call into pyglove that the statement says must succeed and that raises instead is a FAILED CASE (use rec.guard / outcome), never an uncaught exception: a driver that dies with a traceback on a changed tree reports nothing.
4. The strengthened check must still PASS on the unchanged tree: run `cd /verif && PYVC_OUT=/var/tmp/{stem}_out ./check {pid}` (exit 0, no VIOLATION line). If a new case fails on the unchanged /repo, decide carefully: (a) your oracle demands more than the property statement says -> fix the oracle; (b) pyglove genuinely violates the statement -> keep the case with its own case_id, do NOT hide it, and report it to me at the end with a minimal reproducer (python snippet against /repo) -- I will decide whether to repair pyglove or list it as a known finding. Tell me exactly which case ids fail.
5. Confirm that each missed seed is now caught: `cd /verif && tools/seed_eval.sh seeded/<seed-dir> quick` runs the check against a scratch copy of /repo with the patch applied (prints `rc=1 N violations; ...` when caught, rc=0 when missed; compare the failing ids with those of the unchanged tree). Also make sure the seeds that were already caught stay caught: {caught}.
6. Keep the quick tier of the whole file within ~70 s CPU on one core if you can (the whole `./check {pid}` within ~90 s wall on a quiet machine), deterministic for a given seed (VERIF_SEED env var; try VERIF_SEED=1 and VERIF_SEED=2 as well and make sure the unchanged tree still passes). The machine is shared with other agents and may be heavily loaded: if `./check` reports CHECKER-ERROR because a driver hit its time limit, re-run with `PYVC_DRIVER_TIMEOUT=1500`.
7. Always put `PYVC_OUT=/var/tmp/{stem}_out` in the environment of your ./check runs so that evidence and replay files of your experiments do not overwrite the committed ones; remove that directory at the end. Do not leave files outside tempfile directories; never create files or directories at the file-system root.

Other agents are editing other driver files in /verif/bounded at the same time; do not touch them and do not run `git` commands that change the repository state. /repo is shared and read-only for you.

When done, reply with: what classes of cases you added, the seed_eval result line for every seed of this property (missed and previously caught), CPU/wall time of ./check {pid}, and any case ids that fail on the unchanged tree with reproducers.
'''


def main():
  rnd, out = int(sys.argv[1]), sys.argv[2]
  notes = json.load(open(sys.argv[3])) if len(sys.argv) > 3 else {}
  os.makedirs(out, exist_ok=True)
  props = {}
  for l in open(os.path.join(VERIF, 'properties.jsonl')):
    p = json.loads(l)
    props[p['id']] = p
  res = json.load(open(os.path.join(VERIF, 'seeded', 'results.json')))
  by_prop = {}
  for r in res:
    meta = json.load(open(os.path.join(VERIF, 'seeded', r['seed'], 'meta.json')))
    if meta['property'] != r['prop']:
      continue
    by_prop.setdefault(r['prop'], []).append((r, meta))
  for pid, rows in sorted(by_prop.items()):
    missed = [(r, m) for r, m in rows if r['status'] != 'caught' and m.get('round') == rnd]
    if not missed and pid not in notes:
      continue
    caught = [r['seed'] for r, m in rows if r['status'] == 'caught']
    drivers = sorted(glob.glob(os.path.join(VERIF, 'bounded', pid.lower() + '_*.py')))
    driver = os.path.relpath(drivers[0], VERIF)
    stem = os.path.basename(driver).split('_')[0]
    lines = []
    for r, m in missed:
      desc = (m.get('description') or m.get('summary') or m.get('what') or '')[:420].replace('\n', ' ')
      lines.append(f"  - /verif/seeded/{r['seed']}/  ({r['status']}): {desc}")
    note = notes.get(pid, '')
    text = TEMPLATE.format(driver=driver, stem=stem, pid=pid, title=props[pid]['title'],
                           statement=props[pid]['statement'], quant=props[pid]['quantifier']['text'],
                           round=rnd, missed='\n'.join(lines) or '  (none this round)',
                           notes=('\nADDITIONAL INPUT CLASSES TO COVER (observed by the engineers on the UNCHANGED tree; cover the class, and report the failing case ids):\n' + note + '\n') if note else '',
                           caught=', '.join('seeded/' + c for c in sorted(caught, key=lambda s: int(s.split('-')[1]))) or '(none)')
    open(os.path.join(out, pid + '.txt'), 'w').write(text)
    print(pid, len(missed), 'missed;', len(caught), 'caught')


if __name__ == '__main__':
  main()
