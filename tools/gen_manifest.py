#!/usr/bin/env python3
"""Generates MANIFEST.json from the table below (kept in one place so that the
manifest stays valid and consistent with what ./check can run)."""
import glob
import json
import os

HERE = os.path.dirname(os.path.dirname(os.path.abspath(__file__)))

# property -> (category, level text, level_note, technique)
CLAIMS = {}


def claim(pid, category, text, note, technique, design_ref):
  CLAIMS[pid] = dict(category=category, text=text, note=note, technique=technique, design_ref=design_ref)


exec(open(os.path.join(HERE, 'tools', 'claims.py')).read())

NOT_YET = 'no contract file exists for this property yet in this revision of /verif (see DESIGN.md section 5 for the plan)'


def main():
  props = [json.loads(l)['id'] for l in open(os.path.join(HERE, 'properties.jsonl'))]
  checks = []
  na = []
  for pid in props:
    has = glob.glob(os.path.join(HERE, 'contracts', f'{pid.lower()}_*.py')) or \
        glob.glob(os.path.join(HERE, 'bounded', f'{pid.lower()}_*.py'))
    c = CLAIMS.get(pid)
    if not has or c is None or c.get('na'):
      na.append(dict(property_id=pid, reason=(c or {}).get('na') or NOT_YET))
      continue
    checks.append(dict(
        property_id=pid,
        quick_cmd=f'./check {pid} --tier quick',
        thorough_cmd=f'./check {pid} --tier thorough',
        evidence_file=f'/verif/evidence/{pid}.json',
        replay_cmd_template=f'./check {pid} --replay {{path}}',
        engine='pyvc',
        level_claimed=dict(category=c['category'], text=c['text'], design_ref=c['design_ref']),
        level_note=c['note'],
        technique=c['technique']))
  m = dict(
      version=1,
      setup_cmd='./setup.sh',
      hooks=dict(
          guard='PYGLOVE_VERIF',
          enable='none needed: contracts are sidecars under /verif/contracts and monitors are installed in the check process; /repo carries no instrumentation (guard name reserved, unused)',
          baseline_off_cmd='cd /repo && /venv/bin/python -m pytest -ra -q -p no:cacheprovider --timeout=900 --continue-on-collection-errors',
          source_commits=[],
          add_only=True),
      engines=[dict(
          name='pyvc', path='/verif/pyvc',
          serves_properties=[c['property_id'] for c in checks],
          kind_free_text='contract-based deductive verifier written for this task: re-reads the real function bodies from /repo (ast), checks bytecode correspondence with the imported functions, executes them symbolically against sidecar contracts and discharges every obligation with z3 (cvc5 takes unknowns); a bounded run-time-monitor tier stands in where the code is out of reach and is never counted as proved')],
      checks=checks,
      notes='See DESIGN.md. Exit codes: 0 held, 1 violation (VIOLATION line), 3 checker error (CHECKER-ERROR line, never a VIOLATION). Known findings: /verif/known_findings.json.',
      not_applicable=na)
  with open(os.path.join(HERE, 'MANIFEST.json'), 'w') as f:
    json.dump(m, f, indent=1)
  print(f'MANIFEST.json: {len(checks)} checks, {len(na)} not_applicable')


if __name__ == '__main__':
  main()
