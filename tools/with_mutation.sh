#!/bin/sh
# usage: tools/with_mutation.sh <patch-file | "sed:FILE:EXPR"> -- <command...>
# Runs <command> with PYVC_REPO pointing at a scratch copy of /repo with the
# mutation applied.  The scratch copy lives outside /repo and /verif and is
# removed afterwards.
set -e
MUT="$1"; shift; [ "$1" = "--" ] && shift
case "$MUT" in sed:*) ;; /*) ;; *) MUT="$(pwd)/$MUT" ;; esac
S="${VERIF_SCRATCH:-/var/tmp}/pyvc-mut-$$"
mkdir -p "$S"; trap 'rm -rf "$S"' EXIT
rsync -a --exclude .git --exclude '__pycache__' /repo/ "$S/repo/"
case "$MUT" in
  sed:*) F=$(echo "$MUT" | cut -d: -f2); E=$(echo "$MUT" | cut -d: -f3-); 
         cp "$S/repo/$F" "$S/orig"; sed -i "$E" "$S/repo/$F"; 
         if cmp -s "$S/orig" "$S/repo/$F"; then echo "MUTATION DID NOT APPLY"; exit 9; fi ;;
  *) (cd "$S/repo" && patch -p1 -s < "$MUT") ;;
esac
PYVC_REPO="$S/repo" "$@"
