# Claims table, exec'd by gen_manifest.py.
claim('C04', 'proof',
      'Per spec class (Number int/real, Enum, List, Tuple fixed/variable with symbolic arity, Str): `_validate` raises iff the '
      'statement\'s acceptance predicate is false; `is_compatible` True implies acceptance-set inclusion; `_extend` narrows and '
      'leaves the base compatible (Number, `ListKey.extend`, `List._extend` through the real `Field.extend`, `Tuple._extend` in all four fixed/variable '
      'combinations incl. the one-field-per-position shape invariant); `apply` result accepted, idempotent, spec unchanged, also with the modifiers '
      'frozen / noneable / default / allow_partial symbolic; `set_default` stores only a default the spec accepts and leaves the old one when it refuses; `Schema.is_compatible` is True exactly when both '
      'schemas declare the same keys and the fields are compatible key by key, whatever the declaration orders (shape-bounded: <= 3 keys, 20 obligations, labelled bounded). Obligations are discharged by z3 for all '
      'bounds/sizes/values; nested element specs enter through an induction hypothesis (uninterpreted acceptance set + law).',
      'Trusted: pyvc engine (cross-checked per path against CPython), builtin axioms, A-INDUCTION for nesting, floats as reals. '
      'Dict/Object/Union/Callable/Type/Any specs and Schema-level extend/compat are not under contract: the bounded driver (bounded/c04_value_specs.py: '
      'spec universe x value pools; apply / default / compatibility / extension / union / frozen laws) stands in for them.',
      'contract-based deductive verification (pyvc VC generation from real source + z3/cvc5) + bounded stand-in for the remaining spec classes', 'DESIGN.md 5/C04')
claim('C02', 'proof',
      'pg.List refines Python list per operation on the payload view: `_parse_slice` / `__getitem__` (int, and slices with start/stop symbolic and '
      'step in {None,+-1,+-2,+-3}) return exactly what Python\'s slice semantics prescribe, `append/insert/__setitem__/__delitem__/pop` leave the '
      'payload equal to the Python operation\'s result and raise IndexError exactly when Python does; obligations are discharged for lists of any '
      'length. Deleting an extended slice (step != 1) issues its single deletions from the highest index down, once per member of range(start, stop, step), for positive and '
      'negative steps (9 obligations, shape-bounded: concrete triples). Histories follow by induction on the per-operation refinement. The bounded tier runs the full list/dict API differentially.',
      'Trusted: pyvc engine, axioms of the C-level list methods and slice.indices (cross-checked against CPython on every path), leaf values '
      'without value spec are their own formal value. Dict operations, sort/reverse/extend/remove, nested auto-conversion and JSON read-back are '
      'covered only by the bounded differential driver.',
      'contract-based deductive verification (pyvc) + bounded differential stand-in', 'DESIGN.md 5/C02')
claim('C08', 'proof',
      'Dominance contracts over the whole mutating surface of pg.List / pg.Dict / pg.Object (every accessor, mutator, in-place operator and the '
      'rebind chain down to `_set_item_of_current_tree`): on every symbolic path of the real bodies, any payload write, write-primitive call or '
      'unreviewed call is preceded by a consultation of `treats_as_sealed` (resp. `writtable_via_accessors`) that answered "not protected"; the two '
      'predicates are proved against the documented scope-over-flag precedence; SURFACE obligations show no mutating C method of list/dict is inherited; '
      '`Dict.__init__` / `List.__init__` called with sealed=True end with self.seal(True) after the last member is stored on every returning path (no members, members, '
      'value spec, pass-through) and seal nothing otherwise.',
      'Trusted: the reviewed list of non-mutating callees (PURE in contracts/c08_protect.py) and the engine. That nodes reached from a protected receiver '
      'are protected (seal is deep; the scope override is global) is proved as a one-level step: `Dict.sym_seal`, `List.sym_seal`, `Object.sym_seal` seal every '
      'symbolic child with the requested flag (LOOP-BODY) and set their own flag on every returning path -- no shortcut -- and holds for whole trees by induction. "Tree stays exactly as it was" for nested trees is additionally '
      'checked by the bounded driver (pg.to_json before/after).',
      'contract-based deductive verification (pyvc dominance/trace obligations)', 'DESIGN.md 5/C08')
claim('C10', 'proof',
      'KeyPath arithmetic against key sequences for paths of any depth: `__init__`, `__add__`, `__sub__` (defined iff prefix; result is the suffix), '
      '`parent`, `key`, `is_relative_to`, `__eq__`, the lemmas (p+q)-p == q and q+(p-q) == p, and `exists`/`get` consistent with `query` (a path exists exactly '
      'when query returns, whatever the node holds), all by symbolic execution of the real bodies with '
      'quantified sequence reasoning. parse/format, query/traverse, flatten/canonicalize and KeyPathSet are covered by the bounded tier only.',
      'Trusted: engine, list axioms; keys are modelled as integers with decidable equality (the code only compares them). String parsing is not proved.',
      'contract-based deductive verification (pyvc) + bounded stand-in for parse/format, traversal, KeyPathSet', 'DESIGN.md 5/C10')
claim('C15', 'proof',
      '`DNAGenerator.recover` carries the loop invariant "after i records the counters equal those of the live run after the same i events" '
      '(INV-init / INV-step discharged for histories of any length, hence every crash point); `propose`/`feedback` count exactly once, and a feedback that is refused or whose algorithm-specific part raises is not counted; '
      'Sweeping `_propose`/`_replay` and seeded Random `_propose`/`_replay` are step-equivalent (same successor call, exactly one rng draw). '
      'De-duplication memory: `Deduping._feedback` (live) and `Deduping._replay` (recovery) are step-equivalent -- each hands (dna, reward) to `_add_dna_to_cache` exactly once, '
      'unconditionally, looks at the memory in no other way, and delegates once to the inner algorithm (`feedback` / `_replay`); `_add_dna_to_cache` appends the reward to the entry of the '
      'DNA\'s dedup key and leaves every other entry untouched (5 obligations, shape-bounded: cache shapes empty / key present with 1, 2, 3 rewards / another key present; rewards symbolic).',
      'Trusted: engine; subclasses\' `_replay`/`_feedback` do not touch the base counters (A-SUBTYPE). `Deduping._propose` (attempt loop, automatic reward) and the Evolution family are covered by '
      'the bounded tier only (all crash points of short runs).',
      'contract-based deductive verification (pyvc loop invariants, relational step contracts) + bounded stand-in', 'DESIGN.md 5/C15')
claim('C17', 'proof',
      'For `thread_local_value_scope` (arbitrary key and values), every flags.py manager with its getter, `coding.permission` and the class-based `pg.timeit` (TimeIt.__enter__/__exit__ for an '
      'object with arbitrary stale bookkeeping, whether or not end() was called in the block): the real generator '
      'body is executed to its yield, the block is abstracted by the induction hypothesis (well-nested body), and on both the normal and the '
      'exceptional exit the whole thread-local store equals the store before *entering* (the store is havocked between creating the manager object and entering it, '
      'so a manager that captures state at creation time fails); inside the block the getter returns the argument '
      '(outermost wins for permission); all writes go to the current thread\'s store (threading.local axiom). `pg.view_options` (a scope over a stack of option dicts): it pushes exactly one '
      'object, the deep merge of the enclosing scope\'s options and its arguments, yields that object, hands the enclosing scope\'s dict to nothing but the merge (so an inner scope cannot write into '
      'the outer one\'s options), and pops exactly once on the normal and on the exceptional exit.',
      'Trusted: engine, the threading.local confinement axiom (pyvc/tls.py), private sentinels are never stored by callers; utils.merge returns a fresh deep merge (A-MERGE-FRESH, exercised by the bounded driver). Other managers '
      '(contextual overrides, detour, dynamic evaluation, timing) are covered by the bounded tier (nested programs, two threads).',
      'contract-based deductive verification (pyvc, context-manager contracts over a thread-local store model)', 'DESIGN.md 5/C17')
claim('C19', 'proof',
      'Finite-domain proof of the gate: `_CodeValidator.generic_visit` over every class of the live `ast` module x all 2^8 permission sets (symbolic '
      'bit-vector) returns only if every permission the statement requires is granted, then visits all children; no visit_<X> override exists; '
      '`parse` validates with the given permission and turns SyntaxError into CodeError; in `evaluate` the parse with the *effective* permission '
      'dominates every exec/eval/compile, with and without an enclosing scope; the scope manager `coding.permission`: inside a scope the effective permission is the '
      'outer one whenever there is one (never widened, whatever the truth value of the stored flag -- the empty flag is falsy), and the store is restored exactly.',
      'Trusted: engine, `ast.NodeVisitor.generic_visit` visits every child (stdlib). "A granted program behaves like exec" is bounded-tier only.',
      'contract-based deductive verification (pyvc; exhaustive over ast classes, symbolic permission bits)', 'DESIGN.md 5/C19')
claim('C11', 'proof',
      'Validators accept exactly the valid set, one level with children by induction hypothesis: `Choices.validate` (single choice; and multi choice with a '
      'symbolic number of choices and candidates, every distinct/sorted combination), `Space.validate` (any number of elements) and `Float.validate` raise '
      'ValueError iff the statement\'s constraints (arity, 0 <= index < n, distinctness, sortedness, conditional sub-space validity, float range) fail; '
      '`DNA.use_spec` (binding) for float, multi-element space, multi-choice and single-choice specs accepts exactly the members in the same sense (children\'s binding as '
      'induction hypothesis), binds the node to exactly that spec on success and leaves its spec untouched when it refuses; `Space.is_constant` is true exactly for a space '
      'without decision points; `DNA.from_fn`: whatever the callback answers, the DNA handed out passed `validate` or `use_spec` of the spec that was asked '
      '(loop contract over the elements of a space of any size), an index-list answer becomes exactly those choices with the sub-DNAs of the chosen candidates, and the callback is asked once. '
      'The enumeration itself (next_dna odometers, space_size, random_dna, Sweeping) is checked by the bounded tier against brute-force enumeration.',
      'Trusted: engine; axioms for set()/sorted() on integer sequences; A-INDUCTION for sub-spaces. next_dna / space_size are not under contract '
      '(nested closures with mutable sets): bounded only.',
      'contract-based deductive verification (pyvc) + bounded stand-in (brute-force enumeration) for the odometers', 'DESIGN.md 5/C11')
claim('C06', 'proof',
      'One-level induction steps of the laws on the real `eq`/`ne`/`lt`/`gt` bodies for sequences of any length: eq on lists/tuples means same length and '
      'pairwise-equal children; symmetric, transitive; ne is its negation; lt on lists satisfies trichotomy (exactly one of lt/eq/gt), gt is lt swapped, '
      'transitivity and congruence with eq -- each discharged by running the real bodies two or three times on symbolic sequences whose children obey '
      'the laws (induction hypothesis). `_type_order` ranks the type classes as documented and `lt` across classes follows it; `Ref.sym_eq` holds exactly between references to the very same object; `Object.sym_lt` / `sym_eq` are the order / equality of the two attribute dictionaries for objects of the same class and the generic rule / unequal otherwise.',
      'Trusted: engine; A-INDUCTION (children relations are uninterpreted and assumed lawful one level down). Dict branches, hashing, user sym_eq/sym_lt '
      'overrides and sorting are covered by the bounded tier (all pairs/triples of a value pool).',
      'contract-based deductive verification (pyvc relational obligations) + bounded stand-in', 'DESIGN.md 5/C06')
claim('C16', 'proof',
      'Monitor reasoning on the in-memory study: `create_trial`, `get_or_create_trial`, `_complete_trial` and `_mark_completed` access the bookkeeping '
      'fields (and the trial status) only with the study lock held and inside ONE critical section; id allocation, the single proposal call and the append are '
      'atomic; the pending trial of a group is handed out again or exactly one new trial is created in the same section; the PENDING -> COMPLETED transition is a '
      'test-and-set (exactly one of two racing finishers reports a trial); `Feedback.done`/`skip`: only the worker that wins the transition reports the trial to the algorithm (done: exactly once, before booking it; skip: not at all), and a '
      'refused `done()` has not touched the trial; `_InMemoryBackend._feedback` hands a reward to the shared algorithm exactly once and only inside the study\'s feedback lock, '
      'whatever `needs_feedback` says; each section preserves the study invariant (ids 1..len(trials), PENDING+COMPLETED '
      '== len(trials), len <= max_num_trials, best trial feasible and of maximal reward) from any state satisfying it; no other method writes the guarded '
      'fields. Proved sequentially per critical section, hence valid under every schedule (lock = mutual exclusion).',
      'Trusted: engine, threading.Lock mutual exclusion. What happens BETWEEN critical sections (delivery of the returned trial to the worker, the algorithm\'s own '
      'state under its own lock, early stopping) is not decided by contracts; it is covered by the bounded stress driver, which samples schedules and is '
      'labelled as such.',
      'contract-based deductive verification (pyvc: guarded-by + monitor-invariant obligations) + bounded stress sampling', 'DESIGN.md 5/C16')
claim('C14', 'proof',
      'Selectors: `compute_num_output` returns the documented count (n, ceil(n*len) within [0, len], or len); `First`/`Last` return exactly the first/last '
      'min(count, len) members in order; `Top`/`Bottom` (non-cluster) return min(count, len) members, all drawn from the input; the input population is left '
      'untouched -- for populations of any size. Random source of the 12 seeded operator / generator classes: the hook that runs after every symbolic update leaves the '
      'global `random` module for seed None and a fresh random.Random(seed) from exactly that seed for every integer (0 included), and a permutation recombinator pushes its seed into a seeded `where` filter on every update. Mutators, recombinators, NSGA2/NEAT and the composition algebra are covered by the bounded tier '
      '(spec.validate + alignment of every child, inputs unchanged, seeded determinism).',
      'Trusted: engine; sorted(key=...) is axiomatised as a rearrangement (membership + length), the order by key is not modelled.',
      'contract-based deductive verification (pyvc) + bounded stand-in for mutators/recombinators/composition', 'DESIGN.md 5/C14')
claim('C20', 'proof',
      'Escape-flow typing of the tree view: `object_key`, `summary`, `simple_value` and `tooltip` are executed symbolically with every piece of user data '
      '(value, keys, names, parent) as opaque RAW values; every argument reaching an HTML sink (Html.element tag / inner_html / css classes / attributes, '
      'Html + operand, Html.write) is shown to be a literal, a number, an identifier, escaped text or library-built Html on every path and every option '
      'combination; `Html.escape` sends text through html.escape; `Html.element` itself writes every attribute value (css classes, inline styles, keyword '
      'properties) into the open tag only after html.escape AND the replacement of the double quote, for every combination of given / absent attributes (2 obligations, shape-bounded: the loop over **properties runs over two keyword properties). Rendering writes nothing to the value. Well-formedness of the whole document, presence '
      'of every key/leaf and the remaining render methods (`complex_value`, `content`, controls) are covered by the bounded tier with a strict tokenizer.',
      'Trusted: engine; html.escape removes < > & " \' (stdlib); class names are identifiers; view options (title, colors, css classes) are not user data.',
      'contract-based deductive verification (pyvc escape-flow/trace obligations) + bounded stand-in (strict HTML tokenizer)', 'DESIGN.md 5/C20')
claim('C01', 'proof',
      'Kernel of the tree invariant on the real code: `_relocate_if_symbolic` (for list, dict and object-attribute containers) returns a leaf untouched, '
      'returns a symbolic node with parent = the container\'s parent-for-children and path = container path + key, adopts the node object itself only if it was '
      'free or already in that slot and otherwise adopts a copy while the original keeps parent and path (one object never in two places); the list write '
      'primitive, `__setitem__`, `__delitem__` and `pop` detach (sym_setparent(None)) the very child they remove or replace, for lists of any length; the dict write '
      'primitive detaches (parent and path reset) the node stored under a key that is replaced or deleted and does not detach a node that is still stored when the call returns; `List.sort`/`reverse` are followed by the re-addressing pass on '
      'every returning path, and that pass (`_sync_children`, lists of any length) gives every symbolic element whose key differs from its index the path list-path + index. '
      'The whole-tree invariant over histories is checked by the bounded tier (well-formedness walk after every step of all short histories).',
      'Trusted: engine; assumed contract of `Symbolic.clone` (fresh parentless copy, see C07) and of `_update_children_paths` (recursive re-addressing); '
      'acyclicity (inserting a node below itself) is not proved and is a bounded-tier case; Dict/Object mutators are bounded-tier only.',
      'contract-based deductive verification (pyvc small-heap + trace obligations) + bounded stand-in over histories', 'DESIGN.md 5/C01')
claim('C05', 'proof',
      'Persistence kernel: `MemoryFileSystem._internal_path` strips exactly the prefix for every path (string VC), hence distinct paths never share a file; '
      'opening an existing in-memory file for writing presents an empty buffer positioned at 0, and opening it for reading presents the stored content positioned at 0, '
      'wherever an earlier never-closed handle left the shared buffer (symbolic old position), so a read returns exactly the last content written. Codec kernel: the real '
      '`json_conversion.to_json` and `from_json` run back to back on a list / tuple of any length whose children round-trip (induction hypothesis) give a sequence of '
      'the same kind with exactly the same children, for every list whose first child does not encode as the tuple marker and every non-empty tuple, and raise only in '
      'those two classes (the unrestricted clauses are stated, fail, and are the known findings marker-collision / empty-tuple). `Functor._sym_clone` (what copy.deepcopy '
      'of a functor runs) carries every piece of call behaviour over. JSON round trips of all '
      'value families, both file systems under save/overwrite/load histories, record sequences, pickle and deepcopy are covered by the bounded tier.',
      'Trusted: engine, str.startswith / slicing in the SMT string theory, StringIO seek/truncate axioms; A-INDUCTION and A-RESOLVE (resolve_typenames is the identity on '
      'lists without _type keys) for the codec kernel. The dict branch of the codec (int-key prefix, _type key) is bounded only.',
      'contract-based deductive verification (pyvc, string VCs) + bounded stand-in (generated value universe, file-system histories)', 'DESIGN.md 5/C05')
claim('C07', 'proof',
      '`Dict._sym_clone` and `List._sym_clone` for containers with any number of children: the copy is constructed with value_spec, allow_partial, '
      'accessor_writable and sealed of the original; in every iteration a symbolic child (and every child when deep) is replaced by `base.clone(child, deep, memo)` '
      'and a leaf of a shallow clone is shared as is (LOOP-BODY obligation); the original is not written; `Ref._sym_clone` returns a NEW Ref node that '
      'holds the very same referenced object, whatever `deep`/`memo`; `Functor._sym_clone` returns the copy made by `Object._sym_clone` (same deep/memo) with the three '
      'argument sets as fresh copies each of its own source and override_args / ignore_extra_args each from its own source. Equality, independence under later mutation, '
      'Object/Ref/DNA/hyper clones and copy.copy/deepcopy are covered by the bounded tier.',
      'Trusted: engine; `base.clone` on children is the induction hypothesis; constructors establish a well-formed tree (C01).',
      'contract-based deductive verification (pyvc loop contracts) + bounded stand-in', 'DESIGN.md 5/C07')
claim('C09', 'proof',
      'Dispatch discipline of the mutators, on the real bodies for containers of any size (17 unbounded obligations): on every returning path of '
      '`List.append/extend/insert/__setitem__/__delitem__/pop/__iadd__/__imul__` (a delegating mutator is checked against the callee\'s contract of this family), `Dict.__setitem__/__delitem__/pop/popitem/setdefault/update`, `Object.__setattr__` and `Functor.__delattr__` '
      'on which the tree is written, `_notify_field_updates` is called exactly once, after the last write, when change notification is enabled (one batch per call: '
      'no per-element dispatch, no shortcut that skips it -- it is also what resets the cached derived facts) and not at all when it is disabled; a mutator that '
      'writes without consulting the notification flag fails. The dispatcher itself, `Symbolic._notify_field_updates`, is executed symbolically on an ancestor chain '
      'of three nodes with one or two updates (paths, keys and subscribe flags symbolic): each ancestor-or-self of an update target receives exactly one `_on_change`, '
      'deepest first; a subscribing receiver gets exactly {update.path - receiver.path: update}, a non-subscribing one {}; the three content caches are reset before '
      'the handler; nothing else is touched; the dispatcher enters no settings scope around the handlers; notify_parents=False stops at self -- these 20 obligations have a fixed tree shape and are a BOUNDED stand-in, not counted '
      'as proved. True old/new values, exactly-once delivery through whole trees and freshness of derived facts after histories are checked by the bounded driver.',
      'Trusted: engine; A-PATHORDER (KeyPath order on prefix-related paths is by depth); the write primitives either change nothing and return None or write and return '
      'the FieldUpdate (their own contracts are C01/C03). `List.clear/sort/reverse`, `Dict.clear` and rebind batches go through helpers that are not under this '
      'contract: bounded tier only.',
      'contract-based deductive verification (pyvc trace obligations on the mutators) + shape-bounded symbolic execution of the dispatcher + bounded run-time oracle', 'DESIGN.md 5/C09')
claim('C03', 'proof',
      'Formalize-then-store kernel on the real code: `List._formalized_value` returns relocate(apply(from_json(v))) exactly when a value spec is bound and type '
      'checking is on (with the effective allow_partial), and relocate(from_json(v)) otherwise; the list and dict write primitives hand exactly the formalized '
      'value to the C-level store, and when formalization raises (the schema rejected the value) nothing at all was written or detached before -- the targeted '
      'location keeps its previous content; `append`/`insert`/`del` keep the length within [min_size, max_size] and leave the list unchanged when they refuse; '
      '`Schema.is_compatible` -- on whose answer a value that carries its own spec is adopted without re-validation -- pairs fields by key (shape-bounded, shared with C04); '
      '`Dict.popitem` is refused, with nothing removed, exactly when the dict has a value spec; `Schema.get_field` -- the lookup every write path uses -- returns the constant key\'s own field, else the field of the '
      'FIRST key spec in declaration order whose pattern matches (the rule construction uses), else None (2 obligations, shape-bounded: three key specs, matches are Boolean unknowns). '
      'The full schema vocabulary x every write path x valid/invalid values is exercised by the bounded tier (re-apply of every stored member after every step).',
      'Trusted: engine; `Field.apply`/`ValueSpec.apply` are abstracted (C04 proves their algebra); `_relocate_if_symbolic` by its C01 contract. Object construction, '
      'Schema.apply key resolution and frozen/required-field rules are bounded-tier only.',
      'contract-based deductive verification (pyvc trace/dominance obligations) + bounded stand-in', 'DESIGN.md 5/C03')
claim('C12', 'proof',
      'Alignment kernel: `DNA._sym_clone` hands the copy the very spec object of the original, carries over exactly the clone-able user data and metadata keys, '
      'and does not write the original; `DNASpec.first_dna` / `next_dna` / `random_dna` and `DNA.from_fn` hand out the generated DNA after exactly one `use_spec` with the spec '
      'that was asked -- also when `attach_spec` is omitted -- and unbound only on an explicit attach_spec=False; the copy of a sealed DNA is sealed again after its metadata is re-attached and a deep clone holds deep copies of the retained metadata values (21 obligations in all). Lookups follow edits: the change hook `DNA._on_change` resolves to (today Object._on_change -> DNA._on_bound), run on the edited node and on every '
      'ancestor, leaves both lazily built lookup tables (`_decision_by_id_cache`, `_named_decisions`) dropped after an update of a decision below the node -- a child replaced by index, a value assigned, at depth 1 or 2 '
      '(5 obligations, shape-bounded: concrete update paths; metadata-only updates are not constrained). The exported views themselves (to_numbers/from_numbers, to_dict/from_dict under all option combinations, '
      'compact/verbose JSON, lookups by id/name/decision point) and alignment after every library operation that produces DNAs are covered by the bounded tier only.',
      'NARROW proof: the view functions thread mutable closures and whole-tree recursion and are outside the engine\'s reach; for them the check is a bounded '
      'stand-in (all valid DNAs of generated specs up to a size bound x all option combinations). Trusted: engine; `Object._sym_clone` returns a fresh copy (C07).',
      'contract-based deductive verification of a small kernel (pyvc) + bounded stand-in for the views', 'DESIGN.md 5/C12')
claim('C13', 'proof',
      'Frame kernel of `ObjectTemplate._decode` for templates with any number of hyper primitives: every rebind that materialises decoded values is applied to '
      '`symbolic.clone(template_value, deep=True)`, never to the template value; primitive i decodes exactly child DNA i (LOOP-BODY obligation); an arity '
      'mismatch is refused before anything is decoded; the template\'s own fields are not written; `OneOf.custom_apply` records the bound value spec only after every '
      'candidate was applied to it, and a refused binding leaves the placeholder unbound; `hyper.Float.custom_apply` refuses a floatv(lo, hi) with ValueError iff the float '
      'field\'s range does not contain [lo, hi] (real arithmetic, every combination of present / absent bounds). Decode/encode inversion, shapes, value-spec acceptance, '
      'iteration counts and `where` filters are covered by the bounded tier against an independent reference model.',
      'Trusted: engine; the deep clone is a fresh disjoint tree (C07/C01); primitives\' own decode is the induction hypothesis. Derived-value computation '
      '(`_compute_derived`) is not under contract.',
      'contract-based deductive verification (pyvc loop contract + trace obligations) + bounded stand-in', 'DESIGN.md 5/C13')
claim('C18', 'proof',
      'NARROW proof kernel: `Signature.get_value_spec` -- the lookup every functor call uses to decide whether a keyword names a parameter -- returns, for '
      'signatures of any size, the value spec of the first declared parameter of that name, else the value spec of **kwargs if there is one, else None (in '
      'particular the name of *args is not a keyword parameter): 1 unbounded obligation. Late binding: `Functor._on_change` (run after every rebind / attribute assignment) '
      'adds the argument to `_specified_args` -- the set a call replays -- whatever its value, also when it compares equal to the default (True == 1), drops it exactly when the new '
      'value is the missing marker, moves it between the default / non-default books by the comparison with the field default, and touches no book for a change below an '
      'argument (the two comparisons are independent Boolean unknowns): 4 obligations with the stated bound of ONE update per call (the loop body runs once), hence shape-bounded, not counted as proved. Construction-time binding of `Functor.__init__` is executed symbolically '
      'against a specification of Python\'s binding rule (positional i binds parameter i; surplus positionals go to *args or raise TypeError; a keyword naming a '
      'bound parameter raises TypeError; the symbolic constructor receives exactly that binding) for every signature shape with <= 3 positional parameters (+- *args), '
      '<= 4 positional and <= 2 keyword arguments, values symbolic: 300 obligations, all discharged, but with a stated bound on the signature size, so they are a '
      'BOUNDED stand-in and not counted as proved. Call-time binding, `Functor._parse_call_time_overrides`, is executed the same way against `py_call`, a spec of '
      'Python\'s call rule extended by the documented switches override_args / ignore_extra_args (taken from the call when given there, else from construction): '
      'signatures with <= 2 positional parameters (with/without default), +- *args, +- one keyword-only parameter, +- **kwargs; <= n+1 positionals, <= 2 keywords, <= 2 '
      'arguments bound earlier; values and switches symbolic; 14,674 shapes in the thorough tier, a seed-determined sample of 480 in the quick tier -- also BOUNDED. The property itself (same result or same kind of error as calling the original callable) is checked by the '
      'bounded differential driver with the interpreter as oracle (function, class-style and symbolized-class functors; signature shapes x supply modes x value '
      'classes x operation histories).',
      'Only the lookup kernel is proved: "behaves like the original callable" has the Python interpreter itself as specification, which a contract cannot state in '
      'closed form; the binding loops run over argument lists whose length must be concrete for the engine. Trusted: engine.',
      'contract-based deductive verification of a small kernel (pyvc) + shape-bounded symbolic execution + bounded differential oracle', 'DESIGN.md 5/C18')
