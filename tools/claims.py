# Claims table, exec'd by gen_manifest.py.
claim('C04', 'proof',
      'Per spec class (Number int/real, Enum, List, Tuple fixed/variable with symbolic arity, Str): `_validate` raises iff the '
      'statement\'s acceptance predicate is false; `is_compatible` True implies acceptance-set inclusion; `_extend` narrows and '
      'leaves the base compatible; `apply` result accepted, idempotent, spec unchanged. Obligations are discharged by z3 for all '
      'bounds/sizes/values; nested element specs enter through an induction hypothesis (uninterpreted acceptance set + law).',
      'Trusted: pyvc engine (cross-checked per path against CPython), builtin axioms, A-INDUCTION for nesting, floats as reals. '
      'Dict/Object/Union/Callable specs and Schema-level extend/compat are not under contract in this revision.',
      'contract-based deductive verification (pyvc VC generation from real source + z3/cvc5)', 'DESIGN.md 5/C04')
