#!/usr/bin/env python3
"""Writes FINDINGS.md: a readable rendering of known_findings.json (repaired defects with their fix: commits, and known findings with witness and reason)."""
import json, os, re
V = os.path.dirname(os.path.dirname(os.path.abspath(__file__)))
k = json.load(open(os.path.join(V, 'known_findings.json')))
out = ['# Defects of the pinned google/pyglove tree found by the checks', '',
       'Generated from `known_findings.json` by `tools/findings_md.py`. Every entry was first reported by a check on the then-unchanged tree',
       'and replayed against the real code before being repaired or recorded.', '',
       f'## Repaired ({len(k["fixed"])} `fix:` entries)', '']
by = {}
for line in k['fixed']:
  m = re.match(r'fixed: property=(C\d\d) (\w+) (.*)', line)
  by.setdefault(m.group(1), []).append((m.group(2), m.group(3)))
for p in sorted(by):
  out.append(f'### {p}')
  for h, what in by[p]:
    out.append(f'- `{h}` {what}')
  out.append('')
out += [f'## Known findings ({len(k["findings"])} entries; the check prints KNOWN-FINDING and exits 0)', '']
byk = {}
for f in k['findings']:
  byk.setdefault(f['property'], []).append(f)
for p in sorted(byk):
  out.append(f'### {p}')
  for f in byk[p]:
    out.append(f'- **{f["id"]}** ({f["kind"]}: `{f.get("match") or f["obligation"]}`)  ')
    out.append(f'  {f["what"]}  ')
    out.append(f'  *Not repaired because:* {f["why_not_fixed"]}')
  out.append('')
open(os.path.join(V, 'FINDINGS.md'), 'w').write('\n'.join(out))
print(len(k['fixed']), 'fixed,', len(k['findings']), 'known')
