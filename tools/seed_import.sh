#!/bin/sh
# usage: tools/seed_import.sh <src-root> <round> [Cnn]   (src-root/<Cnn>/out/<k>/{patch.diff,demo.py,meta.json})
# Copies new seeds into /verif/seeded/<Cnn>-<n>, numbering after the existing ones, and
# refreshes patches that need fuzz so that they apply with `git apply` on /repo's HEAD.
SRC="$1"; ROUND="$2"
cd "$(dirname "$0")/.."
S=${VERIF_SCRATCH:-/var/tmp}/seedimport-$$; rm -rf $S; git clone -q /repo $S
for pd in "$SRC"/${3:-C*}/; do
  p=$(basename "$pd")
  for k in "$pd"out/*/; do
    [ -f "$k/patch.diff" ] && [ -f "$k/demo.py" ] && [ -f "$k/meta.json" ] || continue
    [ -f "$k/.imported" ] && continue
    n=$(( $(ls -d seeded/$p-* 2>/dev/null | sed 's/.*-//' | sort -n | tail -1) + 1 ))
    d=seeded/$p-$n; mkdir -p $d
    cp "$k/patch.diff" "$k/demo.py" "$k/meta.json" $d/
    python3 - $d $ROUND <<'PY'
import json,sys
d,r=sys.argv[1:3]
m=json.load(open(d+'/meta.json')); m['round']=int(r); json.dump(m,open(d+'/meta.json','w'),indent=1)
PY
    if ! git -C $S apply --check "$PWD/$d/patch.diff" 2>/dev/null; then
      if (cd $S && patch -p1 -s < "$OLDPWD/$d/patch.diff"); then
        cp $d/patch.diff $d/patch.orig.diff; git -C $S diff > $d/patch.diff; echo "$d: refreshed (fuzz)"
      else
        echo "$d: DOES NOT APPLY"
      fi
      git -C $S checkout -q -- .; git -C $S clean -fdq
    fi
    touch "$k/.imported"
    echo "imported $k -> $d"
  done
done
rm -rf $S
