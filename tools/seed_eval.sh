#!/bin/sh
# usage: tools/seed_eval.sh <seeded-dir> [tier] [props...]
# Runs the check(s) of the seeded change's property (or the listed ones)
# against a scratch copy of /repo with <seeded-dir>/patch.diff applied.
# Evidence and replays of these runs go to a scratch directory, never to
# /verif/evidence.  Prints one line per property:  <seed> <prop> rc=<rc> <violations...>
# The authoritative confirmation is done on /repo itself (git apply / checkout),
# see tools/seed_confirm.sh; this script is the parallel-safe exploration form.
set -e
D="$1"; T="${2:-quick}"; shift; [ $# -gt 0 ] && shift
cd "$(dirname "$0")/.."
P=$(python3 -c "import json,sys; print(json.load(open('$D/meta.json'))['property'])")
PROPS="${*:-$P}"
S="${VERIF_SCRATCH:-/var/tmp}/pyvc-seed-$$"
mkdir -p "$S/out"; trap 'rm -rf "$S"' EXIT
rsync -a --exclude .git --exclude '__pycache__' /repo/ "$S/repo/"
(cd "$S/repo" && patch -p1 -s < "$OLDPWD/$D/patch.diff") || { echo "$D PATCH-DOES-NOT-APPLY"; exit 9; }
for p in $PROPS; do
  set +e
  PYVC_REPO="$S/repo" PYVC_OUT="$S/out" ./check $p --tier $T > "$S/log" 2>&1; rc=$?
  set -e
  echo "$D $p rc=$rc $(grep -c '^VIOLATION' "$S/log") violations; $(grep -A1 '^VIOLATION' "$S/log" | grep -v '^VIOLATION\|^--' | head -4 | tr -s ' ' | tr '\n' ';')"
  grep '^CHECKER-ERROR\|^UNDECIDED' "$S/log" | head -3
done
