#!/bin/sh
# usage: tools/seed_confirm.sh <seeded-dir> [--no-suite]
# Confirms a seeded change on a scratch copy of /repo's working tree:
#   demo exits 0 on the unchanged tree, the patch applies, demo exits 1 on the
#   changed tree, the whole existing test suite still gives the baseline outcome.
# Writes <seeded-dir>/confirm.json and prints one summary line.
D="$(cd "$1" && pwd)"; SUITE=1; [ "$2" = "--no-suite" ] && SUITE=0
S="${VERIF_SCRATCH:-/var/tmp}/pyvc-confirm-$$"
mkdir -p "$S"; trap 'rm -rf "$S"' EXIT
rsync -a --exclude .git --exclude '__pycache__' /repo/ "$S/repo/"
cd "$S/repo"
cp "$D/demo.py" demo.py
timeout 300 /venv/bin/python demo.py > "$S/clean.out" 2>&1; RC0=$?
if ! patch -p1 -s --dry-run < "$D/patch.diff" > /dev/null 2>&1; then
  echo "$(basename $D) PATCH-DOES-NOT-APPLY"
  printf '{"applies": false}\n' > "$D/confirm.json"; exit 0
fi
patch -p1 -s < "$D/patch.diff"
timeout 300 /venv/bin/python demo.py > "$S/patched.out" 2>&1; RC1=$?
rm -f demo.py
SUM="skipped"
if [ $SUITE = 1 ]; then
  SUM=$(timeout 1500 /venv/bin/python -m pytest -q -p no:cacheprovider --timeout=900 -x --deselect pyglove/core/io/file_system_test.py::StdFileSystemTest::test_file_system --deselect pyglove/core/io/file_system_test.py::FileIoApiTest::test_standard_filesystem --deselect pyglove/core/utils/text_color_test.py::TextColorTest::test_colored_block 2>&1 | tail -1)
fi
python3 - "$D" "$RC0" "$RC1" "$SUM" "$S/patched.out" <<'PY'
import json, sys
d, rc0, rc1, summ, out = sys.argv[1:6]
json.dump(dict(applies=True, demo_exit_unchanged=int(rc0), demo_exit_changed=int(rc1), suite=summ,
               demo_output_changed=open(out).read()[-1500:]), open(d + '/confirm.json', 'w'), indent=1)
PY
echo "$(basename $D) clean=$RC0 patched=$RC1 suite: $SUM"
