#!/bin/sh
# usage: tools/mut.sh <file-relative-to-repo> <python-expr old> <python-expr new> -- command...
# Applies an exact-string replacement (must match once) on a scratch copy.
F="$1"; OLD="$2"; NEW="$3"; shift 3; [ "$1" = "--" ] && shift
S="${VERIF_SCRATCH:-/var/tmp}/pyvc-mut-$$"
mkdir -p "$S"; trap 'rm -rf "$S"' EXIT
rsync -a --exclude .git --exclude '__pycache__' /repo/ "$S/repo/"
python3 - "$S/repo/$F" "$OLD" "$NEW" <<'PY' || exit 9
import sys
p, old, new = sys.argv[1:4]
s = open(p).read()
if s.count(old) != 1:
  print(f'MUTATION: pattern matches {s.count(old)} times'); sys.exit(1)
open(p, 'w').write(s.replace(old, new))
PY
PYVC_REPO="$S/repo" "$@"
