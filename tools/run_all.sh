#!/bin/sh
# usage: tools/run_all.sh [tier]   (VERIF_SEED from env)
cd "$(dirname "$0")/.."
T="${1:-quick}"
for p in C01 C02 C03 C04 C05 C06 C07 C08 C09 C10 C11 C12 C13 C14 C15 C16 C17 C18 C19 C20; do
  ./check $p --tier $T > /var/tmp/runall_$p.log 2>&1; rc=$?
  echo "rc=$rc $(tail -1 /var/tmp/runall_$p.log)"
  grep -h "^VIOLATION\|^CHECKER-ERROR\|^UNDECIDED" /var/tmp/runall_$p.log | head -5
done
