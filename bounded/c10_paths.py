"""C10 bounded drivers: path addressing (KeyPath, traversal, flatten, KeyPathSet).

Reference models are plain Python: a path is a tuple of keys (type-aware:
the int 0 and the string '0' are different keys), a nested value is walked by a
ten-line recursive walker, a path set is a python set of key tuples.

Key scope: non-empty strings whose brackets are properly nested (including
dots, brackets, digits-only, unicode, '$', whitespace) and ints (incl. negative).

Value scope for lookup / traversal / flatten: trees of plain dicts / lists
(also subclasses of them, int-keyed dicts, containers with > 10 children),
pg.Dict / pg.List / pg.Object, equal-but-distinct sub-values, and DAGs: the very
same container object (plain or symbolic) sitting at several places.  Cycles
are excluded (a traversal of them cannot terminate).  Path-keyed dicts are
mappings: canonicalize is checked on permuted and on partially flattened forms.

Node values: a node is addressed by its path whatever value it holds.  Besides
ordinary leaves the values carry leaves that an implementation might confuse
with "nothing there" or might compare instead of locate: the pg.MISSING_VALUE
placeholder (in plain containers, and as the unbound fields of partial
pg.Object / pg.Dict values), the tuple (pg.MISSING_VALUE,), falsy leaves
(0, False, '', (), 0.0), NaN, exception classes / instances, and objects whose
== answers always-True, always-False or with a non-bool (numpy style).  All
lookup entry points (query / get with any default / exists / sym_has / sym_get)
must agree on every node and on every absent key.

Lookup options: `use_inferred` (which form of an inferential node -- pg.Ref,
ValueFromParentChain -- a path goes through and ends at) is crossed with the
entry points and with the ways of giving a default: on values without
inferential nodes (one form only, drv_query) and on values that hold them as
dict values / list slots / object fields (drv_lookup_options, with a model of
the symbolic and of the inferred form); traversal of such values reports the
nodes of the symbolic form, the one a plain lookup addresses.
"""
import itertools
import re

import pyglove as pg
from pyvc.bounded import Recorder, rng

KP = pg.KeyPath
KPS = pg.KeyPathSet

STR_KEYS = ['a', 'b', 'ab', 'A', '_', 'x.y', '.', 'a.', '.a', '..', '[0]', 'a[0]', '[]',
            '[x]', '[[x]]', '[a][b]', 'a[b.c]d', '[-1]', '0', '1', '00', '10', '-1', '-',
            '--1', '1.5', '-0', 'é', '٣', '²', '中.文', 'a b', ' ', '$',
            "'", '"', 'a\nb', '\t', 'None', '0x1', '1e3', '+1', '[.]', 'a.[b]']
INT_KEYS = [0, 1, 2, 9, 10, -1, -10, 123456789]
SMALL_KEYS = ['a', 'b', 'x.y', '[0]', '0', '10', '-1', 'é', '$', 0, 1, 9, 10, -1]


def _tk(keys):
  """Type-aware key tuple."""
  return tuple((type(k).__name__, k) for k in keys)


def _kp_src(keys):
  return f'pg.KeyPath({list(keys)!r})'


def _keyclass(k):
  if isinstance(k, int):
    return 'int<0' if k < 0 else 'int'
  if k == '$':
    return 'str-dollar'
  if any(c in k for c in '[].'):
    return 'str-special'
  if k.lstrip('-').isdigit():
    return 'str-digits'
  if not k.isascii():
    return 'str-unicode'
  return 'str'


_CLASS_PRIORITY = ['int<0', 'str-special', 'str-digits', 'str-unicode', 'str-dollar', 'int', 'str']


def _seqclass(keys):
  """Input class of a key sequence: its most unusual kind of key (one id per defect)."""
  cl = set(_keyclass(k) for k in keys)
  for c in _CLASS_PRIORITY:
    if c in cl:
      return c
  return 'root'


class _Chk:
  """Cheap pass path, full record on failure."""

  def __init__(self, rec):
    self.rec = rec

  def __call__(self, cid, key, ok, msg='', wit=''):
    rec = self.rec
    if ok and len(rec.samples) >= 4:
      rec.cases += 1
      try:
        rec.keys.add((cid, key))
      except TypeError:
        rec.keys.add((cid, repr(key)))
      return True
    w = wit() if callable(wit) else wit
    if not ok and len(w) > 1190:    # the record keeps 1200 chars: never store a cut snippet.
      w = ('# witness too long for the record; failing input: ' + repr(key)[:900] +
           '\nraise AssertionError("see failing input")')
    return rec.case(cid, key, ok, msg() if callable(msg) else msg, w)


def _out(fn, *a, **k):
  try:
    return ('ok', fn(*a, **k))
  except Exception as e:  # pylint: disable=broad-except
    return ('exc', type(e).__name__)


# ---------------------------------------------------------------------------
# Driver 1: format / parse round trip and construction.
# ---------------------------------------------------------------------------

def _sequences(tier, seed):
  alpha = STR_KEYS + INT_KEYS
  yield ()
  for k in alpha:
    yield (k,)
  for a in alpha:
    for b in alpha:
      yield (a, b)
  small = alpha[::2] + ['$', 0, -1] if tier == 'quick' else alpha
  for t in itertools.product(small, repeat=3):
    yield t
  if tier != 'quick':
    for t in itertools.product(SMALL_KEYS, repeat=4):
      yield t
  r = rng(seed, 'c10-seq')
  for _ in range(2000 if tier == 'quick' else 40000):
    yield tuple(r.choice(alpha) for _ in range(r.randrange(3, 8)))


def drv_roundtrip(tier, seed):
  rec = Recorder('C10', 'KeyPath format/parse round trip, construction, hash/eq',
                 scope=f'{len(STR_KEYS)} tricky str keys + {len(INT_KEYS)} ints: all sequences len<=2, len 3 '
                       'over a sub-alphabet (len 4 thorough), seeded random len 3..7')
  chk = _Chk(rec)
  seen = {}
  def one(ks):
    ks = list(ks)
    cls = _seqclass(ks)
    src = _kp_src(ks)
    p = KP(ks)
    chk(f'construct.keys/{cls}', tuple(ks),
        _tk(p.keys) == _tk(ks) and len(p) == len(ks) and p.depth == len(ks) and p.is_root == (not ks),
        lambda: f'keys={p.keys!r} depth={p.depth}', lambda: f'import pyglove as pg; assert {src}.keys == {ks!r}')
    r = _out(lambda: str(p))
    if not chk(f'format.total/{cls}', tuple(ks), r[0] == 'ok' and isinstance(r[1], str), lambda: f'{r}',
               lambda: f'import pyglove as pg; str({src})'):
      return
    s = r[1]
    chk(f'format.str-repr-path-agree/{cls}', tuple(ks), s == repr(p) == p.path == p.format() == p.path_str(),
        lambda: f'{s!r} {repr(p)!r} {p.path!r}', lambda: f'import pyglove as pg; p = {src}; assert str(p) == repr(p) == p.path == p.path_str()')
    q = _out(KP.parse, s)
    ok = q[0] == 'ok' and _tk(q[1].keys) == _tk(ks)
    chk(f'roundtrip.parse-format/{cls}', tuple(ks), ok,
        lambda: f'str(path)={s!r} parses to {q[1].keys if q[0] == "ok" else q}, want {ks!r}',
        lambda: f'import pyglove as pg; p = {src}; assert pg.KeyPath.parse(str(p)).keys == {ks!r}')
    # distinct key sequences print differently.
    prev = seen.get(s)
    if prev is None:
      seen[s] = _tk(ks)
    else:
      chk(f'format.injective/{cls}', tuple(ks), prev == _tk(ks), lambda: f'{s!r} printed for {prev} and {ks!r}',
          lambda: f'import pyglove as pg; assert str({src}) != str(pg.KeyPath({[k for _, k in prev]!r}))')
    if q[0] == 'ok' and ok:
      p2 = q[1]
      chk(f'eq-hash.parsed-equals-built/{cls}', tuple(ks),
          p2 == p and not (p2 != p) and hash(p2) == hash(p) and p == s and hash(p) == hash(s),
          'parsed path differs in ==/hash', lambda: f'import pyglove as pg; p = {src}; q = pg.KeyPath.parse(str(p)); assert p == q and hash(p) == hash(q) and p == str(p)')
      chk(f'from_value/{cls}', tuple(ks), _tk(KP.from_value(s).keys) == _tk(ks) and KP.from_value(p) is p,
          'from_value', lambda: f'import pyglove as pg; p = {src}; assert pg.KeyPath.from_value(str(p)).keys == {ks!r}')
    # key / parent / construction with parent / parse with parent.
    if ks:
      chk(f'parent-key/{cls}', tuple(ks), _tk(p.parent.keys) == _tk(ks[:-1]) and _tk([p.key]) == _tk(ks[-1:]),
          lambda: f'parent={p.parent.keys!r} key={p.key!r}',
          lambda: f'import pyglove as pg; p = {src}; assert p.parent.keys == {ks[:-1]!r} and p.key == {ks[-1]!r}')
      for cut in range(len(ks) + 1):
        head, tail = ks[:cut], ks[cut:]
        a = KP(tail, KP(head))
        okc = _tk(a.keys) == _tk(ks)
        if tail:
          okc = okc and _tk(KP(tail[0], KP(head)).keys) == _tk(head + tail[:1])
        b = _out(KP.parse, str(KP(tail)), KP(head))
        okp = b[0] == 'ok' and _tk(b[1].keys) == _tk(ks)
        chk(f'construct.with-parent/{cls}', (tuple(ks), cut), okc, lambda: f'{a.keys!r}',
            lambda: f'import pyglove as pg; assert pg.KeyPath({tail!r}, pg.KeyPath({head!r})).keys == {ks!r}')
        chk(f'parse.with-parent/{cls}', (tuple(ks), cut), okp, lambda: f'{b}',
            lambda: f'import pyglove as pg; assert pg.KeyPath.parse(str(pg.KeyPath({tail!r})), pg.KeyPath({head!r})).keys == {ks!r}')
    else:
      chk('parent-key/root', (), _out(lambda: p.parent) == ('exc', 'KeyError') and _out(lambda: p.key) == ('exc', 'KeyError'),
          'root parent/key must raise KeyError', 'import pyglove as pg; pg.KeyPath().parent')
    # keys is a copy.
    kk = p.keys
    kk.append('zz')
    chk(f'keys.is-copy/{cls}', tuple(ks), len(p.keys) == len(ks), 'mutating .keys changed the path',
        lambda: f'import pyglove as pg; p = {src}; p.keys.append(1); assert len(p) == {len(ks)}')

  for ks in _sequences(tier, seed):
    try:
      one(ks)
    except Exception as e:  # pylint: disable=broad-except
      rec.case(f'unexpected-exception/{_seqclass(ks)}', tuple(ks), False, f'{type(e).__name__}: {e}',
               f'import pyglove as pg; p = {_kp_src(ks)}; assert pg.KeyPath.parse(str(p)).keys == {list(ks)!r}')

  # malformed strings are rejected; well-formed documented strings parse as documented.
  for bad in ['a]', ']', 'a[', '[', 'a[0', 'a]0[', '[[0]', 'a.b]', '[a]]', 'a[[b]']:
    chk('parse.rejects-unbalanced', bad, _out(KP.parse, bad) == ('exc', 'ValueError'), f'parse({bad!r}) must raise ValueError',
        f'import pyglove as pg\ntry:\n  pg.KeyPath.parse({bad!r})\n  raise AssertionError("accepted")\nexcept ValueError:\n  pass')
  for text, want in [('', []), ('a', ['a']), ('a.b', ['a', 'b']), ('a[0]', ['a', 0]), ('a.0.', ['a', '0']),
                     ('a[0][1]', ['a', 0, 1]), ('a[x.y].b', ['a', 'x.y', 'b']), ('[0].a', [0, 'a']),
                     ('[-1]', [-1]), ('a[-12]', ['a', -12]), ('[0][x]', [0, 'x']), ('a.b.c.', ['a', 'b', 'c'])]:
    g = _out(KP.parse, text)
    chk('parse.documented-forms', text, g[0] == 'ok' and _tk(g[1].keys) == _tk(want), f'parse({text!r}) -> {g[1].keys if g[0] == "ok" else g}, want {want!r}',
        f'import pyglove as pg; assert pg.KeyPath.parse({text!r}).keys == {want!r}')
  return rec.result()


# ---------------------------------------------------------------------------
# Driver 2: arithmetic and ordering.
# ---------------------------------------------------------------------------

def _first_diff(a, b):
  for x, y in zip(a, b):
    if _tk([x]) != _tk([y]):
      return x, y
  return None


def _order_class(*seqs):
  """Input class of an ordering check: what kind of keys meet at a first difference."""
  cl = 'same-kind-keys'
  for a, b in itertools.combinations(seqs, 2):
    d = _first_diff(a, b)
    if d is None:
      continue
    x, y = d
    if isinstance(x, int) != isinstance(y, int):
      if str(x) == str(y):
        return 'int-vs-same-digits-str'
      cl = 'int-vs-str-keys'
  return cl


def drv_arith(tier, seed):
  keys = ['a', 'b', 'x.y', '0', '10', '5', '[0]', 0, 9, 10, -1] if tier == 'quick' else \
      ['a', 'b', 'ab', 'x.y', '0', '10', '5', '9', '-1', '[0]', 'é', '$', 0, 1, 9, 10, -1, -10]
  seqs = [()] + [(k,) for k in keys] + list(itertools.product(keys, repeat=2))
  r = rng(seed, 'c10-arith')
  seqs += [tuple(r.choice(keys) for _ in range(3)) for _ in range(40 if tier == 'quick' else 150)]
  seqs = list(dict.fromkeys(seqs))
  n = len(seqs)
  rec = Recorder('C10', 'KeyPath +, -, is_relative_to, comparisons vs key tuples',
                 scope=f'{n} key sequences (len<=2 over {len(keys)} keys + random len 3): all ordered pairs; ordering triples via tables')
  chk = _Chk(rec)
  paths = [KP(list(s)) for s in seqs]
  LT = [[None] * n for _ in range(n)]
  for i, a in enumerate(seqs):
    p = paths[i]
    la = list(a)
    chk('add.none', a, p + None is p or _tk((p + None).keys) == _tk(a), 'p + None', f'import pyglove as pg; assert ({_kp_src(a)} + None).keys == {la!r}')
    chk('sub.none', a, _tk((p - None).keys) == _tk(a), 'p - None', f'import pyglove as pg; assert ({_kp_src(a)} - None).keys == {la!r}')
    for j, b in enumerate(seqs):
      q = paths[j]
      lb = list(b)
      cls = _seqclass(a + b)
      pa, pb = _kp_src(a), _kp_src(b)
      # concatenation.
      g = _out(lambda: p + q)
      chk(f'add.keypath/{cls}', (a, b), g[0] == 'ok' and _tk(g[1].keys) == _tk(a + b), lambda: f'{g}',
          lambda: f'import pyglove as pg; assert ({pa} + {pb}).keys == {la + lb!r}')
      g = _out(lambda: p + str(q))
      chk(f'add.str/{cls}', (a, b), g[0] == 'ok' and _tk(g[1].keys) == _tk(a + b), lambda: f'{g}',
          lambda: f'import pyglove as pg; assert ({pa} + str({pb})).keys == {la + lb!r}')
      if len(b) == 1 and isinstance(b[0], int):
        g = _out(lambda: p + b[0])
        chk(f'add.int/{cls}', (a, b), g[0] == 'ok' and _tk(g[1].keys) == _tk(a + b), lambda: f'{g}',
            lambda: f'import pyglove as pg; assert ({pa} + {b[0]!r}).keys == {la + lb!r}')
      # operands untouched.
      chk(f'add.operands-unchanged/{cls}', (a, b), _tk(p.keys) == _tk(a) and _tk(q.keys) == _tk(b) and str(p) == str(KP(la)),
          'operand changed by +', lambda: f'import pyglove as pg; p = {pa}; p + {pb}; assert p.keys == {la!r}')
      # prefix test.
      want = len(a) >= len(b) and _tk(a[:len(b)]) == _tk(b)
      g1, g2 = _out(p.is_relative_to, q), _out(p.is_relative_to, str(q))
      chk(f'is_relative_to/{cls}', (a, b), g1 == ('ok', want) and g2 == ('ok', want), lambda: f'{g1} {g2} want {want}',
          lambda: f'import pyglove as pg; assert {pa}.is_relative_to({pb}) is {want}')
      if len(b) == 1 and isinstance(b[0], int):
        g = _out(p.is_relative_to, b[0])
        chk(f'is_relative_to.int/{cls}', (a, b), g == ('ok', want), lambda: f'{g} want {want}',
            lambda: f'import pyglove as pg; assert {pa}.is_relative_to({b[0]!r}) is {want}')
      # subtraction.
      for arg, nm in ((q, 'keypath'), (str(q), 'str')) + (((b[0], 'int'),) if len(b) == 1 and isinstance(b[0], int) else ()):
        g = _out(lambda: p - arg)
        if want:
          okk = g[0] == 'ok' and _tk(g[1].keys) == _tk(a[len(b):])
        else:
          okk = g == ('exc', 'ValueError')
        chk(f'sub.{nm}/{"relative" if want else "not-relative"}/{cls}', (a, b), okk,
            lambda: f'{g[1].keys if g[0] == "ok" else g}; want {list(a[len(b):]) if want else "ValueError"}',
            lambda: f'import pyglove as pg; print({pa} - {arg!r})' if not want else
            f'import pyglove as pg; assert ({pa} - {("pg.KeyPath(" + repr(lb) + ")") if nm == "keypath" else repr(arg)}).keys == {list(a[len(b):])!r}')
      g = _out(lambda: (p + q) - p)
      chk(f'add-sub.inverse/{cls}', (a, b), g[0] == 'ok' and _tk(g[1].keys) == _tk(b), lambda: f'{g}',
          lambda: f'import pyglove as pg; assert (({pa} + {pb}) - {pa}).keys == {lb!r}')
      # equality is key-sequence equality (type aware).
      same = _tk(a) == _tk(b)
      chk(f'eq.is-key-sequence-equality/{cls}', (a, b), (p == q) == same and (p != q) == (not same) and (not same or hash(p) == hash(q)),
          lambda: f'p == q -> {p == q}, key sequences {"equal" if same else "differ"}',
          lambda: f'import pyglove as pg; assert ({pa} == {pb}) is {same}')
      # ordering: a strict total order on key sequences, consistent with ==.
      oc = _order_class(a, b)
      lt, gt, le, ge = (_out(lambda: p < q), _out(lambda: p > q), _out(lambda: p <= q), _out(lambda: p >= q))
      rl = _out(lambda: q < p)
      if not chk(f'order.total/{oc}', (a, b), all(x[0] == 'ok' and isinstance(x[1], bool) for x in (lt, gt, le, ge)),
                 lambda: f'{lt} {gt} {le} {ge}', lambda: f'import pyglove as pg; {pa} < {pb}'):
        continue
      LT[i][j] = lt[1]
      chk(f'order.trichotomy/{oc}', (a, b), [lt[1], same, gt[1]].count(True) == 1,
          lambda: f'<:{lt[1]} ==:{same} >:{gt[1]} (exactly one must hold)',
          lambda: f'import pyglove as pg; p, q = {pa}, {pb}; assert [p < q, p == q, p > q].count(True) == 1')
      chk(f'order.gt-is-lt-swapped/{oc}', (a, b), gt == rl, lambda: f'p>q {gt}, q<p {rl}',
          lambda: f'import pyglove as pg; p, q = {pa}, {pb}; assert (p > q) == (q < p)')
      chk(f'order.le-ge-consistent/{oc}', (a, b), le[1] == (not gt[1]) and ge[1] == (not lt[1]),
          lambda: f'<:{lt[1]} >:{gt[1]} <=:{le[1]} >=:{ge[1]}',
          lambda: f'import pyglove as pg; p, q = {pa}, {pb}; assert (p <= q) == (not p > q) and (p >= q) == (not p < q)')
      # consistency with the key sequences: a proper prefix sorts first; the
      # first differing key decides when both keys are of the same kind.
      d = _first_diff(a, b)
      if d is None:
        if len(a) != len(b):
          chk('order.prefix-first', (a, b), lt[1] == (len(a) < len(b)), lambda: f'p<q -> {lt[1]}',
              lambda: f'import pyglove as pg; assert ({pa} < {pb}) is {len(a) < len(b)}')
      else:
        x, y = d
        if isinstance(x, int) == isinstance(y, int):
          chk(f'order.first-difference-decides/{"int" if isinstance(x, int) else "str"}', (a, b), lt[1] == (x < y),
              lambda: f'p<q -> {lt[1]}, first differing keys {x!r}, {y!r}',
              lambda: f'import pyglove as pg; assert ({pa} < {pb}) is {x < y}')
  # transitivity through the table (over triples whose pairs obey trichotomy:
  # a pair already reported adds nothing).
  TRI = [[LT[i][j] is not None and LT[j][i] is not None and
          [LT[i][j], _tk(seqs[i]) == _tk(seqs[j]), LT[j][i]].count(True) == 1 for j in range(n)] for i in range(n)]
  for i in range(n):
    Li = LT[i]
    for j in range(n):
      if not Li[j] or not TRI[i][j]:
        rec.cases += n
        continue
      Lj = LT[j]
      for k in range(n):
        rec.cases += 1
        if Lj[k] and Li[k] is False and TRI[j][k] and TRI[i][k]:
          a, b, c = seqs[i], seqs[j], seqs[k]
          oc = _order_class(a, b, c)
          if oc != 'same-kind-keys':
            oc = 'int-vs-str-keys'
          rec.case(f'order.transitive/{oc}', (a, b, c), False, 'p<q and q<r but not p<r',
                   f'import pyglove as pg; p, q, r = {_kp_src(a)}, {_kp_src(b)}, {_kp_src(c)}; assert not (p < q and q < r) or p < r')
  rec.keys.add(('order.transitive', n ** 3))
  # sorting is deterministic whatever the input order.
  for t in range(60 if tier == 'quick' else 600):
    idx = [r.randrange(n) for _ in range(r.randrange(2, 9))]
    sub = [seqs[i] for i in idx]
    oc = _order_class(*sub)
    s1 = [paths[i] for i in idx]
    s2 = list(s1)
    r.shuffle(s2)
    o1, o2 = _out(sorted, s1), _out(sorted, s2)
    ok = o1[0] == 'ok' and o2[0] == 'ok' and [_tk(x.keys) for x in o1[1]] == [_tk(x.keys) for x in o2[1]]
    # a failure here is a consequence of a broken pair/triple law: same id as that law.
    cid = {'int-vs-same-digits-str': 'order.trichotomy/int-vs-same-digits-str',
           'int-vs-str-keys': 'order.transitive/int-vs-str-keys'}.get(oc, f'order.sorted-independent-of-input-order/{oc}')
    chk(cid, tuple(sub), ok, lambda: f'{o1} vs {o2}',
        lambda: 'import pyglove as pg; a = [%s]; b = [%s]; assert sorted(a) == sorted(b)' % (
            ', '.join(_kp_src(x.keys) for x in s1), ', '.join(_kp_src(x.keys) for x in s2)))
  return rec.result()


# ---------------------------------------------------------------------------
# Nested values for lookup / traversal: source expressions + a plain model.
# ---------------------------------------------------------------------------

PRE = '''import pyglove as pg
@pg.members([('x', pg.typing.Any()), ('y', pg.typing.Any(default=None))])
class A(pg.Object):
  pass
'''
# dict / list subclasses are nested values too.
SUBPRE = '''import collections
class MyD(dict):
  pass
class MyL(list):
  pass
'''
SUBCLASS_EXPRS = ["collections.OrderedDict([('b', 1), ('a', [1, 2])])", "MyD({'x.y': MyL([1, MyD({'k': 2})])})", '[MyL([1, 2]), MyD()]',
                  "MyL([MyD({'a': 1}), collections.OrderedDict(a=MyL([]))])", "{'a': MyD({'0': 1, '[0]': MyL(['va'])}), 'b': [MyL([[1]])]}",
                  "MyL([(s := MyD({'k': MyL([1, 2])})), s])"]


class _MObj:
  def __init__(self, *args):
    vals = list(args) + [None] * (2 - len(args))
    self.fields = [('x', vals[0]), ('y', vals[1])]


class _ModelPg:
  List = staticmethod(list)
  Dict = staticmethod(dict)


def _pre(expr):
  """Witness prelude for a value expression."""
  return PRE + (SUBPRE if 'My' in expr or 'collections.' in expr else '') + ''.join(SPEC_SRC[n] for n in dict.fromkeys(_SPEC_NAMES.findall(expr)))


class _ModelCollections:
  OrderedDict = staticmethod(dict)


# Leaves with unusual comparison behaviour (shared by the real values and the model),
# and partially bound values: their unbound fields are nodes holding the MISSING_VALUE placeholder.
SPEC_SRC = {
    'EqAll': "class EqAll:      # == to everything\n  __eq__ = lambda s, o: True\n  __ne__ = lambda s, o: False\n  __hash__ = lambda s: 1\n  __repr__ = lambda s: 'EqAll()'\n",
    'EqNone': "class EqNone:      # == to nothing, not even to itself\n  __eq__ = lambda s, o: False\n  __ne__ = lambda s, o: True\n  __hash__ = lambda s: 2\n  __repr__ = lambda s: 'EqNone()'\n",
    'EqArr': "class EqArr:      # numpy style: == gives a non-bool whose truth value is refused\n  __eq__ = __ne__ = lambda s, o: EqArr()\n  __hash__ = lambda s: 3\n  __repr__ = lambda s: 'EqArr()'\n"
             "  def __bool__(self): raise ValueError('ambiguous truth value')\n",
    'B': "@pg.members([('p', pg.typing.Any()), ('q', pg.typing.Int())])\nclass B(pg.Object):\n  pass\n",
    'PD': "PD = lambda **kw: pg.Dict.partial(kw, value_spec=pg.typing.Dict([('a', pg.typing.Int()), ('b', pg.typing.Dict([('c', pg.typing.Any())]))]))\n",
}
exec(SPEC_SRC['EqAll'] + SPEC_SRC['EqNone'] + SPEC_SRC['EqArr'], globals())  # pylint: disable=exec-used
SPECPRE = ''.join(SPEC_SRC.values())
_SPEC_NAMES = re.compile(r'\b(B|PD|EqAll|EqNone|EqArr)\b')


class _Unbound:
  def __repr__(self):
    return 'UNBOUND'


_UNBOUND = _Unbound()      # model of the placeholder in an unbound field.
_ModelPg.MISSING_VALUE = pg.MISSING_VALUE


class _MObjB(_MObj):
  def __init__(self, *args, **kw):    # pylint: disable=super-init-not-called
    vals = dict(zip(('p', 'q'), args))
    vals.update(kw)
    self.fields = [(n, vals.get(n, _UNBOUND)) for n in ('p', 'q')]

  @classmethod
  def partial(cls, *args, **kw):
    return cls(*args, **kw)


def _model_pd(**kw):
  b = dict(kw.get('b', {}))
  b.setdefault('c', _UNBOUND)
  return {'a': kw.get('a', _UNBOUND), 'b': b}


def _real_ns():
  """Namespace in which value expressions evaluate to the real values."""
  ns = {'__name__': 'c10ns'}
  exec(PRE + SUBPRE + SPECPRE, ns)  # pylint: disable=exec-used
  ns.update(EqAll=EqAll, EqNone=EqNone, EqArr=EqArr)    # the very classes the model uses.  # pylint: disable=undefined-variable
  return ns


def _model_eval(expr):
  return eval(expr, {'pg': _ModelPg, 'A': _MObj, 'B': _MObjB, 'PD': _model_pd, 'collections': _ModelCollections, 'MyD': dict, 'MyL': list,  # pylint: disable=eval-used
                     'EqAll': EqAll, 'EqNone': EqNone, 'EqArr': EqArr})  # pylint: disable=undefined-variable


def _mchildren(v, enter_objects=True):
  if isinstance(v, dict):
    return list(v.items())
  if isinstance(v, list):
    return list(enumerate(v))
  if isinstance(v, _MObj) and enter_objects:
    return list(v.fields)
  return None


def _mwalk(v, path=(), enter_objects=True, parent=None):
  """Preorder (path, node, parent)."""
  yield path, v, parent
  ch = _mchildren(v, enter_objects)
  if ch:
    for k, c in ch:
      yield from _mwalk(c, path + (k,), enter_objects, v)


def _mpost(v, path=(), enter_objects=True):
  ch = _mchildren(v, enter_objects)
  if ch:
    for k, c in ch:
      yield from _mpost(c, path + (k,), enter_objects)
  yield path, v


def _same_node(real, model):
  """Real node corresponds to model node (kind and, for leaves, value)."""
  if isinstance(model, dict):
    return isinstance(real, dict) and len(real) == len(model)
  if isinstance(model, list):
    return isinstance(real, list) and len(real) == len(model)
  if isinstance(model, _MObj):
    return isinstance(real, pg.Object)
  return _leaf_same(real, model)


_EQ_TYPES = (int, str, bool, type(None), tuple)


def _leaf_same(a, b):
  """Leaf a is the leaf b (of the model, or of a second evaluation of the same source)."""
  if b is _UNBOUND:       # the placeholder of an unbound field.
    return isinstance(a, pg.utils.MissingValue) and not isinstance(a, (dict, list))
  ta = type(a)
  if ta is not type(b):
    return False
  if ta in _EQ_TYPES:
    return a == b
  return repr(a) == repr(b)      # NaN, objects with an unusual ==, exceptions ...


def _leaf_class(m):
  """Input class of a node by the value it holds, for the values that need one (else None)."""
  if m is _UNBOUND or m is pg.MISSING_VALUE:
    return 'leaf-missing-value'
  t = type(m)
  if t in (EqAll, EqNone, EqArr):  # pylint: disable=undefined-variable
    return {EqAll: 'leaf-eq-always-true', EqNone: 'leaf-eq-always-false', EqArr: 'leaf-eq-non-bool'}[t]  # pylint: disable=undefined-variable
  if t is float:
    return 'leaf-nan' if m != m else ('leaf-falsy' if not m else None)
  if t is tuple:
    return 'leaf-falsy' if not m else ('leaf-missing-value-tuple' if m[0] is pg.MISSING_VALUE else None)
  if t in (int, bool, str):
    return None if m else 'leaf-falsy'
  if t is type or isinstance(m, BaseException):
    return 'leaf-exception'
  return None


DKEYS = ['a', 'b', 'x.y', '0', '[0]', '$', 'é', '-1', 'a[0].b', '.']
LEAVES = ['1', "'va'", 'None', '[]', '{}', '(1, 2)', "'a'"]


def _value_exprs(tier, seed, nrand):
  """(expr, flavour) of nested values: plain, symbolic, with objects."""
  out = []
  # depth-1 exhaustive: dict with 1..2 keys, list with 1..2 elems.
  leaves = LEAVES
  d1 = []
  for k in DKEYS:
    for l in leaves[:4]:
      d1.append(f'{{{k!r}: {l}}}')
  for k1, k2 in itertools.permutations(DKEYS[:6], 2):
    d1.append(f'{{{k1!r}: 1, {k2!r}: {leaves[1]}}}')
  for l1 in leaves:
    d1.append(f'[{l1}]')
    for l2 in leaves[:4]:
      d1.append(f'[{l1}, {l2}]')
  r = rng(seed, 'c10-values')

  def rand(depth, sym_ok):
    if depth <= 0 or r.random() < 0.25:
      return r.choice(leaves)
    k = r.randrange(4 if sym_ok else 2)
    if k == 0:
      ks = r.sample(DKEYS, r.randrange(1, 4))
      return '{' + ', '.join(f'{x!r}: {rand(depth - 1, sym_ok)}' for x in ks) + '}'
    if k == 1:
      return '[' + ', '.join(rand(depth - 1, sym_ok) for _ in range(r.randrange(1, 4))) + ']'
    if k == 2:
      ks = r.sample(DKEYS + [0, 5, -1], r.randrange(1, 4))
      return 'pg.Dict({' + ', '.join(f'{x!r}: {rand(depth - 1, sym_ok)}' for x in ks) + '})'
    return f'A({rand(depth - 1, sym_ok)}, {rand(depth - 1, sym_ok)})'

  for e in d1:
    out.append((e, 'plain'))
    out.append((f'pg.Dict({e})' if e.startswith('{') else f'pg.List({e})', 'sym'))
  # depth-2 chains: every depth-1 shape below a dict key / list slot / object field.
  for e in d1[::3]:
    out.append((f"{{'x.y': {e}, 'b': 0}}", 'plain'))
    out.append((f'[0, {e}]', 'plain'))
    out.append((f'A({e}, [{e}])', 'obj'))
    out.append((f"pg.Dict({{'$': {e}, 7: {e}}})", 'sym'))
  for _ in range(nrand):
    out.append((rand(r.randrange(2, 5), False), 'plain'))
    e = rand(r.randrange(2, 5), True)
    out.append((e, 'obj' if 'A(' in e else ('sym' if 'pg.' in e else 'plain')))
    e = rand(r.randrange(1, 4), True)
    wrap = r.choice(['pg.Dict({"r": %s})', 'pg.List([%s])', 'A(%s)'])
    out.append((wrap % e, 'obj' if ('A(' in e or wrap.startswith('A(')) else 'sym'))
  # plain dicts keyed by ints / by ints and strings (a dict is addressed by its keys).
  for e in ("{5: 1}", "{0: 'va', 1: None}", "{1: [], 0: {}}", "{-1: 1, 'a': 2}", "{0: 1, '0': 2}", "{'a': {2: [1]}, 7: {'0': {0: 1}}}",
            "[{3: 1}, {0: [1, 2]}]", "{10: {-1: {0: 'va'}}}"):
    out.append((e, 'plain-int-keys'))
  # equal but distinct containers at several places.
  for e in ("[[1, 2], [1, 2]]", "{'a': {'k': [1]}, 'b': {'k': [1]}}", "[[], [], {}, {}]", "[{'k': 1}, [{'k': 1}], {'k': 1}]",
            "{'a': [1, {'k': 2}], 'b': {'c': [1, {'k': 2}], 'd': 3}}"):
    out.append((e, 'plain'))
    out.append((f'pg.Dict({e})' if e.startswith('{') else f'pg.List({e})', 'sym'))
  # containers with more than ten children.
  ll = '[' + ', '.join(str(i) if i % 3 else "'va'" for i in range(12)) + ']'
  dd = '{' + ', '.join(f'{str(i)!r}: {i}' for i in (10, 9, 1, 0, 2, 11, 3, 8, 4, 7, 5, 6)) + '}'
  out += [(ll, 'plain'), (f'pg.List({ll})', 'sym'), (dd, 'plain'), (f'pg.Dict({dd})', 'sym'), (f"{{'a': {ll}, 'b': [{dd}]}}", 'plain'), (f'A({ll}, {dd})', 'obj')]
  for e in SUBCLASS_EXPRS:
    out.append((e, 'plain-subclass'))
    out.append((f'pg.Dict(r={e})', 'sym'))
  out.extend(_shared_exprs(r, nrand // 3))
  out.extend(_special_exprs())
  return list(dict.fromkeys(out))


# Nodes are addressed whatever value they hold.  (leaf source, flavour, where it may stand:
# 'plain' = below plain containers only (pg.Dict / pg.List treat the value specially
# on construction, which is not path addressing), 'direct' = also directly as a
# pg.Dict value / object field, 'any' = anywhere.)
SPECIAL_LEAVES = [('pg.MISSING_VALUE', 'leaf-missing-value', 'plain'), ('(pg.MISSING_VALUE,)', 'leaf-missing-value-tuple', 'any'),
                  ('0', 'leaf-falsy', 'any'), ('False', 'leaf-falsy', 'any'), ("''", 'leaf-falsy', 'any'), ('()', 'leaf-falsy', 'any'), ('0.0', 'leaf-falsy', 'any'),
                  ("float('nan')", 'leaf-nan', 'any'), ('EqAll()', 'leaf-eq-always-true', 'direct'), ('EqNone()', 'leaf-eq-always-false', 'any'),
                  ('EqArr()', 'leaf-eq-non-bool', 'direct'), ('KeyError', 'leaf-exception', 'any'), ("KeyError('k')", 'leaf-exception', 'any')]
SPECIAL_PLAIN_CTX = ["{{'a': {L}}}", '[{L}]', '[1, {L}]', "{{'a': {L}, 'b': 1}}", "{{'b': 'va', 'a': {L}}}", "{{'a': [{L}, {{'b': {L}}}]}}", "{{'a': {{'b': {L}}}}}", '[[{L}], {L}]',
                     "{{0: {L}, 'x.y': [{L}]}}"]
SPECIAL_DIRECT_CTX = ["pg.Dict({{'a': {L}}})", "pg.Dict({{'a': {L}, 'b': 1}})", 'A({L})', 'A(1, {L})', 'B({L}, 1)', 'B.partial({L})', "[A({L}), {{'k': pg.Dict({{'a': {L}}})}}]"]
SPECIAL_ANY_CTX = ['pg.List([{L}])', 'pg.List([1, {L}])', "pg.Dict({{'a': [{L}, {{'b': {L}}}]}})", 'A([{L}])', "pg.Dict({{'r': A({L}, {{'k': {L}}})}})", "pg.List([[{L}], {L}])"]
# Partially bound objects / dicts, at the root and below every kind of container.
PARTIALS = ['B.partial()', 'B.partial(1)', 'B.partial(q=2)', "B.partial(p=[1, {'k': 'va'}])", 'B.partial(p=B.partial())', 'B.partial(p=[B.partial(q=1)])', 'B(B.partial(), 3)',
            'PD()', 'PD(a=1)', "PD(b={'c': [1]})", 'B.partial(PD())']
PARTIAL_CTX = ['{P}', "{{'a': {P}}}", '[1, {P}]', "pg.Dict({{'a': {P}, 'b': 1}})", 'pg.List([{P}, 1])', 'A({P})', "A(1, [{P}])", "{{'a': [{P}, {{'x.y': {P}}}]}}",
               '[(s := {P}), s]', "pg.Dict({{'a': (s := {P}), 'b': [s]}})"]


def _special_exprs():
  out = []
  for leaf, flavour, where in SPECIAL_LEAVES:
    ctxs = SPECIAL_PLAIN_CTX + (SPECIAL_DIRECT_CTX if where in ('direct', 'any') else []) + (SPECIAL_ANY_CTX if where == 'any' else [])
    for ctx in ctxs:
      out.append((ctx.format(L=leaf), flavour))
  for part in PARTIALS:
    for ctx in PARTIAL_CTX:
      if 'PD(' in part and ctx == 'A({P})':
        continue        # (a field that does not accept partial dicts: construction, not addressing.)
      out.append((ctx.format(P=part), 'partial-dict' if 'PD(' in part else 'partial-obj'))
  return out


# Flavours of values without symbolic parts (by construction of the expression).
def _is_plain_expr(expr):
  return not re.search(r'pg\.(Dict|List)|\b(A|B|PD)\b', expr)


# Values in which the very same container object sits at several places (a DAG,
# never a cycle).  Every place is a node of its own, with its own path.  The
# expressions bind the shared object with ':=' so that they stay evaluable
# source text for the model and for the witnesses.
SHARED_PLAIN = ["[1, {'k': 2}]", "{'k': [1, 2]}", '[]', '{}', '[[1]]', "{'x.y': {'0': 1}}", "['va']", "{'a': None}"]
SHARED_SYM = ["pg.Dict({'k': [1, 2]})", "pg.List([1, {'k': 2}])", 'A(1, [2])', 'pg.Dict()', "A({'x.y': 1})"]
SHARED_CTX = ['[{S}, {s}]', '[{S}, 0, {s}]', "{{'a': {S}, 'b': {s}}}", "{{'a': {S}, 'b': {{'c': {s}, 'd': 3}}}}",
              '[{S}, [{s}]]', '[[{S}], {s}]', "{{'a': {{'b': {S}}}, 'c': {s}}}", '[{S}, {s}, {s}]', '[(t := [{S}, {s}]), t]',
              "{{'a': {{'x.y': {S}}}, '[0]': [0, {s}]}}", "[(t := {{'p': {S}}}), {{'q': t, 'r': {s}}}]",
              "{{'a': {S}, 'b': [1, {{'k': 2}}], 'c': {s}}}"]
SHARED_SYM_CTX = ["pg.Dict({{'a': {S}, 'b': {s}}})", 'pg.List([{S}, {s}, [{s}]])', 'A({S}, {s})', 'A([{S}], {{"k": {s}}})',
                  "pg.Dict({{'a': {S}, 'b': pg.Dict({{'c': {s}}})}})"]


def _drop_unused_bindings(expr, used):
  import ast

  class T(ast.NodeTransformer):
    def visit_NamedExpr(self, node):
      self.generic_visit(node)
      return node if node.target.id in used else node.value
  return ast.unparse(T().visit(ast.parse(expr, mode='eval')))


def _shared_exprs(r, nrand):
  out = []
  for sh in SHARED_PLAIN:
    for ctx in SHARED_CTX:
      out.append((ctx.format(S=f'(s := {sh})', s='s'), 'shared-plain'))
    for ctx in SHARED_SYM_CTX:
      out.append((ctx.format(S=f'(s := {sh})', s='s'), 'shared-plain-below-sym'))
  for sh in SHARED_SYM:
    for ctx in SHARED_CTX:
      out.append((ctx.format(S=f'(s := {sh})', s='s'), 'shared-sym-below-plain'))
    for ctx in SHARED_SYM_CTX[:3]:
      out.append((ctx.format(S=f'(s := {sh})', s='s'), 'shared-sym-below-sym'))

  # seeded random DAGs: a sub-value that is complete may be referenced again
  # anywhere to its right (never below itself).
  def rand(depth, names, sym_ok, root=False):
    if not root:
      if names and r.random() < 0.3:
        return r.choice(names)
      if depth <= 0 or r.random() < 0.2:
        return r.choice(LEAVES)
    k = r.randrange(4 if sym_ok else 2)
    if k == 0:
      ks = r.sample(DKEYS, r.randrange(1, 4))
      e = '{' + ', '.join(f'{x!r}: {rand(depth - 1, names, sym_ok)}' for x in ks) + '}'
    elif k == 1:
      e = '[' + ', '.join(rand(depth - 1, names, sym_ok) for _ in range(r.randrange(1, 4))) + ']'
    elif k == 2:
      ks = r.sample(DKEYS + [0, 5, -1], r.randrange(1, 3))
      e = 'pg.Dict({' + ', '.join(f'{x!r}: {rand(depth - 1, names, sym_ok)}' for x in ks) + '})'
    else:
      e = f'A({rand(depth - 1, names, sym_ok)}, {rand(depth - 1, names, sym_ok)})'
    if not root and r.random() < 0.6:
      nm = f's{len(names)}'
      e = f'({nm} := {e})'
      names.append(nm)
    return e

  n = 0
  tries = 0
  while n < nrand and tries < nrand * 50:
    tries += 1
    names = []
    sym_ok = tries % 2 == 0
    e = rand(r.randrange(2, 5), names, sym_ok, root=True)
    used = [nm for nm in names if len(re.findall(r'\b%s\b' % nm, e)) > 1]
    if len(e) > 400 or not used:
      continue
    e = _drop_unused_bindings(e, used)
    if sum(1 for _ in _mwalk(_model_eval(e))) > 150:
      continue
    n += 1
    out.append((e, 'shared-mixed' if 'pg.' in e or 'A(' in e else 'shared-plain'))
  return out


def _node_kind(v):
  if isinstance(v, pg.Dict):
    return 'sym-dict'
  if isinstance(v, pg.List):
    return 'sym-list'
  if isinstance(v, pg.Object):
    return 'obj'
  if isinstance(v, dict):
    return 'plain-dict'
  if isinstance(v, list):
    return 'plain-list'
  if isinstance(v, str):
    return 'leaf-str'
  if isinstance(v, tuple):
    return 'leaf-tuple'
  return 'leaf'


def _lookup(root, path):
  """Reference lookup on the real value by plain indexing (no KeyPath)."""
  v = root
  for k in path:
    if isinstance(v, pg.Symbolic):
      v = v.sym_getattr(k)
    else:
      v = v[k]
  return v


_SENTINEL = object()


# ---------------------------------------------------------------------------
# Driver 3: KeyPath.query / get / exists.
# ---------------------------------------------------------------------------

PROBES = ['a', 'zz', '0', 'x.y', '$', 0, 1, 2, 7, -1, -2, -3, -9]
PROBES_FEW = ['zz', '0', 1, 7, -1, -9]


def drv_query(tier, seed):
  vals = _value_exprs(tier, seed, 100 if tier == 'quick' else 2000)
  rec = Recorder('C10', 'KeyPath.query/get/exists (and Symbolic.sym_has/sym_get) on every node and on absent keys',
                 scope=f'{len(vals)} nested values (plain / symbolic / objects / dict+list subclasses / shared sub-objects; dict keys from {len(DKEYS)} tricky strings and ints); '
                       f'every node path + {len(PROBES)} probe keys below every node; {len(_special_exprs())} values whose nodes hold unusual values (MISSING_VALUE placeholders / unbound fields of '
                       'partial objects and dicts, falsy leaves, NaN, exceptions, objects with an unusual ==); get / sym_get with 5-7 kinds of default; sym_has / sym_get on symbolic roots')
  chk = _Chk(rec)
  ns = _real_ns()
  special = set(f for _, f, _ in SPECIAL_LEAVES) | {'partial-obj', 'partial-dict'}
  eq_all = EqAll()  # pylint: disable=undefined-variable
  # defaults an implementation might use as its own "not found" marker, or compare with ==.
  dflts = [('missing-value', pg.MISSING_VALUE, 'pg.MISSING_VALUE'), ('none', None, 'None'), ('eq-always-true', eq_all, 'EqAll()'),
           ('false', False, 'False'), ('key-error', KeyError, 'KeyError')]
  def one(expr, flavour, full):
    root = eval(expr, dict(ns))  # pylint: disable=eval-used
    model = _model_eval(expr)
    sym_root = isinstance(root, pg.Symbolic)
    inferred_too = full and flavour not in special     # (the form looked up does not depend on the values of leaves.)
    for path, mnode, _ in _mwalk(model):
      node = _lookup(root, path)
      lp = list(path)
      p = KP(lp)
      # (a node that holds an unusual value is classified by that value: the keys to it are ordinary.)
      cls = (_leaf_class(mnode) if flavour in special else None) or _seqclass(path)
      w0 = _pre(expr) + f'root = {expr}\np = pg.KeyPath({lp!r})\n'
      g = _out(p.query, root)
      chk(f'query.node/{cls}', (expr, path), g[0] == 'ok' and g[1] is node and _same_node(node, mnode), lambda: f'query -> {g}',
          lambda: w0 + 'p.query(root)')
      g = _out(KP.parse(str(p)).query, root) if True else None
      chk(f'query.node-via-printed-path/{cls}', (expr, path), g[0] == 'ok' and g[1] is node, lambda: f'parse(str(p)).query -> {g}',
          lambda: w0 + 'pg.KeyPath.parse(str(p)).query(root)')
      oke = chk(f'exists.node/{cls}', (expr, path), _out(p.exists, root) == ('ok', True), 'exists -> not True', lambda: w0 + 'assert p.exists(root) is True')
      g = _out(p.get, root, _SENTINEL)
      okg = chk(f'get.node/{cls}', (expr, path), g[0] == 'ok' and g[1] is node, lambda: f'get -> {g}', lambda: w0 + 'assert p.get(root, "dflt") is not "dflt"')
      # whatever the default is (also one that equals the node): a node that is there is returned itself.
      if okg and full:
        dd = dflts + ([('equal-to-the-node', type(node)(node), 'type(p.query(root))(p.query(root))')] if type(node) in (list, dict) else [])
        for dn, dv, dsrc in dd:
          g = _out(p.get, root, dv) if dn != 'none' else _out(p.get, root)
          chk(f'get.node/default={dn}', (expr, path), g[0] == 'ok' and g[1] is node, lambda: f'get(root, {dsrc}) -> {g}, want the node {node!r}',
              lambda: _pre(expr + dsrc) + f'root = {expr}\np = pg.KeyPath({lp!r})\nassert p.get(root, {dsrc}) is p.query(root)')
      # `use_inferred` selects the form of inferential nodes: a value without such nodes has one form only,
      # whichever entry point is used and whether or not a default is given.
      if okg and inferred_too:
        gi = [_out(p.query, root, True), _out(p.get, root, _SENTINEL, True), _out(lambda: p.get(root, use_inferred=True)), _out(lambda: p.get(root, default_value=pg.MISSING_VALUE, use_inferred=True))]
        if sym_root:
          gi += [_out(lambda: root.sym_get(p, use_inferred=True)), _out(lambda: root.sym_get(p, _SENTINEL, use_inferred=True)), _out(lambda: root.sym_get(str(p), None, True))]
        chk('lookup.use_inferred=True/value-without-inferential-nodes/node', (expr, path), all(g[0] == 'ok' and g[1] is node for g in gi),
            lambda: f'query(root, True), get(root, dflt, True), get(root, use_inferred=True), get(root, MISSING_VALUE, True)[, sym_get(p, use_inferred=True), sym_get(p, dflt, use_inferred=True), sym_get(str, None, True)] -> {gi}; want the node {node!r}',
            lambda: w0 + 'assert p.query(root, True) is p.query(root) and p.get(root, "dflt", True) is p.query(root) and p.get(root, use_inferred=True) is p.query(root)'
            + ('\nassert root.sym_get(p, use_inferred=True) is p.query(root) and root.sym_get(p, "dflt", use_inferred=True) is p.query(root)' if sym_root else ''))
      # the symbolic root offers the same lookups as methods (checked where the KeyPath methods
      # are right: a defect of those is reported once).
      if sym_root and oke and okg:
        g1, g2, g3, g4 = _out(root.sym_has, p), _out(root.sym_get, p), _out(root.sym_get, str(p), pg.MISSING_VALUE), _out(root.sym_has, str(p))
        chk(f'sym_has-sym_get.node/{cls}', (expr, path), g1 == ('ok', True) and g4 == ('ok', True) and g2[0] == 'ok' and g2[1] is node and g3[0] == 'ok' and g3[1] is node,
            lambda: f'sym_has -> {g1}, sym_has(str) -> {g4}, sym_get -> {g2}, sym_get(str, MISSING_VALUE) -> {g3}; want True / the node {node!r}',
            lambda: w0 + 'assert root.sym_has(p) and root.sym_has(str(p)) and root.sym_get(p) is p.query(root) and root.sym_get(str(p), pg.MISSING_VALUE) is p.query(root)')
      # probes below this node.
      kind = _node_kind(node)
      ch = _mchildren(mnode)
      # (absent keys below ordinary nodes are covered by the ordinary values.)
      for k in (PROBES if not (flavour.startswith('shared') or flavour in special) else PROBES_FEW if flavour not in special or _leaf_class(mnode) else ('zz', 7)):
        present = None
        if ch is not None and isinstance(mnode, dict):
          present = any(_tk([k]) == _tk([c]) for c, _ in ch)
        elif ch is not None and isinstance(mnode, list):
          present = isinstance(k, int) and -len(mnode) <= k < len(mnode)
        elif ch is not None:
          present = any(k == c for c, _ in ch)
        else:
          if isinstance(k, int) and isinstance(mnode, (str, tuple)):
            continue # indexing into a str/tuple leaf: not specified.
          present = False
        if present and not (isinstance(mnode, list) and k < 0):
          continue   # a real child: covered by the node checks.
        q = KP(lp + [k])
        w = _pre(expr) + f'root = {expr}\np = pg.KeyPath({lp + [k]!r})\n'
        kc = 'int<0' if isinstance(k, int) and k < 0 else type(k).__name__
        if present:    # in-range negative index addresses an element, python style.
          g = _out(q.query, root)
          want = _lookup(root, path + (k,))
          chk(f'query.present/{kind}/{kc}', (expr, path, k), g[0] == 'ok' and g[1] is want and _out(q.exists, root) == ('ok', True),
              lambda: f'query -> {g}', lambda: w + 'assert p.exists(root); p.query(root)')
          continue
        g1, g2, g3 = _out(q.exists, root), _out(q.get, root, _SENTINEL), _out(q.query, root)
        chk(f'query.absent/{kind}/{kc}', (expr, path, k),
            g1 == ('ok', False) and g2[0] == 'ok' and g2[1] is _SENTINEL and g3 == ('exc', 'KeyError'),
            lambda: f'exists -> {g1}; get(default) -> {g2 if g2[0] == "exc" else ("default" if g2[1] is _SENTINEL else g2[1])}; query -> {g3 if g3[0] == "exc" else ("ok", g3[1])} (want False / default / KeyError)',
            lambda: w + 'assert p.exists(root) is False\nassert p.get(root, "dflt") == "dflt"\ntry:\n  p.query(root)\n  raise AssertionError("no KeyError")\nexcept KeyError:\n  pass')
        if inferred_too and k == 'zz':
          gi = [_out(q.query, root, True), _out(q.get, root, _SENTINEL, True), _out(lambda: q.get(root, use_inferred=True))] + ([_out(lambda: root.sym_get(q, _SENTINEL, use_inferred=True)), _out(lambda: root.sym_get(q, use_inferred=True))] if sym_root else [])
          chk('lookup.use_inferred=True/value-without-inferential-nodes/absent', (expr, path, k),
              gi[0] == ('exc', 'KeyError') and gi[1][0] == 'ok' and gi[1][1] is _SENTINEL and gi[2] == ('ok', None) and (not sym_root or (gi[3][0] == 'ok' and gi[3][1] is _SENTINEL and gi[4] == ('exc', 'KeyError'))),
              lambda: f'query(root, True), get(root, dflt, True), get(root, use_inferred=True)[, sym_get(p, dflt, use_inferred=True), sym_get(p, use_inferred=True)] -> {gi[:1] + ["default" if g[0] == "ok" and g[1] is _SENTINEL else g for g in gi[1:]]}; want KeyError, default, None[, default, KeyError]',
              lambda: w + 'assert p.get(root, "dflt", True) == "dflt" and p.get(root, use_inferred=True) is None\ntry:\n  p.query(root, True)\n  raise AssertionError("no KeyError")\nexcept KeyError:\n  pass')
        if k in ('zz', 7):
          # an absent address yields the very default, whatever the default is.
          for dn, dv, dsrc in (dflts if full and k == 'zz' else ()):
            g = _out(q.get, root, dv) if dn != 'none' else _out(q.get, root)
            chk(f'get.absent/default={dn}', (expr, path, k), g[0] == 'ok' and g[1] is dv, lambda: f'get(root, {dsrc}) -> {g}, want the default',
                lambda: _pre(expr + dsrc) + f'root = {expr}\np = pg.KeyPath({lp + [k]!r})\nd = {dsrc}\nassert p.get(root, d) is d')
          if sym_root and full and k == 'zz':
            for dn, dv, dsrc in dflts + [('missing-value-tuple', (pg.MISSING_VALUE,), '(pg.MISSING_VALUE,)')]:
              if dn != 'none':
                g = _out(root.sym_get, q, dv)
                chk(f'sym_get.absent/default={dn}', (expr, path, k), g[0] == 'ok' and g[1] is dv, lambda: f'sym_get(path, {dsrc}) -> {g}, want the default',
                    lambda: _pre(expr + dsrc) + f'root = {expr}\np = pg.KeyPath({lp + [k]!r})\nd = {dsrc}\nassert root.sym_get(p, d) is d')
          if sym_root and (full or k == 'zz'):
            g1, g2, g3 = _out(root.sym_has, q), _out(root.sym_get, q, _SENTINEL), _out(root.sym_get, q)
            chk(f'sym_has-sym_get.absent/{kind}/{kc}', (expr, path, k), g1 == ('ok', False) and g2[0] == 'ok' and g2[1] is _SENTINEL and g3 == ('exc', 'KeyError'),
                lambda: f'sym_has -> {g1}; sym_get(default) -> {g2 if g2[0] == "exc" else ("default" if g2[1] is _SENTINEL else g2[1])}; sym_get -> {g3} (want False / default / KeyError)',
                lambda: w + 'assert root.sym_has(p) is False\nassert root.sym_get(p, "dflt") == "dflt"\ntry:\n  root.sym_get(p)\n  raise AssertionError("no KeyError")\nexcept KeyError:\n  pass')

  for vi, (expr, flavour) in enumerate(vals):
    try:
      # (the default kinds: on every value with unusual leaves, on every third of the others.)
      one(expr, flavour, flavour in special or vi % 3 == 0)
    except Exception as e:  # pylint: disable=broad-except
      rec.case('unexpected-exception', expr, False, f'{type(e).__name__}: {e}', _pre(expr) + f'root = {expr}\nraise AssertionError({str(e)!r})')

  # plain dicts keyed by ints (a dict is addressed by its keys, whatever their type).
  for expr, path in [("{5: 'x'}", (5,)), ("{0: 'x', 1: 'y'}", (1,)), ("{'a': {2: 'x'}}", ('a', 2)), ("{-1: 'x'}", (-1,)), ("{1: 'x'}", (1,))]:
    root = eval(expr)  # pylint: disable=eval-used
    p = KP(list(path))
    g = _out(p.query, root)
    want_ = root
    for k_ in path:
      want_ = want_[k_]
    chk('query.node/plain-dict-int-key', (expr, path), g == ('ok', want_) and _out(p.exists, root) == ('ok', True), lambda: f'query -> {g}',
        f'import pyglove as pg; assert pg.KeyPath({list(path)!r}).query({expr}) == "x"')
  return rec.result()


# ---------------------------------------------------------------------------
# Driver 3b: the options of a lookup (use_inferred x default x entry point) on
# values that hold inferential nodes (pg.Ref, ValueFromParentChain).
#
# A lookup is made through KeyPath.query(src, use_inferred), KeyPath.get(src,
# default, use_inferred), Symbolic.sym_get(path[, default][, use_inferred]),
# KeyPath.exists / Symbolic.sym_has.  `use_inferred` selects what a node that
# holds an inferential value stands for: itself (its symbolic form, the
# default) or the value it infers to, on the way and at the end of the path.
# Whether a default is supplied selects nothing but the answer for an absent
# path: for one and the same path and one and the same `use_inferred`, all
# entry points return the same node.
#
# Model: `pg.Ref(t)` is, in inferred form, the target t itself (by
# construction) and a leaf in symbolic form; `VPC()` stored under key k is, in
# inferred form, the value under k of the nearest proper ancestor of its
# container that has k, and a leaf in symbolic form.
# ---------------------------------------------------------------------------

class _MRef:
  def __init__(self, target):
    self.target = target


class _MVpc:
  pass


class _ModelPgI(_ModelPg):
  Ref = _MRef


IPRE = 'VPC = pg.symbolic.ValueFromParentChain\n'

REF_TARGETS = ["A(1, [2, {'k': 3}])", "pg.Dict({'k': [1, 2], 'y': 'va'})", "pg.List([1, {'k': 2}])", "A({'x.y': 0})", "[1, {'k': 2}]"]
# ({R}: the first reference `pg.Ref(t := <target>)`, {r}: a further reference to the same target.)
REF_CTX = [("pg.Dict({{'r': {R}}})", 'dict-value'), ("pg.Dict({{'a': {{'x.y': {R}}}, 'b': 1}})", 'dict-value'), ("pg.Dict({{'r': {R}, 's': {r}}})", 'dict-value'),
           ('pg.List([{R}])', 'list-slot'), ('pg.List([0, [{R}]])', 'list-slot'), ("pg.Dict({{'items': [{R}, {r}]}})", 'list-slot'),
           ('A({R})', 'object-field'), ('A(1, {R})', 'object-field'), ('A(A({R}))', 'object-field'),
           ("A([{R}], {{'k': {r}}})", 'mixed'), ("pg.Dict({{'r': {R}, 'l': [{r}]}})", 'mixed'),
           # a reference to an object that itself holds a reference.
           ("pg.Dict({{'r': pg.Ref(A({R}, 2))}})", 'dict-value'), ("pg.List([pg.Ref(A(1, [{R}]))])", 'list-slot')]
# (a reference to a node of the same tree is refused by pg.Ref on construction: not generated.)
# (below plain containers nothing is inferred -- `use_inferred` is about symbolic values: agreement of the entry points only.)
REF_PLAIN_CTX = ["{{'r': {R}}}", '[0, {R}]', "{{'a': [{R}], 'b': {r}}}"]

VPC_VALUES = ['5', '0', "'va'", "{'k': [1, 2]}", 'A(1)']
VPC_CTX = [("pg.Dict({{'y': {V}, 'x': {{'y': VPC()}}}})", 'dict-value'), ("pg.Dict({{'y': {V}, 'x': [{{'y': VPC()}}]}})", 'dict-value'),
           ("pg.Dict({{'y': {V}, 'm': {{'n': {{'y': VPC()}}}}}})", 'dict-value'), ("pg.Dict({{'y': 1, 'm': {{'y': {V}, 'n': {{'y': VPC()}}}}}})", 'dict-value'),
           ("pg.Dict({{'k': 0, 'x': {{'y': VPC(), 'k': VPC()}}, 'y': {V}}})", 'dict-value'),
           ("A({{'y': VPC()}}, {V})", 'dict-value'), ("A([A(1, VPC())], {V})", 'object-field'), ("pg.Dict({{'y': {V}, 'o': A(2, VPC())}})", 'object-field'),
           ('pg.List([{V}, [VPC()]])', 'list-slot'), ("A([0, [VPC()]], {V})", 'list-slot')]


def _inferential_exprs():
  """(expr, kind of inferential, where it is held, model applies)."""
  out = []
  for t in REF_TARGETS:
    first = f'pg.Ref(t := {t})'
    for ctx, where in REF_CTX:
      out.append((ctx.format(R=first, r='pg.Ref(t)'), 'ref', where, True))
    for ctx in REF_PLAIN_CTX:
      out.append((ctx.format(R=first, r='pg.Ref(t)'), 'ref', 'plain-container', False))
  for v in VPC_VALUES:
    for ctx, where in VPC_CTX:
      out.append((ctx.format(V=v), 'parent-chain', where, True))
  # both kinds in one value.
  out.append(("pg.Dict({'y': pg.Ref(t := A(1, [2])), 'x': {'y': VPC()}})", 'parent-chain', 'dict-value', True))
  out.append(("pg.Dict({'y': 5, 'x': {'y': VPC(), 'r': pg.Ref(t := A(1, [2]))}})", 'ref', 'dict-value', True))
  return out


def _model_eval_i(expr):
  ns = {'pg': _ModelPgI, 'A': _MObj, 'VPC': _MVpc}
  return eval(expr, ns), ns  # pylint: disable=eval-used


def _below(how):
  return how if how == 'ordinary' or how.startswith('below-') else 'below-' + how


def _mresolve(c, k, chain):
  """Inferred form of child model c stored under key k; chain: the proper ancestors of its container (nearest last)."""
  if isinstance(c, _MRef):
    return _mresolve(c.target, None, ())[0], 'ref'
  if isinstance(c, _MVpc):
    for a in reversed(chain):
      ch = _mchildren(a)
      if isinstance(a, list):
        if isinstance(k, int) and -len(a) <= k < len(a):
          return _mresolve(a[k], None, ())[0], 'parent-chain'
      elif isinstance(k, str):
        for ck, cv in ch:
          if ck == k:
            return _mresolve(cv, None, ())[0], 'parent-chain'
    raise ValueError('generator error: unresolvable VPC')
  return c, None


def _miwalk(v, path=(), chain=(), how='ordinary'):
  """Preorder (path, node model, how the path gets there) of the inferred form."""
  yield path, v, how
  ch = _mchildren(v)
  if ch:
    for k, c in ch:
      rc, h = _mresolve(c, k, chain)
      # (inside a referenced / inferred value the chain is that value's own: the generator
      # puts no parent-chain values there.)
      yield from _miwalk(rc, path + (k,), () if h else chain + (v,), h or _below(how))


def _lookup_inferred(root, path):
  """Reference lookup of the inferred form by plain stepwise access (no KeyPath)."""
  v = root
  for k in path:
    if isinstance(v, pg.Symbolic):
      v = v.sym_getattr(k)
      if isinstance(v, pg.symbolic.Inferential):
        v = v.infer()
    else:
      v = v[k]
  return v


def _same_node_i(real, model):
  if isinstance(model, _MRef):
    return isinstance(real, pg.Ref)
  if isinstance(model, _MVpc):
    return isinstance(real, pg.symbolic.ValueFromParentChain)
  return _same_node(real, model) and not isinstance(real, pg.symbolic.Inferential)


def _held_in(model, path):
  """Kind of the container that holds the first inferential node met along path (symbolic form), or None."""
  v = model
  for k in path:
    ch = _mchildren(v)
    c = dict((( type(ck).__name__, ck), cv) for ck, cv in ch or ()).get((type(k).__name__, k), _SENTINEL)
    if c is _SENTINEL:
      return 'unknown'
    if isinstance(c, (_MRef, _MVpc)):
      return 'list-slot' if isinstance(v, list) else 'dict-value' if isinstance(v, dict) else 'object-field'
    v = c
  return None


def drv_lookup_options(tier, seed):
  vals = _inferential_exprs()
  rec = Recorder('C10', 'lookup options: KeyPath.query/get, Symbolic.sym_get with use_inferred x default, on values that hold inferential nodes; traversal of such values',
                 scope=f'{len(vals)} values holding pg.Ref / ValueFromParentChain nodes as dict values, list slots, object fields (targets: objects, pg.Dict, pg.List, plain lists; '
                       'several references to one target, references through references); every node path of the symbolic and of the inferred form, '
                       'absent keys below every node; use_inferred in {default, False, True} x default in {none, omitted, sentinel, None, MISSING_VALUE} x positional / keyword forms; '
                       'pg.traverse / pg.query report the nodes of the symbolic form')
  del tier, seed
  chk = _Chk(rec)
  ns0 = _real_ns()
  exec(IPRE, ns0)  # pylint: disable=exec-used
  S = _SENTINEL
  ENTER = pg.TraverseAction.ENTER

  def agree(tag, key, p, root, u, w, light=False):
    """get(default) is query, but for an absent path the default: whatever the path and the form looked up."""
    q = _out(p.query, root, u)
    okg = True
    for dn, g in (('sentinel', _out(p.get, root, S, u)), ('keyword', _out(lambda: p.get(root, default_value=S, use_inferred=u))),
                  ('missing-value', _out(p.get, root, pg.MISSING_VALUE, u)), ('omitted', _out(lambda: p.get(root, use_inferred=u))))[:1 if light else 4]:
      dv = {'missing-value': pg.MISSING_VALUE, 'omitted': None}.get(dn, S)
      if q[0] == 'ok':
        ok = g[0] == 'ok' and g[1] is q[1]
      elif q == ('exc', 'KeyError'):
        ok = g[0] == 'ok' and g[1] is dv
      else:
        continue      # (a lookup that fails for another reason: nothing stated about the default.)
      okg = chk(f'get-agrees-with-query.use_inferred={u}/{tag}', key + (dn,), ok,
          lambda: f'query(root, {u}) -> {q}; get(root, <{dn} default>, {u}) -> {g if g[0] == "exc" else ("default" if g[1] is dv and q[0] != "ok" else repr(g[1]))}',
          lambda: w + 'try:\n  want = p.query(root, %s)\nexcept KeyError:\n  want = "dflt"\nassert p.get(root, "dflt", %s) is want' % (u, u)) and okg
    # (sym_get with a default is KeyPath.get: a defect of that is reported once.)
    if isinstance(root, pg.Symbolic):
      for fn, form in ((lambda: root.sym_get(p, S, use_inferred=u), 'sym_get(path, default, use_inferred=)'), (lambda: root.sym_get(str(p), S, u), 'sym_get(str, default, positional)'))[:0 if not okg else 1 if light else 2]:
        g = _out(fn)
        ok = (g[0] == 'ok' and g[1] is q[1]) if q[0] == 'ok' else (g[0] == 'ok' and g[1] is S) if q == ('exc', 'KeyError') else True
        chk(f'sym_get-default-agrees-with-query.use_inferred={u}/{tag}', key + (form,), ok, lambda: f'query(root, {u}) -> {q}; {form} -> {g if g[0] == "exc" else ("default" if g[1] is S else repr(g[1]))}',
            lambda: w + 'try:\n  want = p.query(root, %s)\nexcept KeyError:\n  want = "dflt"\nassert root.sym_get(p, "dflt", use_inferred=%s) is want' % (u, u))
      g = _out(lambda: root.sym_get(p, use_inferred=u)) if not light else q
      chk(f'sym_get-agrees-with-query.use_inferred={u}/{tag}', key, (g[0] == 'ok' and g[1] is q[1]) if q[0] == 'ok' else g == q, lambda: f'query(root, {u}) -> {q}; sym_get(path, use_inferred={u}) -> {g}',
          lambda: w + 'try:\n  want = p.query(root, %s)\nexcept KeyError:\n  want = KeyError\ntry:\n  got = root.sym_get(p, use_inferred=%s)\nexcept KeyError:\n  got = KeyError\nassert got is want' % (u, u))

  def one(expr, kind, where, modelled):
    ns = dict(ns0)
    root = eval(expr, ns)  # pylint: disable=eval-used
    model, mns = _model_eval_i(expr)
    sym_root = isinstance(root, pg.Symbolic)
    w0 = _pre(expr) + IPRE + f'root = {expr}\n'
    wp = lambda lp: w0 + f'p = pg.KeyPath({lp!r})\n'
    sym_nodes = list(_mwalk(model))
    sym_paths = set(_tk(p) for p, _, _ in sym_nodes)
    # ---- symbolic form (the default, and use_inferred=False spelled out): an inferential node is a node like any other.
    for path, mnode, _ in sym_nodes:
      lp = list(path)
      p = KP(lp)
      cls = kind if isinstance(mnode, (_MRef, _MVpc)) else 'ordinary'
      want = _lookup(root, path)
      g0, g1, g2 = _out(p.query, root), _out(p.query, root, False), _out(lambda: p.query(root, use_inferred=False))
      chk(f'query.symbolic-form/{cls}-node', (expr, path), all(g[0] == 'ok' and g[1] is want for g in (g0, g1, g2)) and _same_node_i(want, mnode),
          lambda: f'query(root) -> {g0}; query(root, False) -> {g1}; want the node itself: {want!r}', lambda: wp(lp) + 'v = root\nfor k in p.keys:\n  v = v.sym_getattr(k) if isinstance(v, pg.Symbolic) else v[k]\nassert p.query(root) is v and p.query(root, False) is v')
      chk(f'exists.symbolic-form/{cls}-node', (expr, path), _out(p.exists, root) == ('ok', True) and (not sym_root or _out(root.sym_has, p) == ('ok', True)), 'exists / sym_has -> not True',
          lambda: wp(lp) + 'assert p.exists(root) is True')
      agree(f'{cls}-node', (expr, path), p, root, False, wp(lp))
      if sym_root:
        g = _out(root.sym_get, p, S)      # (use_inferred left out.)
        chk(f'sym_get-default.symbolic-form/{cls}-node', (expr, path), g[0] == 'ok' and g[1] is want, lambda: f'sym_get(path, default) -> {g}', lambda: wp(lp) + 'assert root.sym_get(p, "dflt") is p.query(root)')
      if not (isinstance(mnode, dict) and 'zz' in mnode):
        agree('absent', (expr, path, 'zz'), KP(lp + ['zz']), root, False, wp(lp + ['zz']), light=True)
    if not modelled:
      # below plain containers: the entry points agree, whatever is (not) inferred there.
      for path, _, _ in sym_nodes:
        for tail in ((), ('k',), (0,), ('x',), (1, 'k'), ('zz',)):
          lp = list(path + tail)
          agree('below-plain-container', (expr, path + tail), KP(lp), root, True, wp(lp), light=True)
      return
    # ---- inferred form.
    inf_nodes = list(_miwalk(model))
    for path, mnode, how in inf_nodes:
      lp = list(path)
      p = KP(lp)
      want = _lookup_inferred(root, path)
      okw = _same_node_i(want, mnode) and not (how == 'ref' and 't' in mns and mnode is mns['t'] and want is not ns['t'])
      g1, g2 = _out(p.query, root, True), _out(lambda: p.query(root, use_inferred=True))
      okq = chk(f'query.inferred-form/{how}', (expr, path), okw and all(g[0] == 'ok' and g[1] is want for g in (g1, g2)),
                lambda: f'query(root, True) -> {g1}; want {want!r}' + ('' if okw else ' (reference lookup disagrees with the model: harness)'),
                lambda: wp(lp) + 'v = root\nfor k in p.keys:\n  v = v.sym_inferred(k) if isinstance(v, pg.Symbolic) else v[k]\nassert p.query(root, use_inferred=True) is v')
      if not okq:
        continue
      agree(how, (expr, path), p, root, True, wp(lp))
      # a path that exists in the inferred form only: the symbolic-form lookups agree with one another on it.
      if _tk(path) not in sym_paths:
        agree(f'{how}/path-of-the-inferred-form-only', (expr, path), p, root, False, wp(lp))
      # absent keys below the node.
      ch = _mchildren(mnode)
      for k in ('zz', 7):
        if ch is not None and (any(_tk([k]) == _tk([c]) for c, _ in ch) if not isinstance(mnode, list) else isinstance(k, int) and k < len(mnode)):
          continue
        if isinstance(k, int) and isinstance(mnode, (str, tuple)):
          continue
        q = KP(lp + [k])
        g = _out(q.query, root, True)
        chk('query.inferred-form/absent', (expr, path, k), g == ('exc', 'KeyError'), lambda: f'query(root, True) -> {g}, want KeyError',
            lambda: wp(lp + [k]) + 'try:\n  p.query(root, True)\n  raise AssertionError("no KeyError")\nexcept KeyError:\n  pass')
        if g == ('exc', 'KeyError'):
          agree('absent', (expr, path, k), q, root, True, wp(lp + [k]), light=k != 'zz')
    # ---- traversal: the nodes of a value are those of its symbolic form (what the default lookup addresses),
    # whatever kind of container holds an inferential node.
    pre = []
    g = _out(pg.traverse, root, lambda k, v, p: (pre.append((k, v)), ENTER)[1])
    wantp = [_tk(p) for p, _, _ in sym_nodes]
    held = set(_held_in(model, p) for p, _, _ in sym_nodes) - {None}
    tw = 'list-slot' if 'list-slot' in held else where       # (one class per kind of holder: a list slot decides.)
    okn = all(q[0] == 'ok' and q[1] is v for q, v in ((_out(k.query, root), v) for k, v in pre))
    if not chk(f'pg.traverse.visits-the-nodes-of-the-symbolic-form/inferential-in-{tw}', expr, g == ('ok', True) and [_tk(k.keys) for k, _ in pre] == wantp and okn,
               lambda: f'visited {[(str(k), type(v).__name__) for k, v in pre]}, want the paths {[str(KP(list(p))) for p, _, _ in sym_nodes]}, each with the value that KeyPath.query(root) returns for it',
               lambda: w0 + 'log = []\npg.traverse(root, lambda k, v, p: (log.append(k.keys), None if k.query(root) is v else 1 / 0, pg.TraverseAction.ENTER)[-1])\n' + f'assert log == {[list(p) for p, _, _ in sym_nodes]!r}'):
      return      # (pg.query is built on pg.traverse: it would report the same defect again.)
    g = _out(pg.query, root, None, lambda v: True, True)
    okq = g[0] == 'ok' and list(g[1].keys()) == [str(KP(list(p))) for p, _, _ in sym_nodes] and all(_out(KP.parse(s).query, root)[1] is v for s, v in g[1].items())
    chk(f'pg.query.select-all/inferential-in-{tw}', expr, okq, lambda: f'{list(g[1]) if g[0] == "ok" else g}, want {[str(KP(list(p))) for p, _, _ in sym_nodes]}',
        lambda: w0 + f'res = pg.query(root, where=lambda v: True, enter_selected=True)\nassert list(res) == {[str(KP(list(p))) for p, _, _ in sym_nodes]!r}\nassert all(pg.KeyPath.parse(k).query(root) is v for k, v in res.items())')

  for expr, kind, where, modelled in vals:
    try:
      one(expr, kind, where, modelled)
    except Exception as e:  # pylint: disable=broad-except
      rec.case(f'unexpected-exception/inferential-{kind}', expr, False, f'{type(e).__name__}: {e}', _pre(expr) + IPRE + f'root = {expr}\nraise AssertionError({str(e)!r})')
  return rec.result()


# ---------------------------------------------------------------------------
# Driver 4: pg.traverse / pg.query / utils.traverse / rebind-by-function.
# ---------------------------------------------------------------------------

def drv_traverse(tier, seed):
  vals = _value_exprs(tier, seed, 500 if tier == 'quick' else 8000)
  rec = Recorder('C10', 'pg.traverse, utils.traverse, pg.query, rebind(fn): every node once, with its path',
                 scope=f'{len(vals)} nested values (trees and DAGs with the same container at several places); every node as STOP / CONTINUE point, '
                       'as path_regex and as where-parent of pg.query for values with <= 12 nodes; pg.contains, nested traversal, utils.transform(identity)')
  chk = _Chk(rec)
  ns = _real_ns()
  ENTER, STOP, CONT = pg.TraverseAction.ENTER, pg.TraverseAction.STOP, pg.TraverseAction.CONTINUE
  wtrav = ('log = []\nret = pg.traverse(root, lambda k, v, p: (log.append(k.keys), pg.TraverseAction.ENTER)[1])\n')
  def one(expr, kind):
    # (traversal does not look at leaves: the values with unusual leaves are one input class here.)
    flavour = 'unusual-leaves' if kind.startswith('leaf-') else 'partially-bound' if kind.startswith('partial-') else kind
    root = eval(expr, dict(ns))  # pylint: disable=eval-used
    model = _model_eval(expr)
    mpre = list(_mwalk(model))
    mpost = list(_mpost(model))
    w0 = _pre(expr) + f'root = {expr}\n'
    # --- pg.traverse: full walk.
    pre, post = [], []

    def f_pre(k, v, p):
      pre.append((k, v, p))
      return ENTER

    def f_post(k, v, p):
      post.append((k, v, p))
      return None      # None counts as ENTER

    g = _out(pg.traverse, root, f_pre, f_post)
    key = expr
    if not chk(f'pg.traverse.completes/{flavour}', key, g == ('ok', True), lambda: f'{g}', lambda: w0 + wtrav + 'assert ret is True'):
      return
    chk(f'pg.traverse.preorder-paths/{flavour}', key, [_tk(k.keys) for k, _, _ in pre] == [_tk(p) for p, _, _ in mpre],
        lambda: f'visited {[k.keys for k, _, _ in pre]!r}, want {[list(p) for p, _, _ in mpre]!r}',
        lambda: w0 + wtrav + f'assert log == {[list(p) for p, _, _ in mpre]!r}')
    chk(f'pg.traverse.postorder-paths/{flavour}', key, [_tk(k.keys) for k, _, _ in post] == [_tk(p) for p, _ in mpost],
        lambda: f'visited {[k.keys for k, _, _ in post]!r}, want {[list(p) for p, _ in mpost]!r}',
        lambda: w0 + 'log = []\npg.traverse(root, None, lambda k, v, p: (log.append(k.keys), pg.TraverseAction.ENTER)[1])\n' + f'assert log == {[list(p) for p, _ in mpost]!r}')
    ok_nodes = ok_parent = ok_query = ok_sympath = True
    places = {}     # id(symbolic node) -> the paths at which that very object sits.
    # (each visit is judged by the path it reports, whatever the other visits are.)
    mnode_at = {_tk(mp): mv for mp, mv, _ in mpre}
    for k, v, par in pre:
      if isinstance(v, pg.Symbolic):
        places.setdefault(id(v), set()).add(_tk(k.keys))
    for k, v, par in pre:
      mp = tuple(k.keys)
      want = _out(_lookup, root, mp)
      ok_nodes = ok_nodes and want[0] == 'ok' and v is want[1] and _tk(mp) in mnode_at and _same_node(v, mnode_at[_tk(mp)])
      wpar = _out(_lookup, root, mp[:-1])
      ok_parent = ok_parent and (par is None if not mp else (wpar[0] == 'ok' and par is wpar[1]))
      q1, q2 = _out(k.query, root), _out(lambda: KP.parse(str(k)).query(root))
      ok_query = ok_query and q1[0] == 'ok' and q1[1] is v and q2[0] == 'ok' and q2[1] is v
      if isinstance(v, pg.Symbolic) and isinstance(root, pg.Symbolic):
        # (an object that sits at several places cannot name them all: any one of them.)
        ok_sympath = ok_sympath and _tk(v.sym_path.keys) in places[id(v)]
    chk(f'pg.traverse.reports-the-node/{flavour}', key, ok_nodes, 'a visited value is not the node at its path',
        lambda: w0 + 'pg.traverse(root, lambda k, v, p: (None if k.query(root) is v else 1 / 0, pg.TraverseAction.ENTER)[1])')
    chk(f'pg.traverse.reports-the-parent/{flavour}', key, ok_parent, 'parent argument is not the parent node',
        lambda: w0 + 'pg.traverse(root, lambda k, v, p: (None if (p is None if not k else k.parent.query(root) is p) else 1 / 0, pg.TraverseAction.ENTER)[1])')
    chk(f'pg.traverse.path-looks-up-node/{flavour}', key, ok_query, 'path.query(root) is not the visited node',
        lambda: w0 + 'pg.traverse(root, lambda k, v, p: (None if pg.KeyPath.parse(str(k)).query(root) is v else 1 / 0, pg.TraverseAction.ENTER)[1])')
    chk(f'pg.traverse.sym_path-agrees/{flavour}', key, ok_sympath, 'sym_path of a visited symbolic node differs from the reported path',
        lambda: w0 + ('pg.traverse(root, lambda k, v, p: (None if not isinstance(v, pg.Symbolic) or v.sym_path == k else 1 / 0, pg.TraverseAction.ENTER)[1])'
                      if not flavour.startswith('shared') else
                      'at = {}\npg.traverse(root, lambda k, v, p: (at.setdefault(id(v), []).append(k), pg.TraverseAction.ENTER)[1])\n'
                      'pg.traverse(root, lambda k, v, p: (None if not isinstance(v, pg.Symbolic) or v.sym_path in at[id(v)] else 1 / 0, pg.TraverseAction.ENTER)[1])'))
    # root_path / parent arguments.
    pre2 = []
    g = _out(pg.traverse, root, lambda k, v, p: (pre2.append((k, p)), None)[1], None, KP(['r', 3]), 'PARENT')   # None counts as ENTER
    chk(f'pg.traverse.root_path/{flavour}', key, g == ('ok', True) and [_tk(k.keys) for k, _ in pre2] == [_tk(('r', 3) + p) for p, _, _ in mpre]
        and pre2[0][1] == 'PARENT', 'root_path/parent not honoured',
        lambda: w0 + 'log = []\npg.traverse(root, lambda k, v, p: (log.append(k.keys), pg.TraverseAction.ENTER)[1], root_path=pg.KeyPath(["r", 3]))\n' +
        f'assert log == {[["r", 3] + list(p) for p, _, _ in mpre]!r}')
    # --- CONTINUE / STOP at every node.
    if len(mpre) <= 12:
      for idx, (mp, _, _) in enumerate(mpre):
        seen = []
        g = _out(pg.traverse, root, lambda k, v, p: (seen.append(_tk(k.keys)), CONT if _tk(k.keys) == _tk(mp) else ENTER)[1])
        want = [_tk(p) for p, _, _ in mpre if not (len(p) > len(mp) and _tk(p[:len(mp)]) == _tk(mp))]
        chk(f'pg.traverse.continue-skips-exactly-the-subtree/{flavour}', (expr, mp), g == ('ok', True) and seen == want,
            lambda: f'ret {g}; visited {seen}, want {want}',
            lambda: w0 + f'log = []\nret = pg.traverse(root, lambda k, v, p: (log.append(k.keys), pg.TraverseAction.CONTINUE if k.keys == {list(mp)!r} else pg.TraverseAction.ENTER)[1])\n'
            + f'assert ret is True and log == {[[k for _, k in t] for t in want]!r}')
        seen = []
        g = _out(pg.traverse, root, lambda k, v, p: (seen.append(_tk(k.keys)), STOP if _tk(k.keys) == _tk(mp) else ENTER)[1])
        want = [_tk(p) for p, _, _ in mpre[:idx + 1]]
        chk(f'pg.traverse.stop-in-preorder/{flavour}', (expr, mp), g == ('ok', False) and seen == want,
            lambda: f'ret {g}; visited {seen}, want {want}',
            lambda: w0 + f'log = []\nret = pg.traverse(root, lambda k, v, p: (log.append(k.keys), pg.TraverseAction.STOP if k.keys == {list(mp)!r} else pg.TraverseAction.ENTER)[1])\n'
            + f'assert ret is False and log == {[[k for _, k in t] for t in want]!r}')
        seen = []
        pidx = [i for i, (p, _) in enumerate(mpost) if _tk(p) == _tk(mp)][0]
        g = _out(pg.traverse, root, None, lambda k, v, p: (seen.append(_tk(k.keys)), STOP if _tk(k.keys) == _tk(mp) else ENTER)[1])
        # after a STOP no node outside the ancestors of the stop point is visited.
        wantp = [_tk(p) for p, _ in mpost[:pidx + 1]]
        extra = seen[len(wantp):]
        chk(f'pg.traverse.stop-in-postorder/{flavour}', (expr, mp),
            g == ('ok', False) and seen[:len(wantp)] == wantp and all(len(e) < len(mp) and e == _tk(mp[:len(e)]) for e in extra),
            lambda: f'ret {g}; visited {seen}, want {wantp} (+ ancestors)',
            lambda: w0 + f'log = []\nret = pg.traverse(root, None, lambda k, v, p: (log.append(k.keys), pg.TraverseAction.STOP if k.keys == {list(mp)!r} else pg.TraverseAction.ENTER)[1])\n'
            + f'assert ret is False and log[:{len(wantp)}] == {[[k for _, k in t] for t in wantp]!r}')
    # --- pg.query: select everything, keyed by the printed path.
    g = _out(pg.query, root, None, lambda v: True, True)
    okq = g[0] == 'ok' and len(g[1]) == len(mpre) and list(g[1].keys()) == [str(KP(list(p))) for p, _, _ in mpre]
    if okq:
      okq = all(KP.parse(s).query(root) is v and _tk(KP.parse(s).keys) == _tk(mp) for (s, v), (mp, _, _) in zip(g[1].items(), mpre))
    chk(f'pg.query.select-all/{flavour}', key, okq, lambda: f'{len(g[1]) if g[0] == "ok" else g} results for {len(mpre)} nodes: {list(g[1]) if g[0] == "ok" else ""}',
        lambda: w0 + f'res = pg.query(root, where=lambda v: True, enter_selected=True)\nassert len(res) == {len(mpre)}\nassert all(pg.KeyPath.parse(k).query(root) is v for k, v in res.items())')
    g = _out(pg.query, root, None, lambda v: True, False)
    chk(f'pg.query.select-root-only/{flavour}', key, g[0] == 'ok' and list(g[1].keys()) == [''] and g[1][''] is root, lambda: f'{g}',
        lambda: w0 + 'res = pg.query(root, where=lambda v: True)\nassert list(res) == [""]')
    # a regex that spells one printed path selects exactly that node; a where
    # clause on the parent selects exactly the children of that node.
    if len(mpre) <= 12:
      for mp, mv, _ in mpre:
        sp = str(KP(list(mp)))
        rx = r'\A' + re.escape(sp) + r'\Z'
        node = _lookup(root, mp)
        g = _out(pg.query, root, rx)
        chk(f'pg.query.path_regex-of-one-path/{flavour}', (expr, mp), g[0] == 'ok' and list(g[1].keys()) == [sp] and g[1][sp] is node,
            lambda: f'pg.query(root, {rx!r}) -> {g}', lambda: w0 + f'res = pg.query(root, {rx!r})\nassert list(res) == [{sp!r}] and res[{sp!r}] is pg.KeyPath({list(mp)!r}).query(root)')
        if _mchildren(mv):
          wantc = [str(KP(list(q))) for q, _, _ in mpre if q and _lookup(root, q[:-1]) is node]
          g = _out(pg.query, root, None, lambda v, p: p is node, True)
          chk(f'pg.query.where-parent-is-node/{flavour}', (expr, mp), g[0] == 'ok' and list(g[1].keys()) == wantc,
              lambda: f'{list(g[1]) if g[0] == "ok" else g}, want {wantc}',
              lambda: w0 + f'node = pg.KeyPath({list(mp)!r}).query(root)\nres = pg.query(root, where=lambda v, p: p is node, enter_selected=True)\nassert list(res) == {wantc!r}')
    # leaves only, through custom selectors with 2 and 3 arguments.
    mleaves = [(p, v) for p, v, _ in mpre if not _mchildren(v)]
    for nm, sel in (('custom2', lambda k, v: not isinstance(v, (dict, list, pg.Object)) or len(v) == 0 if not isinstance(v, pg.Object) else False),
                    ('custom3', lambda k, v, p: not isinstance(v, (dict, list, pg.Object)) or len(v) == 0 if not isinstance(v, pg.Object) else False)):
      g = _out(pg.query, root, custom_selector=sel)
      chk(f'pg.query.leaves-{nm}/{flavour}', key, g[0] == 'ok' and list(g[1].keys()) == [str(KP(list(p))) for p, _ in mleaves],
          lambda: f'{list(g[1]) if g[0] == "ok" else g}, want {[str(KP(list(p))) for p, _ in mleaves]}',
          lambda: w0 + f'res = pg.query(root, custom_selector=lambda k, v: not isinstance(v, (dict, list, pg.Object)) or (not isinstance(v, pg.Object) and len(v) == 0))\nassert list(res) == {[str(KP(list(p))) for p, _ in mleaves]!r}')
    # --- pg.contains: every leaf value is found, an absent value is not.
    lv = list(dict.fromkeys(v for _, v in mleaves if type(v) in (int, str)))
    # (pg.contains compares with ==: a value with leaves that are == to everything / refuse a truth value is out of its scope.)
    g = [_out(pg.contains, root, x) for x in lv] + [_out(pg.contains, root, 'no such leaf'), _out(pg.contains, root, -12345)] if kind not in ('leaf-eq-always-true', 'leaf-eq-non-bool') else None
    if g is not None:
      chk(f'pg.contains.finds-exactly-the-present-leaves/{flavour}', key, g == [('ok', True)] * len(lv) + [('ok', False)] * 2, lambda: f'{lv} + 2 absent -> {g}',
          lambda: w0 + f'assert all(pg.contains(root, x) for x in {lv!r}) and not pg.contains(root, "no such leaf")')
    # --- a traversal started from inside a visitor does not disturb the outer one
    # (and is not disturbed by it).
    if 2 < len(mpre) <= 40:
      outer, inner = [], []

      def f_outer(k, v, p):
        outer.append(_tk(k.keys))
        got = []
        pg.traverse(v, lambda k2, v2, p2: (got.append(_tk(k2.keys)), ENTER)[1], None, k, p)
        inner.append(got)
        return ENTER
      g = _out(pg.traverse, root, f_outer)
      wanti = [[_tk(p) for p, _, _ in mpre if _tk(p[:len(mp)]) == _tk(mp)] for mp, _, _ in mpre]
      chk(f'pg.traverse.nested-call-from-visitor/{flavour}', key, g == ('ok', True) and outer == [_tk(p) for p, _, _ in mpre] and inner == wanti,
          lambda: f'ret {g}; outer visited {outer}; inner {inner}',
          lambda: w0 + 'outer, inner = [], []\ndef f(k, v, p):\n  outer.append(k.keys)\n  pg.traverse(v, lambda k2, v2, p2: (inner.append(k2.keys), pg.TraverseAction.ENTER)[1], None, k, p)\n  return pg.TraverseAction.ENTER\n'
          + f'pg.traverse(root, f)\nassert outer == {[list(p) for p, _, _ in mpre]!r}\nassert len(inner) == {sum(len(x) for x in wanti)}')
    # --- utils.traverse (objects are leaves there).
    upre = list(_mwalk(model, enter_objects=False))
    upost = list(_mpost(model, enter_objects=False))
    a, b = [], []
    g = _out(pg.utils.traverse, root, lambda k, v: (a.append((k, v)), True)[1], lambda k, v: (b.append((k, v)), True)[1])
    oku = (g == ('ok', True) and [_tk(k.keys) for k, _ in a] == [_tk(p) for p, _, _ in upre]
           and [_tk(k.keys) for k, _ in b] == [_tk(p) for p, _ in upost])
    if oku and (flavour in ('plain', 'plain-int-keys', 'plain-subclass', 'shared-plain') or _is_plain_expr(expr)):
      oku = all(v is _lookup(root, p) for (k, v), (p, _, _) in zip(a, upre))
    chk(f'utils.traverse.visits/{flavour}', key, oku, lambda: f'{g}; pre {[k.keys for k, _ in a]}, want {[list(p) for p, _, _ in upre]}',
        lambda: w0 + 'log = []\nassert pg.utils.traverse(root, lambda k, v: (log.append(k.keys), True)[1])\n' + f'assert log == {[list(p) for p, _, _ in upre]!r}')
    if len(upre) <= 12:
      for idx, (mp, _, _) in enumerate(upre):
        seen = []
        g = _out(pg.utils.traverse, root, lambda k, v: (seen.append(_tk(k.keys)), _tk(k.keys) != _tk(mp))[1])
        chk(f'utils.traverse.stop/{flavour}', (expr, mp), g == ('ok', False) and seen == [_tk(p) for p, _, _ in upre[:idx + 1]],
            lambda: f'{g} {seen}', lambda: w0 + f'log = []\nret = pg.utils.traverse(root, lambda k, v: (log.append(k.keys), k.keys != {list(mp)!r})[1])\nassert ret is False and len(log) == {idx + 1}')
      for idx, (mp, _) in enumerate(upost):
        seen = []
        g = _out(pg.utils.traverse, root, None, lambda k, v: (seen.append(_tk(k.keys)), _tk(k.keys) != _tk(mp))[1])
        chk(f'utils.traverse.stop-in-postorder/{flavour}', (expr, mp), g == ('ok', False) and seen == [_tk(p) for p, _ in upost[:idx + 1]],
            lambda: f'{g} {seen}', lambda: w0 + f'log = []\nret = pg.utils.traverse(root, None, lambda k, v: (log.append(k.keys), k.keys != {list(mp)!r})[1])\nassert ret is False and len(log) == {idx + 1}')
    # --- utils.transform with the identity function: every node once, bottom-up, with its path.
    # (a fn that returns pg.MISSING_VALUE asks utils.transform to delete the key: no identity there.)
    if flavour in ('plain', 'plain-int-keys', 'plain-subclass', 'shared-plain') or (kind.startswith('leaf-') and kind != 'leaf-missing-value' and _is_plain_expr(expr)):
      tl = []
      g = _out(pg.utils.transform, root, lambda k, v: (tl.append(_tk(k.keys)), v)[1], None, False)
      chk(f'utils.transform.identity-visits/{flavour}', key, g[0] == 'ok' and tl == [_tk(p) for p, _ in upost] and _deep_same(g[1], model),
          lambda: f'{g}; visited {tl}', lambda: w0 + f'log = []\nres = pg.utils.transform(root, lambda k, v: (log.append(k.keys), v)[1], inplace=False)\nassert log == {[list(p) for p, _ in upost]!r} and res == root')
    # --- rebind by function addresses every leaf through its printed path.
    if isinstance(root, pg.Symbolic):
      ints = [p for p, v, _ in mpre if type(v) is int]
      if ints:
        clone = eval(expr, dict(ns))  # pylint: disable=eval-used
        g = _out(clone.rebind, lambda k, v: v + 100 if type(v) is int else v)
        okr = g[0] == 'ok'
        if okr:
          for p, v, _ in mpre:
            got = _out(_lookup, clone, p)
            if type(v) is int:
              okr = okr and got == ('ok', v + 100)
            elif not _mchildren(v):
              okr = okr and got[0] == 'ok' and _same_node(got[1], v)
          okr = okr and len(list(_walk_real(clone))) == len(mpre)
        chk(f'rebind-by-function.updates-exactly-the-int-leaves/{flavour}', key, okr, lambda: f'{g[1] if g[0] == "exc" else "wrong nodes after rebind"}',
            lambda: w0 + f'root.rebind(lambda k, v: v + 100 if type(v) is int else v)\nassert [pg.KeyPath(p).query(root) for p in {[list(p) for p in ints]!r}] == {[_lookup(root, p) + 100 for p in ints]!r}')

  for expr, flavour in vals:
    try:
      one(expr, flavour)
    except Exception as e:  # pylint: disable=broad-except
      rec.case(f'unexpected-exception/{flavour}', expr, False, f'{type(e).__name__}: {e}', _pre(expr) + f'root = {expr}\nraise AssertionError({str(e)!r})')

  return rec.result()


def _walk_real(v):
  yield v
  if isinstance(v, pg.Symbolic):
    if isinstance(v, (pg.Dict, pg.List, pg.Object)):
      for _, c in v.sym_items():
        yield from _walk_real(c)
  elif isinstance(v, dict):
    for c in v.values():
      yield from _walk_real(c)
  elif isinstance(v, list):
    for c in v:
      yield from _walk_real(c)


# ---------------------------------------------------------------------------
# Driver 5: flatten / canonicalize.
# ---------------------------------------------------------------------------

FKEYS = ['a', 'b', 'x.y', '0', '10', '-1', '[0]', 'a[0]', '[x]', '.', '$', 'é', 'a b', '1.5', 'a.b.c', '[[x]]']
FLEAVES = ['1', "'v'", 'None', '[]', '{}', '(1, 2)', '0', "''", 'False']


def _flat_values(tier, seed):
  out = []
  for k in FKEYS:
    for l in FLEAVES:
      out.append(f'{{{k!r}: {l}}}')
  for k1, k2 in itertools.permutations(FKEYS, 2):
    out.append(f'{{{k1!r}: 1, {k2!r}: []}}')
  for n in (1, 2, 3):
    for ls in itertools.product(FLEAVES[:5], repeat=n):
      out.append('[' + ', '.join(ls) + ']')
  d1 = list(out)
  for e in d1[::2]:
    for k in ('a', 'x.y', '0', '[0]'):
      out.append(f'{{{k!r}: {e}}}')
    out.append(f'[{e}]')
    out.append(f'[1, {e}, []]')
    out.append(f"{{'a': [{e}, {{'b': {e}}}]}}")
  r = rng(seed, 'c10-flat')

  def rand(depth):
    if depth <= 0 or r.random() < 0.25:
      return r.choice(FLEAVES)
    if r.random() < 0.55:
      ks = r.sample(FKEYS, r.randrange(1, 4))
      return '{' + ', '.join(f'{x!r}: {rand(depth - 1)}' for x in ks) + '}'
    return '[' + ', '.join(rand(depth - 1) for _ in range(r.randrange(1, 4))) + ']'
  for _ in range(2500 if tier == 'quick' else 40000):
    e = rand(r.randrange(2, 6))
    if e[0] in '[{' and len(e) > 2:
      out.append(e)
  # dicts keyed by ints that do not form range(0, N) (those are, in path-keyed
  # form, indistinguishable from lists), alone and next to string keys.
  for ks in ([5], [1, 2], [2, 1], [-1], [-1, 0], [1, 'a'], ['0', 1], [10, 2, 7], [0, 2], [7, '[0]', 'x.y']):
    body = ', '.join(f'{k!r}: {FLEAVES[i % 4]}' for i, k in enumerate(ks))
    out.append(f'{{{body}}}')
    out.append(f"{{'a': {{{body}}}, 'b': [{{{body}}}, 1]}}")
    out.append(f"[{{{body}}}, [0, {{{body}}}]]")
    out.append(f"{{{ks[-1]!r}: {{{body}}}, 3: 1}}")

  def rand_ik(depth):
    if depth <= 0 or r.random() < 0.25:
      return r.choice(FLEAVES)
    x = r.random()
    if x < 0.35:
      ks = r.sample([1, 2, 3, 5, 10, -1, -2], r.randrange(1, 4)) + r.sample(FKEYS, r.randrange(0, 2))
      r.shuffle(ks)
      return '{' + ', '.join(f'{k!r}: {rand_ik(depth - 1)}' for k in ks) + '}'
    if x < 0.65:
      ks = r.sample(FKEYS, r.randrange(1, 4))
      return '{' + ', '.join(f'{k!r}: {rand_ik(depth - 1)}' for k in ks) + '}'
    return '[' + ', '.join(rand_ik(depth - 1) for _ in range(r.randrange(1, 4))) + ']'
  for _ in range(300 if tier == 'quick' else 5000):
    e = rand_ik(r.randrange(2, 5))
    if e[0] in '[{' and len(e) > 2:
      out.append(e)
  out.extend(SUBCLASS_EXPRS)
  # lists with indices of more than one digit.
  for n in (10, 11, 12, 21):
    ll = '[' + ', '.join(FLEAVES[i % 3] if i % 4 else str(i) for i in range(n)) + ']'
    out += [ll, f"{{'a': {ll}}}", f"{{'x.y': [{ll}, 1], 'b': {{'c': {ll}}}}}", f'[{ll}, {ll}]']
  # the same container object at several places: every place has its own paths.
  for sh in SHARED_PLAIN:
    for ctx in SHARED_CTX:
      out.append(ctx.format(S=f'(s := {sh})', s='s'))
  out.extend(e for e, f in _shared_exprs(rng(seed, 'c10-flat-shared'), 60 if tier == 'quick' else 1000) if f == 'shared-plain')
  return list(dict.fromkeys(out))


def _src(x):
  """Source text of a plain nested value with unusual leaves."""
  if isinstance(x, dict):
    return '{' + ', '.join(f'{k!r}: {_src(v)}' for k, v in x.items()) + '}'
  if isinstance(x, list):
    return '[' + ', '.join(_src(v) for v in x) + ']'
  if isinstance(x, tuple):
    return '(' + ''.join(_src(v) + ', ' for v in x) + ')'
  if x is pg.MISSING_VALUE:
    return 'pg.MISSING_VALUE'
  if isinstance(x, float) and x != x:
    return "float('nan')"
  if isinstance(x, type):
    return x.__name__
  return repr(x)


# (witness text) structural sameness that does not rely on the == of leaves nor on dict order.
SAME_SRC = '''def same(a, b):
  if isinstance(b, dict): return isinstance(a, dict) and set(a) == set(b) and all(same(a[k], b[k]) for k in b)
  if isinstance(b, list): return isinstance(a, list) and len(a) == len(b) and all(map(same, a, b))
  return type(a) is type(b) and repr(a) == repr(b)
'''


def _flat_special():
  """(expr, flavour): leaves are carried, never interpreted or compared: unusual leaf values."""
  return [(ctx.format(L=leaf), fl) for leaf, fl, _ in SPECIAL_LEAVES if leaf not in FLEAVES for ctx in FLAT_SPECIAL_CTX]


FLAT_SPECIAL_CTX = ["{{'a': {L}}}", '[{L}]', "{{'a': [{L}, {{'b': {L}}}], 'x.y': {L}}}", "[[{L}], {{'0': {L}}}]", "{{'a': {{'b': {L}, 'c': 1}}}}", '[1, {L}, []]', "{{'b': 1, 'a': {L}, 'c': [{L}, {L}]}}"]


def _deep_same(a, b):
  """Structural equality that distinguishes list/dict/tuple and key types and order-insensitive dicts."""
  if isinstance(a, dict) or isinstance(b, dict):
    return (isinstance(a, dict) and isinstance(b, dict) and sorted(map(repr, _tk(a.keys()))) == sorted(map(repr, _tk(b.keys())))
            and all(_deep_same(a[k], b[k]) for k in a))
  if isinstance(a, list) or isinstance(b, list):
    return isinstance(a, list) and isinstance(b, list) and len(a) == len(b) and all(_deep_same(x, y) for x, y in zip(a, b))
  return _leaf_same(a, b)


def _has_complex_key(v):
  if isinstance(v, dict):
    return any(isinstance(k, str) and any(c in k for c in '[].') for k in v) or any(_has_complex_key(x) for x in v.values())
  if isinstance(v, list):
    return any(_has_complex_key(x) for x in v)
  return False


def _has_int_dict_key(v):
  if isinstance(v, dict):
    return any(isinstance(k, int) for k in v) or any(_has_int_dict_key(x) for x in v.values())
  if isinstance(v, list):
    return any(_has_int_dict_key(x) for x in v)
  return False


def _has_multi_list(v):
  if isinstance(v, dict):
    return any(_has_multi_list(x) for x in v.values())
  if isinstance(v, list):
    return len(v) > 1 or any(_has_multi_list(x) for x in v)
  return False


def _deep_same_sym(a, b):
  """_deep_same where a may hold symbolic containers for plain ones."""
  if isinstance(b, dict):
    return isinstance(a, dict) and len(a) == len(b) and all(k in a and _deep_same_sym(a[k], b[k]) for k in b)
  if isinstance(b, list):
    return isinstance(a, list) and len(a) == len(b) and all(_deep_same_sym(x, y) for x, y in zip(a, b))
  return type(a) is type(b) and a == b


def _partial_form(v, r, shuffled):
  """A path-keyed form of v in which each non-empty sub-container is, by a
  seeded coin, either kept nested or spelled as entries `<key><sub-path>`."""
  def entries(c):
    its = list(c.items()) if isinstance(c, dict) else list(enumerate(c))
    for k, cc in its:
      if isinstance(cc, (dict, list)) and cc and r.random() < 0.6:
        for sp, sv in entries(cc):
          yield (k,) + sp, sv
      else:
        yield (k,), form(cc)

  def form(x):
    if isinstance(x, dict) and x:
      its = list(entries(x))
      if shuffled:
        r.shuffle(its)
      return {str(KP(list(p))): f for p, f in its}
    if isinstance(x, list) and x:
      return [form(c) for c in x]
    return x
  return form(v)


def drv_flatten(tier, seed):
  vals = _flat_values(tier, seed)
  rec = Recorder('C10', 'utils.flatten / utils.canonicalize are inverse; flatten keys are the leaf paths',
                 scope=f'{len(vals)} nested dict/list values: exhaustive depth<=1 over {len(FKEYS)} keys x {len(FLEAVES)} leaves, chains to depth 3, seeded random depth<=5; '
                       'int-keyed dicts, lists up to 21 elements, shared sub-containers, dict/list subclasses; flat forms permuted (all orders for <= 3 entries, '
                       'else reversed / interleaved / seeded shuffles) and partially flattened by seeded coins; '
                       f'{len(_flat_special())} values with unusual leaves (MISSING_VALUE placeholder, NaN, exceptions, objects with an unusual ==)')
  chk = _Chk(rec)
  rp = rng(seed, 'c10-flat-perm')
  counter = [0]

  fns = {'pg': pg, 'EqAll': EqAll, 'EqNone': EqNone, 'EqArr': EqArr}  # pylint: disable=undefined-variable
  exec(SUBPRE, fns)  # pylint: disable=exec-used

  def one(expr):
    v = eval(expr, dict(fns))  # pylint: disable=eval-used
    cls = 'root-list' if isinstance(v, list) else 'root-dict'
    cx = _has_complex_key(v)
    cls += '/complex-keys' if cx else '/simple-keys'
    sub = 'My' in expr or 'collections.' in expr
    if sub:
      cls += '/container-subclasses'
    ik = _has_int_dict_key(v)
    if ik:
      cls += '/int-dict-keys'
    if ':=' in expr:
      cls += '/shared-containers'
    counter[0] += 1
    w0 = 'import pyglove as pg\n' + (SUBPRE if sub else '') + f'v = {expr}\n'
    leaves = [(p, n) for p, n, _ in _mwalk(v) if p and not _mchildren(n)]
    g = _out(pg.utils.flatten, v, False)
    want = {str(KP(list(p))): n for p, n in leaves}
    okf = g[0] == 'ok' and isinstance(g[1], dict) and list(g[1].keys()) == list(want.keys()) and all(_deep_same(g[1][k], want[k]) for k in want)
    chk(f'flatten.keys-are-leaf-paths/{cls}', expr, okf, lambda: f'{g}, want {want}',
        lambda: w0 + f'assert pg.utils.flatten(v, False) == {want!r}')
    if g[0] == 'ok':
      c = _out(pg.utils.canonicalize, g[1])
      chk(f'canonicalize-inverts-flatten/{cls}', expr, c[0] == 'ok' and _deep_same(c[1], v), lambda: f'canonicalize(flatten(v, False)) -> {c}',
          lambda: w0 + 'assert pg.utils.canonicalize(pg.utils.flatten(v, False)) == v')
      if not ik:     # (that flag turns int-keyed dicts into lists: not an inverse for them)
        c2 = _out(pg.utils.canonicalize, g[1], False)
        chk(f'canonicalize-inverts-flatten.sparse_list_as_dict=False/{cls}', expr, c2[0] == 'ok' and _deep_same(c2[1], v), lambda: f'{c2}',
            lambda: w0 + 'assert pg.utils.canonicalize(pg.utils.flatten(v, False), False) == v')
      # A path-keyed dict is a mapping from paths to values: the order in which
      # its entries are listed is immaterial.
      items = list(g[1].items())
      n = len(items)
      if okf and n >= 2:
        pcls = ('list-elements' if _has_multi_list(v) else 'dict-entries-only') + ('/int-dict-keys' if ik else '')
        if n <= 3:
          perms = [list(q) for q in itertools.permutations(items)][1:]
        else:
          perms = [items[::-1]] + ([items[1::2] + items[0::2]] if n <= 12 or tier != 'quick' else [])
          for _ in range(1 if tier == 'quick' else 4):
            q = list(items)
            rp.shuffle(q)
            perms.append(q)
        for pi, q in enumerate(perms):
          d = dict(q)
          c = _out(pg.utils.canonicalize, d)
          chk(f'canonicalize.entry-order-immaterial/{pcls}', (expr, pi), c[0] == 'ok' and _deep_same(c[1], v),
              lambda: f'canonicalize({d!r}) -> {c}, want {v!r}',
              lambda: w0 + f'flat = {d!r}\nassert pg.utils.canonicalize(flat) == v')
          if not ik and pi < 1:
            c = _out(pg.utils.canonicalize, d, False)
            chk(f'canonicalize.entry-order-immaterial.sparse_list_as_dict=False/{pcls}', (expr, pi), c[0] == 'ok' and _deep_same(c[1], v),
                lambda: f'canonicalize({d!r}, False) -> {c}, want {v!r}',
                lambda: w0 + f'flat = {d!r}\nassert pg.utils.canonicalize(flat, False) == v')
      # Partially flattened forms: any sub-value may be given nested or as
      # path-keyed entries of an enclosing dict; the paths compose.
      if n >= 1 and counter[0] % 2 == 0:
        for shuffled in (False, True):
          pf = _partial_form(v, rp, shuffled)
          c = _out(pg.utils.canonicalize, pf)
          chk(f'canonicalize.partially-flattened/{"shuffled" if shuffled else "in-order"}/{cls}', (expr, repr(pf)), c[0] == 'ok' and _deep_same(c[1], v),
              lambda: f'canonicalize({pf!r}) -> {c}, want {v!r}',
              lambda: w0 + f'form = {pf!r}\nassert pg.utils.canonicalize(form) == v')
      # symbolic containers are dicts / lists too.
      if counter[0] % 4 == 0 and not ik:
        sv = _out(lambda: pg.Dict(v) if isinstance(v, dict) else pg.List(v))
        if sv[0] == 'ok':
          gs = _out(pg.utils.flatten, sv[1], False)
          oks = gs[0] == 'ok' and isinstance(gs[1], dict) and list(gs[1].keys()) == list(want.keys()) and all(_deep_same_sym(gs[1][k], want[k]) for k in want)
          chk(f'flatten.symbolic-input/{cls}', expr, oks, lambda: f'{gs}, want {want}',
              lambda: w0 + f'sv = pg.Dict(v) if isinstance(v, dict) else pg.List(v)\nassert pg.utils.flatten(sv, False) == {want!r}')
      # every flattened key addresses its leaf.
      okk = all(_out(KP.parse(k).query, v)[1:] == (x,) or _deep_same(_out(KP.parse(k).query, v)[1], x) for k, x in g[1].items())
      chk(f'flatten.key-looks-up-leaf/{cls}', expr, okk, 'a flattened key does not address its value',
          lambda: w0 + 'assert all(pg.KeyPath.parse(k).query(v) == x for k, x in pg.utils.flatten(v, False).items())')
    if not cx:
      g = _out(pg.utils.flatten, v)
      c = _out(pg.utils.canonicalize, g[1]) if g[0] == 'ok' else g
      chk(f'canonicalize-inverts-flatten.default-flags/{cls}', expr, c[0] == 'ok' and _deep_same(c[1], v), lambda: f'flatten -> {g}; canonicalize -> {c}',
          lambda: w0 + 'assert pg.utils.canonicalize(pg.utils.flatten(v)) == v')
      c = _out(pg.utils.canonicalize, v)
      chk(f'canonicalize.identity-on-canonical/{cls}', expr, c[0] == 'ok' and _deep_same(c[1], v), lambda: f'{c}',
          lambda: w0 + 'import copy; assert pg.utils.canonicalize(copy.deepcopy(v)) == v')
    # flatten does not modify its argument.
    chk(f'flatten.argument-unchanged/{cls}', expr, _deep_same(v, eval(expr, dict(fns))), 'flatten/canonicalize modified the input',  # pylint: disable=eval-used
        lambda: w0 + f'pg.utils.flatten(v, False); assert v == {expr}')

  def one_special(expr, cls):
    """Values with unusual leaves: the same laws, stated without comparing leaves by ==."""
    v = eval(expr, dict(fns))  # pylint: disable=eval-used
    w0 = 'import pyglove as pg\n' + ''.join(SPEC_SRC[n] for n in dict.fromkeys(_SPEC_NAMES.findall(expr))) + f'v = {expr}\n'
    leaves = [(p, n) for p, n, _ in _mwalk(v) if p and not _mchildren(n)]
    keys = [str(KP(list(p))) for p, _ in leaves]
    g = _out(pg.utils.flatten, v, False)
    okf = g[0] == 'ok' and isinstance(g[1], dict) and list(g[1].keys()) == keys and all(x is n or _deep_same(x, n) for x, (_, n) in zip(g[1].values(), leaves))
    chk(f'flatten.keys-are-leaf-paths/{cls}', expr, okf, lambda: f'{g}, want keys {keys}',
        lambda: w0 + f'flat = pg.utils.flatten(v, False)\nassert list(flat) == {keys!r}\nassert all(pg.KeyPath.parse(k).query(v) is x for k, x in flat.items())')
    if not okf:
      return
    okk = all(_out(KP.parse(k).query, v) == ('ok', x) if type(x) in (list, dict) else _out(KP.parse(k).query, v)[1] is x for k, x in g[1].items())
    chk(f'flatten.key-looks-up-leaf/{cls}', expr, okk, 'a flattened key does not address its value',
        lambda: w0 + 'assert all(pg.KeyPath.parse(k).query(v) is x for k, x in pg.utils.flatten(v, False).items() if type(x) not in (list, dict))')
    # (in a path-keyed form pg.MISSING_VALUE is the documented request to delete the key: no inverse to expect for it.)
    if cls != 'leaf-missing-value':
      forms = [('flat', g[1])]
      items = list(g[1].items())
      if len(items) >= 2:
        forms.append(('flat-reversed', dict(items[::-1])))
        forms.append(('partially-flattened', _partial_form(v, rp, True)))
      for nm, form in forms:
        for flag in (True, False):
          c = _out(pg.utils.canonicalize, form, flag)
          # (entry order / partial flattening are input classes of their own, whatever the leaves.)
          cid = {'flat': f'canonicalize-inverts-flatten/{cls}', 'flat-reversed': 'canonicalize.entry-order-immaterial/unusual-leaves',
                 'partially-flattened': 'canonicalize.partially-flattened/unusual-leaves'}[nm]
          chk(cid, (expr, nm, flag), c[0] == 'ok' and _deep_same(c[1], v), lambda: f'canonicalize({form!r}, {flag}) -> {c}, want {v!r}',
              lambda: w0 + f'form = {_src(form)}\n' + SAME_SRC + f'assert same(pg.utils.canonicalize(form, {flag}), v)')
    chk(f'flatten.argument-unchanged/{cls}', expr, _deep_same(v, eval(expr, dict(fns))), 'flatten/canonicalize modified the input',  # pylint: disable=eval-used
        lambda: w0 + f'pg.utils.flatten(v, False); assert repr(v) == repr({expr})')

  for expr, fl in _flat_special():
    try:
      one_special(expr, fl)
    except Exception as e:  # pylint: disable=broad-except
      rec.case(f'unexpected-exception/{fl}', expr, False, f'{type(e).__name__}: {e}', 'import pyglove as pg\n' + ''.join(SPEC_SRC[n] for n in dict.fromkeys(_SPEC_NAMES.findall(expr)))
               + f'v = {expr}\nassert repr(pg.utils.canonicalize(pg.utils.flatten(v, False))) == repr(v)')

  for expr in vals:
    try:
      one(expr)
    except Exception as e:  # pylint: disable=broad-except
      rec.case('unexpected-exception', expr, False, f'{type(e).__name__}: {e}', 'import pyglove as pg\n' + (SUBPRE if 'My' in expr or 'collections.' in expr else '') + f'v = {expr}\nassert pg.utils.canonicalize(pg.utils.flatten(v, False)) == v')

  return rec.result()


# ---------------------------------------------------------------------------
# Driver 6: KeyPathSet vs python set of key tuples.
# ---------------------------------------------------------------------------

def _ps_class(*sets, extra=()):
  """Input class for a KeyPathSet check."""
  allp = set()
  for s in sets:
    allp |= set(s)
  allp |= set(extra)
  if any('$' in p for p in allp):
    return 'dollar-key'
  if any(not s for s in sets):
    return 'empty-set'
  if () in allp:
    return 'root-member'
  return 'general'


def _mk(paths):
  s = KPS()
  for p in paths:
    s.add(KP(list(p)))
  return s


def _elems(s):
  return [tuple(p.keys) for p in s]


def _src_set(paths):
  return 'pg.KeyPathSet([' + ', '.join(_kp_src(p) for p in paths) + '])'


def _agrees(s, model, universe):
  try:
    return _agrees_impl(s, model, universe)
  except Exception as e:  # pylint: disable=broad-except
    return f'observing the set raised {type(e).__name__}: {e}'


def _agrees_impl(s, model, universe):
  """Every observation of s agrees with the python-set model."""
  el = _elems(s)
  if len(el) != len(set(map(_tk, el))):
    return 'iteration yields duplicates'
  if set(map(_tk, el)) != set(map(_tk, model)):
    return f'iterates {sorted(map(str, el))}, model {sorted(map(str, model))}'
  if bool(s) != bool(model):
    return f'bool() -> {bool(s)} for a set of {len(model)} paths'
  tm = set(map(_tk, model))
  for p in universe:
    if (KP(list(p)) in s) != (_tk(p) in tm):
      return f'{p!r} in set -> {KP(list(p)) in s}'
  ref = _mk(sorted(model, key=repr))
  if not (s == ref) or (s != ref):
    return 'not == to a set built from the same paths'
  return None


def drv_keypathset(tier, seed):
  U = [(), ('a',), ('a', 'b'), ('a', 0), (0,), ('0',), ('a', 'b', 'c'), ('x.y',)]
  UD = [(), ('$',), ('a',), ('a', '$'), ('$', 'a')]
  hist_len = '3 (4 over 4 paths)' if tier == 'quick' else '4 (6 over 4 paths)'
  rec = Recorder('C10', 'KeyPathSet vs python set of key tuples',
                 scope=f'universe of {len(U)} paths (+{len(UD)} with "$" keys): all add/remove histories of length <= {hist_len}, '
                       f'all pairs of subsets for union/intersection/difference, all subsets x roots for rebase/subtree/has_prefix')
  chk0 = _Chk(rec)

  def chk(cid, key, ok, msg='', wit=''):
    # '$' is a legal non-empty string key; every failure it causes is one defect.
    if cid.endswith('/dollar-key'):
      cid = 'kps.any-operation/dollar-key'
    if cid == 'kps.keypath-plus-set/empty-set':
      cid = 'kps.rebase/empty-set'     # KeyPath + set is the rebased copy: same defect.
    return chk0(cid, key, ok, msg, wit)

  # ---- histories of add / remove, checked after every step.
  def histories(universe, k, tag):
    ops = [('add', p) for p in universe] + [('remove', p) for p in universe]

    def go(s_src, s, model, depth, hist):
      if depth == k:
        return
      for op, p in ops:
        s2 = s.copy()
        m2 = set(model)
        path = KP(list(p))
        if op == 'add':
          want = p not in m2
          m2.add(p)
          got = _out(s2.add, path)
        else:
          want = p in m2
          m2.discard(p)
          got = _out(s2.remove, path)
        h2 = hist + [(op, p)]
        cls = 'dollar-key' if tag == 'd' else _ps_class(m2 or {('zz',)}, extra=[p] + [q for _, q in h2])
        if not m2 and cls == 'general':
          cls = 'becomes-empty'
        wit = lambda: ('import pyglove as pg\ns = pg.KeyPathSet()\n' + ''.join(f's.{o}({_kp_src(q)})\n' for o, q in h2)
                       + f'assert sorted(str(p) for p in s) == {sorted(str(KP(list(q))) for q in m2)!r} and bool(s) is {bool(m2)}\n'
                       + f'assert [pg.KeyPath(list(q)) in s for q in {list(universe)!r}] == {[q in m2 for q in universe]!r}\n'
                       + f'assert s == {_src_set(sorted(m2, key=repr))}')
        chk(f'kps.{op}.return-value/{cls}', tuple(h2), got == ('ok', want), lambda: f'{op}({p!r}) -> {got}, want {want}',
            lambda: 'import pyglove as pg\ns = pg.KeyPathSet()\n' + ''.join(f's.{o}({_kp_src(q)})\n' for o, q in h2[:-1]) + f'assert s.{op}({_kp_src(p)}) is {want}')
        bad = _agrees(s2, m2, universe)
        chk(f'kps.{op}.state/{cls}', tuple(h2), bad is None, bad, wit)
        # the copy taken before the step is untouched.
        go(None, s2, m2, depth + 1, h2)
    go(None, KPS(), set(), 0, [])

  if tier == 'quick':
    histories(U[:7], 3, 'u')
    histories(U[:4], 4, 'u')
    histories(UD, 3, 'd')
  else:
    histories(U[:7], 4, 'u')
    histories(U[:4], 6, 'u')
    histories(UD, 4, 'd')

  # string and int arguments are path equivalents.
  for p in U + UD + [('a[0]',), (-1,), (10, 'x.y', '0')]:
    s = KPS()
    arg = str(KP(list(p)))
    g = _out(s.add, arg)
    cls = _ps_class([p])
    chk(f'kps.add.str-argument/{cls}', p, g == ('ok', True) and set(map(_tk, _elems(s))) == {_tk(p)} and (arg in s), lambda: f'{g} {_elems(s)}',
        f'import pyglove as pg; s = pg.KeyPathSet(); s.add({arg!r}); assert [p.keys for p in s] == [{list(p)!r}]')
    if len(p) == 1 and isinstance(p[0], int):
      s = KPS()
      s.add(p[0])
      chk('kps.add.int-argument', p, set(map(_tk, _elems(s))) == {_tk(p)} and p[0] in s and s.remove(p[0]) and not s, f'{_elems(s)}',
          f'import pyglove as pg; s = pg.KeyPathSet(); s.add({p[0]}); assert {p[0]} in s')

  # ---- binary operations on all pairs of subsets.
  def subsets(universe):
    for n in range(len(universe) + 1):
      for c in itertools.combinations(universe, n):
        yield c

  def binary(universe, stride):
    subs = list(subsets(universe))
    for ia, A in enumerate(subs):
      for ib, B in enumerate(subs):
        if stride > 1 and (ia * 31 + ib) % stride:
          continue
        mA, mB = set(A), set(B)
        cls = _ps_class(A, B)
        sa, sb = _src_set(A), _src_set(B)
        for nm, want, fns in (
            ('union', mA | mB, [lambda a, b: a.union(b), lambda a, b: a + b, lambda a, b: (a.update(b), a)[1]]),
            ('intersection', mA & mB, [lambda a, b: a.intersection(b), lambda a, b: (a.intersection_update(b), a)[1]]),
            ('difference', mA - mB, [lambda a, b: a.difference(b), lambda a, b: (a.difference_update(b), a)[1]])):
          for vi, fn in enumerate(fns):
            a, b = _mk(A), _mk(B)
            g = _out(fn, a, b)
            inplace = vi == len(fns) - 1
            form = {('union', 0): 'a.union(b)', ('union', 1): 'a + b', ('union', 2): 'a.update(b)',
                    ('intersection', 0): 'a.intersection(b)', ('intersection', 1): 'a.intersection_update(b)',
                    ('difference', 0): 'a.difference(b)', ('difference', 1): 'a.difference_update(b)'}[(nm, vi)]
            res = 'a' if inplace else 'r'
            wit = (lambda form=form, res=res, want=want:
                   f'import pyglove as pg\na = {sa}\nb = {sb}\n' + (f'{form}\n' if res == 'a' else f'r = {form}\n')
                   + f'assert sorted(str(p) for p in {res}) == {sorted(str(KP(list(q))) for q in want)!r} and bool({res}) is {bool(want)} and {res} == {_src_set(sorted(want, key=repr))}')
            if not chk(f'kps.{nm}.total/{cls}', (A, B, vi), g[0] == 'ok', lambda: f'{g}', wit):
              continue
            ocls = cls
            if not want and cls == 'general':
              ocls = 'empty-result'
            bad = _agrees(g[1], want, universe)
            chk(f'kps.{nm}.result/{ocls}', (A, B, vi), bad is None, lambda: f'{form}: {bad}', wit)
            # operands: b never changes; a only for the in-place form.
            badb = _agrees(b, mB, universe)
            bada = None if inplace else _agrees(a, mA, universe)
            chk(f'kps.{nm}.operands-unchanged/{cls}', (A, B, vi), badb is None and bada is None, lambda: f'{form}: a: {bada}; b: {badb}',
                lambda: f'import pyglove as pg\na = {sa}\nb = {sb}\n{form}\nassert b == {sb}' + ('' if inplace else f' and a == {sa}'))
            if not inplace:
              # the result shares nothing with the operands.
              r_ = g[1]
              r_.add(KP(['fresh', 1]))
              for q in list(want):
                r_.remove(KP(list(q)))
              badb = _agrees(b, mB, universe)
              bada = _agrees(a, mA, universe)
              chk(f'kps.{nm}.result-independent-of-operands/{cls}', (A, B, vi), badb is None and bada is None, lambda: f'{form}: a: {bada}; b: {badb}',
                  lambda: f'import pyglove as pg\na = {sa}\nb = {sb}\nr = {form}\nr.add("fresh")\n[r.remove(p) for p in list(r)]\nassert b == {sb} and a == {sa}')
            else:
              a.add(KP(['fresh', 1]))
              for q in list(want):
                a.remove(KP(list(q)))
              badb = _agrees(b, mB, universe)
              chk(f'kps.{nm}.result-independent-of-operands/{cls}', (A, B, vi), badb is None, lambda: f'{form}: b: {badb}',
                  lambda: f'import pyglove as pg\na = {sa}\nb = {sb}\n{form}\na.add("fresh")\n[a.remove(p) for p in list(a)]\nassert b == {sb}')

  binary(U[:6] if tier == 'quick' else U[:7] + [], 1)
  # sets over paths with '$' keys: construction and observation only (histories above).
  for A in subsets(UD):
    try:
      bad = _agrees(_mk(A), set(A), UD)
    except Exception as e:  # pylint: disable=broad-except
      bad = f'building the set raised {type(e).__name__}: {e}'
    chk('kps.construct/dollar-key', A, bad is None, bad,
        lambda: 'import pyglove as pg\ns = pg.KeyPathSet()\n' + ''.join(f's.add({_kp_src(q)})\n' for q in A)
        + f'assert sorted(p.keys for p in s) == {sorted(list(q) for q in A)!r}')

  # ---- rebase / KeyPath + set / subtree / has_prefix / copy / clear / from_value / include_intermediate.
  roots = [(), ('r',), ('r', 0), (0,), ('x.y', '0'), ('a',)]
  for universe in (U,):
    for A in subsets(universe):
      mA = set(A)
      sa = _src_set(A)
      cls = _ps_class(A)
      for root in roots:
        want = {root + p for p in mA}
        s = _mk(A)
        g = _out(s.rebase, KP(list(root)))
        uni2 = [root + p for p in universe] + list(universe)
        bad = _agrees(s, want, uni2) if g[0] == 'ok' else str(g)
        chk(f'kps.rebase/{cls}', (A, root), bad is None, bad,
            lambda: f'import pyglove as pg\ns = {sa}\ns.rebase({_kp_src(root)})\nassert sorted(str(p) for p in s) == {sorted(str(KP(list(q))) for q in want)!r} and bool(s) is {bool(want)} and s == {_src_set(sorted(want, key=repr))}')
        s = _mk(A)
        g = _out(lambda: KP(list(root)) + s)
        bad = (_agrees(g[1], want, uni2) or _agrees(s, mA, universe)) if g[0] == 'ok' else str(g)
        chk(f'kps.keypath-plus-set/{cls}', (A, root), bad is None, bad,
            lambda: f'import pyglove as pg\ns = {sa}\nr = {_kp_src(root)} + s\nassert sorted(str(p) for p in r) == {sorted(str(KP(list(q))) for q in want)!r} and bool(r) is {bool(want)} and s == {sa}')
        if root and mA:
          # prefix queries (non-degenerate: non-empty set, non-root prefix).
          s = _mk(A)
          wantp = any(_tk(p[:len(root)]) == _tk(root) for p in mA)
          chk(f'kps.has_prefix/{cls}', (A, root), _out(s.has_prefix, KP(list(root))) == ('ok', wantp), f'has_prefix({root!r}) != {wantp}',
              lambda: f'import pyglove as pg; assert {sa}.has_prefix({_kp_src(root)}) is {wantp}')
          sub = _out(s.subtree, KP(list(root)))
          wants = {p[len(root):] for p in mA if _tk(p[:len(root)]) == _tk(root)}
          if not wants:
            oks = sub == ('ok', None)
          else:
            oks = sub[0] == 'ok' and sub[1] is not None and set(map(_tk, _elems(sub[1]))) == set(map(_tk, wants))
          chk(f'kps.subtree/{cls}', (A, root), oks, lambda: f'subtree({root!r}) -> {sub if sub[0] == "exc" or sub[1] is None else _elems(sub[1])}, want {wants or None}',
              lambda: f'import pyglove as pg; t = {sa}.subtree({_kp_src(root)}); assert ' + ('t is None' if not wants else f'sorted(str(p) for p in t) == {sorted(str(KP(list(q))) for q in wants)!r}'))
      # copy / clear / from_value / constructor.
      s = _mk(A)
      c = s.copy()
      c.add(KP(['fresh']))
      for q in A:
        c.remove(KP(list(q)))
      bad = _agrees(s, mA, universe)
      chk(f'kps.copy-independent/{cls}', A, bad is None, bad, lambda: f'import pyglove as pg\ns = {sa}\nc = s.copy()\nc.add("fresh")\n[c.remove(p) for p in list(c)]\nassert s == {sa}')
      s.clear()
      bad = _agrees(s, set(), universe)
      chk(f'kps.clear/{cls}', A, bad is None, bad, lambda: f'import pyglove as pg\ns = {sa}\ns.clear()\nassert not s and list(s) == [] and s == pg.KeyPathSet()')
      for nm, mkr in (('ctor-list', lambda: KPS([KP(list(p)) for p in A])), ('from_value-list', lambda: KPS.from_value([KP(list(p)) for p in A])),
                      ('from_value-tuple', lambda: KPS.from_value(tuple(str(KP(list(p))) for p in A))),
                      ('from_value-set', lambda: KPS.from_value(_mk(A)))):
        g = _out(mkr)
        bad = _agrees(g[1], mA, universe) if g[0] == 'ok' else str(g)
        chk(f'kps.{nm}/{cls}', A, bad is None, bad, lambda: f'import pyglove as pg\ns = {sa}\nassert sorted(str(p) for p in s) == {sorted(str(KP(list(q))) for q in mA)!r}')
      # include_intermediate (set built with the flag throughout): all prefixes are members.
      if A:
        g = _out(lambda: KPS([KP(list(p)) for p in A], include_intermediate=True))
        wanti = {p[:i] for p in mA for i in range(len(p) + 1)}
        bad = _agrees(g[1], wanti, universe + [('a', 'b', 'c')[:i] for i in range(4)]) if g[0] == 'ok' else str(g)
        chk(f'kps.include_intermediate/{cls if cls != "root-member" else "general"}', A, bad is None, bad,
            lambda: f'import pyglove as pg\ns = pg.KeyPathSet([{", ".join(_kp_src(p) for p in A)}], include_intermediate=True)\nassert sorted(str(p) for p in s) == {sorted(str(KP(list(q))) for q in wanti)!r}')
  # == / != between different sets.
  subs = list(subsets(U[:6]))
  for A in subs:
    for B in subs:
      a, b = _mk(A), _mk(tuple(reversed(B)))
      same = set(A) == set(B)
      chk(f'kps.eq-is-set-equality/{_ps_class(A, B)}', (A, B), (a == b) == same and (a != b) == (not same), f'== -> {a == b}, sets {"equal" if same else "differ"}',
          lambda: f'import pyglove as pg; assert ({_src_set(A)} == {_src_set(tuple(reversed(B)))}) is {same}')
  # equality after different histories that lead to the same set.
  r = rng(seed, 'c10-kps')
  for _ in range(300 if tier == 'quick' else 5000):
    s, model, hist = KPS(), set(), []
    for _ in range(r.randrange(1, 14)):
      p = r.choice(U)
      op = r.choice(['add', 'add', 'remove'])
      hist.append((op, p))
      if op == 'add':
        s.add(KP(list(p)))
        model.add(p)
      else:
        s.remove(KP(list(p)))
        model.discard(p)
    bad = _agrees(s, model, U)
    cls = 'empty-result' if not model else 'general'
    chk(f'kps.random-history.state/{cls}', tuple(hist), bad is None, bad,
        lambda: 'import pyglove as pg\ns = pg.KeyPathSet()\n' + ''.join(f's.{o}({_kp_src(q)})\n' for o, q in hist)
        + f'assert sorted(str(p) for p in s) == {sorted(str(KP(list(q))) for q in model)!r} and bool(s) is {bool(model)} and s == {_src_set(sorted(model, key=repr))}')
  return rec.result()



def _safe(drv):
  """Last resort: an exception that escapes a driver is reported as a failed case
  (with the traceback), not as a checker error."""
  import functools as _ft
  import traceback as _tb

  @_ft.wraps(drv)
  def run(tier, seed):
    try:
      return drv(tier, seed)
    except Exception as e:  # pylint: disable=broad-except
      tb = _tb.format_exc()
      return dict(title=drv.__name__, scope='aborted by an unexpected exception', cases=1, distinct_nontrivial=1,
                  failures=[dict(case_id=f'unexpected-exception/{drv.__name__}', message=tb[-600:], count=1, input='',
                                 witness=f'raise AssertionError({(type(e).__name__ + ": " + str(e))[:300]!r})')],
                  samples=[])
  return run


DRIVERS = [_safe(d) for d in (drv_roundtrip, drv_arith, drv_query, drv_lookup_options, drv_traverse, drv_flatten, drv_keypathset)]


def replay(rec):
  """Re-executes rec['witness']; returns (ok, message)."""
  try:
    exec(rec['witness'], {})  # pylint: disable=exec-used
    return True, 'witness passes'
  except Exception as e:  # pylint: disable=broad-except
    return False, f'{type(e).__name__}: {e}'
