"""C09 bounded drivers: change notification contract + freshness of derived facts.

Oracle (from the property statement):

* A mutating call that returns normally with notifications enabled: every
  symbolic ancestor-or-self of every changed location that can observe events
  (pg.Object subclass overriding `_on_change` / `_on_bound`, pg.Dict / pg.List
  with `onchange_callback`) gets exactly ONE event for the call; no other
  pre-existing object gets one; a receiver is notified before its ancestors;
  the event's keys are exactly the changed locations relative to the receiver;
  `old_value` is the object that was there before (MISSING_VALUE if none) and
  `new_value` is the object that is there now (MISSING_VALUE if removed).
  The expected locations are computed from the operation itself (model), not
  from what the library reports.  For list insertion/removal the location is
  the index of the inserted/removed element (pyglove's documented convention);
  a location reported with a negative index gets its own case id.
* Inside `pg.notify_on_change(False)` or with `skip_notification=True`: no
  event at all.  `notify_parents=False`: nothing above the rebound object.
* A call that changes nothing (same object assigned, empty update): no event.
* After every step every symbolic node's derived facts (sym_partial,
  is_partial, sym_missing, sym_nondefault, sym_puresymbolic, is_pure_symbolic,
  sym_abstract, is_abstract, is_deterministic + pg.is_* functions) equal the
  facts of the same node of `pg.from_json(pg.to_json(root))` (fresh objects,
  nothing memoised).  All facts are queried before every step so that stale
  memoisation is observable.  This holds whether or not anybody listens: the
  trees include roots of every kind (Object with/without handlers, Dict and
  List with/without callback) and trees without a single listener.
* "Per call" means per call, however the call names its changes: a mapping
  plus keyword arguments (update / rebind), pairs plus keywords, a path dict
  plus keywords, a generator: one event per receiver with all the locations; a
  key named through both channels is one location (keyword wins, as for
  dict.update).
* What a receiver gets does not depend on its class relatives: a subclass of a
  plain class overriding `_on_change`, an inherited override, a mixin override,
  a functor subclass -- in every order in which the classes get their first
  notification in the process (fresh classes per scenario).
* "Every mutating call" includes the library's own helpers that change a tree
  in place on the caller's behalf (pg.patching.patch_on_key / _path / _value /
  _type / _member, pg.patching.patch with a dict, function, Patcher object,
  URI or list rule, Patcher.patch, pg.symbolic.deref(recursive=True)): one
  call = one event per affected receiver, and none inside a disabled scope /
  with skip_notification=True.  The locations a helper changes are computed
  from its documented selection rule (key / path / value / type / member of
  class) on inputs where that rule is unambiguous.
* An option left at (or explicitly given) its neutral value does not change
  the contract: skip_notification=False with notifications enabled delivers
  as usual, skip_notification=None inside a disabled scope delivers nothing.
* Repetition counts and element counts are input classes of their own:
  `l *= n` for n < 0, 0, 1, 2, 3 (4), extend / slice growth by 3 elements --
  always ONE call, hence one event per receiver with all the locations.
* A call is "inside a notifications-disabled scope" iff the innermost
  `pg.notify_on_change` scope of the calling thread that is still open says
  False -- however inner scopes were left (normally or by an exception).
* A mutating call made from INSIDE a running handler (`_on_change` /
  `_on_bound` override, onchange_callback, `_on_change` of a functor subclass;
  also `_on_init` / `_on_bound` at construction, `_on_parent_change`,
  `_on_path_change` of another object) is a mutating call like any other: with
  the default skip_notification=None (or =False, or inside the handler's own
  notify_on_change(True)) it delivers one event per affected ancestor, children
  first, with the values it replaced / wrote; the outer call still delivers
  its own events with the values IT replaced / wrote, whatever the handler did
  afterwards; with skip_notification=True / inside the handler's own
  notify_on_change(False) the nested call delivers nothing; after the outer
  call returned all derived facts are fresh and the next ordinary call
  delivers as usual (also when the handler raised).  The scope a handler runs
  in is the caller's: nobody entered a disabled scope on its behalf.
* Unbinding a functor argument (`del f.arg`, `del f.sym_init_args['arg']`,
  rebind to MISSING_VALUE) is a mutation of the location `arg`: from the bound
  value to the default (or to "missing" for a required argument).  Unbinding
  what is not bound (or resetting a value that already is the default)
  changes no location: no event (own case id
  `reset-to-default/value-already-default`).
"""
import itertools
import re
import traceback

import pyglove as pg
from pyvc.bounded import Recorder, rng

MISSING = pg.MISSING_VALUE

# --------------------------------------------------------------------------
# Classes / factories; source text is kept for self-contained witnesses.
# --------------------------------------------------------------------------

PRE_HEAD = 'import pyglove as pg\nT=pg.typing;LOG=[]\n'
PRE_PARTS = {
    'P': '''class P(pg.Object):
  allow_symbolic_assignment=True
  a:T.Int();b:T.Any(default=None);k:T.Dict([('m',T.Int(default=3)),('n',T.Any(default=None))]);l:T.List(T.Any(),default=[])
  def _on_change(s,u):LOG.append(('c',s,dict(u)));super()._on_change(u)
  def _on_bound(s):LOG.append(('b',s))
''',
    'B': '''class B(pg.Object):
  allow_symbolic_assignment=True
  u:T.Any(default=None);t:T.Int(default=0)
  def _on_bound(s):LOG.append(('b',s))
''',
    'Q': '''class Q(pg.Object):
  allow_symbolic_assignment=True
  z:T.Any(default=None);r:T.Int()
''',
    # A functor with a required argument, one with a default and one holding
    # anything; Fy: a subclass of it with handlers.
    'Fx': '''@pg.functor([('x',T.Any()),('y',T.Any(default=1)),('z',T.Any(default=None))])
def Fx(x,y=1,z=None):return x
''',
    'Fy': '''class Fy(Fx):
  def _on_change(s,u):LOG.append(('c',s,dict(u)));super()._on_change(u)
''',
    # An object whose life-cycle handlers run a one-shot action (ARM[kind]).
    'Hk': '''ARM={}
def ACT(k):
  f=ARM.pop(k,None)
  if f:f()
class Hk(pg.Object):
  v:T.Any(default=None)
  def _on_init(s):super()._on_init();ACT('init')
  def _on_bound(s):super()._on_bound();ACT('bound')
  def _on_parent_change(s,o,n):super()._on_parent_change(o,n);ACT('parent')
  def _on_path_change(s,o,n):super()._on_path_change(o,n);ACT('path')
''',
    # who(): the container an event was delivered to (a clone of a Dict shares
    # the callback of its origin, so the closure alone cannot tell).
    'who': '''def who(h,u):
  for k,f in u.items():
    t=f.target
    while t is not None and len(t.sym_path)!=len(f.path)-len(k):t=t.sym_parent
    if t is not None:return t
  return h[0]
''',
    'cbd': '''def cbd(**kw):
  h=[];d=pg.Dict(onchange_callback=lambda u:LOG.append(('c',who(h,u),dict(u))),**kw);h.append(d);return d
''',
    'cbl': '''def cbl(v):
  h=[];l=pg.List(v,onchange_callback=lambda u:LOG.append(('c',who(h,u),dict(u))));h.append(l);return l
''',
    # Registered patchers (re-registration under the same name is allowed).
    'c09_set': '''@pg.patcher([('path',T.Str()),('v',T.Int())])
def c09_set(src,path,v):return {path:v}
''',
    'c09_bump': '''@pg.patcher([('d',T.Int())])
def c09_bump(src,d):return lambda k,v:v+d if isinstance(v,int) and not isinstance(v,bool) else v
''',
}
# The same head for scenarios in which a handler mutates: H maps (event tag,
# id(receiver)) to a one-shot function that runs INSIDE the handler, right
# after the handler logged its event.
PRE_HEAD_H = '''import pyglove as pg
T=pg.typing;H={}
class _L(list):
  def append(s,e):
    list.append(s,e);f=H.pop((e[0],id(e[1])),None)
    if f:f()
LOG=_L()
'''
_NS = {'__name__': __name__}
exec(compile(PRE_HEAD_H + ''.join(PRE_PARTS.values()), '<c09-pre>', 'exec'), _NS)  # pylint: disable=exec-used
LOG, H = _NS['LOG'], _NS['H']
P, B, Q, cbd, cbl = (_NS[_k] for _k in ('P', 'B', 'Q', 'cbd', 'cbl'))
Fx, Fy, Hk, ARM = _NS['Fx'], _NS['Fy'], _NS['Hk'], _NS['ARM']
c09_set, c09_bump = _NS['c09_set'], _NS['c09_bump']
SHORT_PRE = ('import pyglove as pg\n'
             'from bounded.c09_notify import P, B, Q, cbd, cbl, LOG, c09_set, '
             'c09_bump, Fx, Fy, H, Hk, ARM, _warm, _ids, _events\n')

TREES = {
    'objs': "P(a=1, b=P(a=2, b=B(u=Q(z=1, r=1)), l=[1, cbd(x=1)]), "
            "k=dict(m=4), l=[B(), 2])",
    'conts': "cbd(a=1, b=cbl([1, cbd(c=2), pg.Dict(d=cbl([3, 4]))]), "
             "e=pg.Dict(f=P(a=1), g=5))",
    'abstract': "pg.Dict(p=P.partial(b=pg.oneof([1, 2])), "
                "q=cbl([Q.partial(z=P(a=1)), 7]), s=B(u=[1, 2]))",
    'deep': "B(u=cbl([P(a=1, k=dict(n=cbd(x=B(t=1)))), 5, 3]))",
    # Roots of every kind x listener configuration.  'abstract' has a Dict
    # root without callback, 'conts' one with; the trees below add a List root
    # without / with callback and an Object root without any handler, with no
    # listener anywhere ('bare-*': nobody to notify, facts must still be fresh)
    # or only below the root.
    'bare-list': "pg.List([1, Q(z=[2, 3], r=1), pg.Dict(d=4)])",
    'bare-obj': "Q(z=pg.Dict(d=[1, Q.partial()], e=cbl([2])), r=1)",
    'cb-list': "cbl([1, pg.Dict(d=[2, B()]), 3])",
}
SMALL_TREES = ('bare-list', 'bare-obj', 'cb-list')
# Trees only used by drv_helpers (references cannot be serialized, so the
# generic mutator alphabet and the derived-facts oracle are not run on them).
REF_TREES = {
    'refs': "cbd(a=P(a=1, b=pg.Ref(Q(z=1, r=2))), "
            "e=pg.Dict(f=B(u=pg.Ref(cbd(x=1))), g=cbl([3, pg.Ref(B(t=2))])), "
            "r=pg.Ref(B()))",
}
# Trees with functors (bound / unbound / partially bound arguments, a functor
# subclass with handlers), stand-alone and inside a tree: drv_functor_args and
# drv_in_handler.
FN_TREES = {
    'fn-root': "Fx(1, y=pg.oneof([1, 2]), z=P.partial())",
    'fy-root': "Fy(x=Q.partial(), y=5)",
    'fn-tree': "cbd(f=Fx(1, y=pg.oneof([1, 2])), p=P(a=1, b=Fy(x=B(u=Fx(2, "
               "z=7)), y=1, z=[1, cbd(c=2)])), l=cbl([Fx(x=3, y=2, "
               "z=Q.partial())]))",
}
TREE_SRC = dict(TREES, **REF_TREES, **FN_TREES)
_CODE = {}


def _eval(src):
  c = _CODE.get(src)
  if c is None:
    c = _CODE[src] = compile(src, '<c09>', 'eval')
  return eval(c, _NS)  # pylint: disable=eval-used


def _exec(src, **env):
  c = _CODE.get(('x', src))
  if c is None:
    c = _CODE[('x', src)] = compile(src, '<c09-op>', 'exec')
  ns = dict(_NS)
  ns.update(env)
  exec(c, ns)  # pylint: disable=exec-used


def preamble(*srcs, hooks=False):
  text = ' '.join(srcs)
  out = PRE_HEAD_H if hooks else PRE_HEAD
  if 'cbd(' in text or 'cbl(' in text:
    out += PRE_PARTS['who']
  for name, part in PRE_PARTS.items():
    if name != 'who' and (name + '(' in text or name + '.' in text or
                          name + '?' in text or
                          (name == 'Fx' and 'Fy' in text)):
      out += part
  return out


def build(tree):
  return _eval(TREE_SRC[tree])


def kind_of(v):
  if isinstance(v, pg.List):
    return 'list'
  if isinstance(v, pg.Dict):
    return 'dict'
  if isinstance(v, pg.Object):
    return 'object'
  return None


def sym_nodes(root):
  out = []

  def walk(v):
    out.append((tuple(v.sym_path.keys), v))
    for _, c in v.sym_items():
      # A reference is a leaf: what it points to is not part of this tree.
      if isinstance(c, pg.Symbolic) and not isinstance(c, pg.Ref):
        walk(c)
  walk(root)
  return out


def pstr(keys):
  return str(pg.KeyPath(list(keys))) if keys else ''


def node_expr(keys):
  return 'root' if not keys else f'root.sym_get({pstr(keys)!r})'


def resolve(root, keys):
  return root if not keys else root.sym_get(pg.KeyPath(list(keys)))


def observable(n):
  """'change' / 'bound' / None: what this node can observe."""
  if isinstance(n, P):
    return 'change+bound'
  if isinstance(n, Fy):   # (functors do not re-run _on_bound on a change)
    return 'change'
  if isinstance(n, B):
    return 'bound'
  if isinstance(n, (pg.Dict, pg.List)):
    if getattr(n, '_onchange_callback', None) is not None:
      return 'change'
  return None


# --------------------------------------------------------------------------
# Derived facts
# --------------------------------------------------------------------------

_JSON_CACHE = {}


def norm(v):
  if isinstance(v, pg.Symbolic):
    r = _JSON_CACHE.get(id(v))
    if r is None:
      r = _JSON_CACHE[id(v)] = ('sym', type(v).__name__, repr(pg.to_json(v)))
    return r
  if isinstance(v, dict):
    return {str(k): norm(x) for k, x in v.items()}
  if pg.MISSING_VALUE == v:
    return 'MISSING'
  if isinstance(v, (list, tuple)):
    return [norm(x) for x in v]
  return repr(v)


FACTS = [
    ('sym_partial', lambda x: x.sym_partial),
    ('is_partial', lambda x: x.is_partial),
    ('pg.is_partial', pg.is_partial),
    ('sym_missing()', lambda x: norm(x.sym_missing())),
    ('sym_missing(flatten=False)', lambda x: norm(x.sym_missing(flatten=False))),
    ('missing_values()', lambda x: norm(x.missing_values())),
    ('sym_nondefault()', lambda x: norm(x.sym_nondefault())),
    ('sym_nondefault(flatten=False)',
     lambda x: norm(x.sym_nondefault(flatten=False))),
    ('non_default_values()', lambda x: norm(x.non_default_values())),
    ('sym_puresymbolic', lambda x: x.sym_puresymbolic),
    ('is_pure_symbolic', lambda x: x.is_pure_symbolic),
    ('pg.is_pure_symbolic', pg.is_pure_symbolic),
    ('sym_abstract', lambda x: x.sym_abstract),
    ('is_abstract', lambda x: x.is_abstract),
    ('pg.is_abstract', pg.is_abstract),
    ('is_deterministic', lambda x: x.is_deterministic),
    ('pg.is_deterministic', pg.is_deterministic),
]
FACT_SRC = {
    'pg.is_partial': 'pg.is_partial(x)', 'pg.is_abstract': 'pg.is_abstract(x)',
    'pg.is_pure_symbolic': 'pg.is_pure_symbolic(x)',
    'pg.is_deterministic': 'pg.is_deterministic(x)'}


def facts(x):
  return {name: fn(x) for name, fn in FACTS}


def all_facts(root, focus=None):
  _JSON_CACHE.clear()   # ids are only stable while the tree is untouched
  try:
    return {keys: facts(n) for keys, n in sym_nodes(root)
            if focus is None or keys in focus}
  finally:
    _JSON_CACHE.clear()


def fresh_copy(root):
  return pg.from_json(pg.to_json(root), allow_partial=True)


ALL_NODES = [False]   # thorough tier: compare facts at every node


def stale_facts(root, focus=None):
  """[(node_keys, fact_name, got, want)] comparing to a deserialized copy.

  focus: key tuples of the nodes to compare (None = all nodes).
  """
  if ALL_NODES[0]:
    focus = None
  got = all_facts(root, focus)
  want = all_facts(fresh_copy(root), focus)
  out = []
  for keys, f in got.items():
    w = want.get(keys)
    if w is None:
      out.append((keys, 'node-missing-in-copy', None, None))
      continue
    for name, v in f.items():
      if v != w[name]:
        out.append((keys, name, v, w[name]))
  return out


# --------------------------------------------------------------------------
# Operation generator.  An op is a dict:
#   name   case-id stem (operation + input class)
#   at     keys of the node bound to `n`
#   src    statement(s) using `n`
#   exp    [(relkeys_from_n, post)] expected changed locations; post is
#          'SET' (new value is what is at the same location afterwards),
#          'INS' (like SET, for an inserted list element: old is MISSING),
#          'DEL' (removed -> MISSING_VALUE), or ('AT', relkeys) (new value is
#          found at another location afterwards, for lists that shifted)
#   nochange   True when the call must not produce any event
# --------------------------------------------------------------------------

VALUES = ['{i}', 'pg.oneof([{i}, 0])', 'P.partial()', 'P(a={i})', 'cbd(w={i})',
          "{{'w': {i}}}", '[{i}, 1]', 'Q.partial()', 'None', 'B(t={i})',
          'cbl([{i}])']
INT_VALUES = ['{i}']
_counter = itertools.count(100)


def _vals(r, n, int_only=False):
  pool = INT_VALUES if int_only else VALUES
  if r is None:
    picked = pool[:n] if n < len(pool) else pool
  else:
    picked = [r.choice(pool) for _ in range(n)]
  return [v.format(i=next(_counter)) for v in picked]


def _field_int_only(n, key):
  f = n.sym_attr_field(key)
  return f is not None and isinstance(f.value, pg.typing.Int)


def _const_key(n, key):
  f = n.sym_attr_field(key)
  return f is not None and isinstance(f.key, pg.typing.ConstStrKey)


def _int_leaves(n, rel=()):
  out = []
  for k, v in n.sym_items():
    if isinstance(v, pg.Symbolic):
      out += _int_leaves(v, rel + (k,))
    elif isinstance(v, int) and not isinstance(v, bool):
      out.append(rel + (k,))
  return out


def dict_ops(at, n, r, nvals):
  ops = []
  keys = list(n.sym_keys())
  has_spec = n.value_spec is not None
  def add(name, src, exp, **kw):
    ops.append(dict(name=name, at=at, src=src, exp=exp, **kw))
  settable = [k for k in keys]
  newkey = None if has_spec and not any(
      isinstance(f.key, pg.typing.NonConstKey)
      for f in n.value_spec.schema.fields.values()) else 'nk'
  while newkey in keys:
    newkey += 'x'
  for k in ([keys[0], keys[-1]] if len(keys) > 1 else keys):
    for v in _vals(r, nvals, _field_int_only(n, k)):
      add('dict.setitem/existing-key', f'n[{k!r}] = {v}', [((k,), 'SET')])
    v1, v2, v3, v4 = (_vals(r, 1, _field_int_only(n, k)) * 4)[:4]
    add('dict.setattr/existing-key', f'n.{k} = {v1}', [((k,), 'SET')])
    add('dict.rebind/dict-1', f'n.rebind({{{k!r}: {v2}}})', [((k,), 'SET')])
    add('dict.rebind/kwargs-1', f'n.rebind({k}={v3})', [((k,), 'SET')])
    add('dict.update', f'n.update({{{k!r}: {v4}}})', [((k,), 'SET')],
        variant='dict-1')
    add('dict.ior', f'n |= {{{k!r}: {v4}}}', [((k,), 'SET')])
    add('dict.setitem/same-object', f'n[{k!r}] = n.sym_getattr({k!r})', [],
        nochange=True)
    add('dict.rebind/same-object',
        f'n.rebind({{{k!r}: n.sym_getattr({k!r})}}, raise_on_no_change=False)',
        [], nochange=True)
    add('dict.setdefault/existing-key', f'n.setdefault({k!r}, 5)', [],
        nochange=True)
    if not _const_key(n, k):
      add('dict.delitem', f'del n[{k!r}]', [((k,), 'DEL')])
      add('dict.delattr', f'del n.{k}', [((k,), 'DEL')])
      add('dict.pop', f'n.pop({k!r})', [((k,), 'DEL')])
      add('dict.rebind/delete', f'n.rebind({{{k!r}: pg.MISSING_VALUE}})',
          [((k,), 'DEL')])
    elif not pg.eq(n.sym_getattr(k), n.sym_attr_field(k).default_value):
      add('dict.delitem/const-key-resets-default', f'del n[{k!r}]',
          [((k,), 'SET')])
      add('dict.rebind/const-key-resets-default',
          f'n.rebind({{{k!r}: pg.MISSING_VALUE}})', [((k,), 'SET')])
    elif not isinstance(n.sym_getattr(k), pg.Symbolic):
      add(ALREADY_DEFAULT, f'del n[{k!r}]', [], nochange=True,
          variant='dict.delitem/const-key')
  if newkey:
    for v in _vals(r, nvals):
      add('dict.setitem/new-key', f'n[{newkey!r}] = {v}', [((newkey,), 'SET')])
    v1, v2, v3, v4, v5 = _vals(r, 5) if r else _vals(None, 5)
    add('dict.setattr/new-key', f'n.{newkey} = {v1}', [((newkey,), 'SET')])
    add('dict.setdefault/new-key', f'n.setdefault({newkey!r}, {v2})',
        [((newkey,), 'SET')])
    add('dict.rebind/kwargs-new-key', f'n.rebind({newkey}={v3})',
        [((newkey,), 'SET')])
    add('dict.update', f'n.update({newkey}={v4})', [((newkey,), 'SET')],
        variant='kwargs-new-key')
    add('dict.update', f'n.update([({newkey!r}, {v5})])',
        [((newkey,), 'SET')], variant='pairs-new-key')
    if keys:
      k = keys[-1]
      a, b = _vals(r, 1, _field_int_only(n, k))[0], _vals(r, 1)[0]
      add('dict.update', f'n.update({{{k!r}: {a}, {newkey!r}: {b}}})',
          [((k,), 'SET'), ((newkey,), 'SET')], variant='dict-2')
      add('dict.rebind/dict-2', f'n.rebind({{{k!r}: {a}, {newkey!r}: {b}}})',
          [((k,), 'SET'), ((newkey,), 'SET')])
    k2, k3 = newkey + '2', newkey + '3'
    if k2 not in keys and k3 not in keys:
      x, y, z = _vals(r, 3) if r else _vals(None, 3)
      three = [((newkey,), 'SET'), ((k2,), 'SET'), ((k3,), 'SET')]
      add('dict.update', f'n.update({{{newkey!r}: {x}, {k2!r}: {y}, '
          f'{k3!r}: {z}}})', three, variant='dict-3')
      add('dict.rebind/dict-3', f'n.rebind({{{newkey!r}: {x}, {k2!r}: {y}, '
          f'{k3!r}: {z}}})', three)
  _combined_arg_ops(add, n, r, keys, newkey, 'dict', 'n')
  add('dict.update', 'n.update({})', [], nochange=True, variant='empty')
  add('dict.pop/absent-key-default', "n.pop('nope', None)", [], nochange=True)
  if keys and not has_spec:
    add('dict.popitem', 'n.popitem()', [((list(n.keys())[-1],), 'DEL')])
    add('dict.clear', 'n.clear()', [((k,), 'DEL') for k in keys])
  _batch_ops(add, n, r, 'dict')
  ints = _int_leaves(n)
  if ints:
    add('dict.rebind/fn', 'n.rebind(lambda k, v: 77 if isinstance(v, int) '
        'and not isinstance(v, bool) else v)', [(p, 'SET') for p in ints])
  return ops


def object_ops(at, n, r, nvals):
  ops = []
  def add(name, src, exp, **kw):
    ops.append(dict(name=name, at=at, src=src, exp=exp, **kw))
  keys = list(n.sym_keys())
  for k in keys:
    f = n.sym_attr_field(k)
    if isinstance(f.value, (pg.typing.Dict, pg.typing.List)):
      vals = (["{{'m': {i}}}".format(i=next(_counter))]
              if isinstance(f.value, pg.typing.Dict) else
              ['[{i}, 2]'.format(i=next(_counter)),
               '[P.partial(), {i}]'.format(i=next(_counter))])
    else:
      vals = _vals(r, nvals, _field_int_only(n, k))
    for v in vals:
      add('object.setattr', f'n.{k} = {v}', [((k,), 'SET')])
    v = vals[0]
    add('object.rebind/kwargs-1', f'n.rebind({k}={v})', [((k,), 'SET')])
    add('object.rebind/dict-1', f'n.rebind({{{k!r}: {v}}})', [((k,), 'SET')])
    add('object.sym_rebind', f'n.sym_rebind({{{k!r}: {v}}})', [((k,), 'SET')])
    add('object.sym_init_args.setitem', f'n.sym_init_args[{k!r}] = {v}',
        [((k,), 'SET')])
    add('dict.update', f'n.sym_init_args.update({k}={v})', [((k,), 'SET')],
        variant='object-attr-dict')
    add('object.setattr/same-object', f'n.{k} = n.sym_getattr({k!r})', [],
        nochange=True)
    add('object.rebind/same-object',
        f'n.rebind({k}=n.sym_getattr({k!r}), raise_on_no_change=False)', [],
        nochange=True)
    cur = n.sym_getattr(k)
    if (n.allow_partial or f.value.has_default) and not pg.eq(
        cur, f.default_value) and MISSING != cur:
      add('object.rebind/reset-to-default-or-missing',
          f'n.rebind({k}=pg.MISSING_VALUE)', [((k,), 'SET')])
  if len(keys) >= 2:
    k1, k2 = keys[0], keys[1]
    a = _vals(r, 1, _field_int_only(n, k1))[0]
    b = _vals(r, 1, _field_int_only(n, k2))[0]
    add('object.rebind/kwargs-2', f'n.rebind({k1}={a}, {k2}={b})',
        [((k1,), 'SET'), ((k2,), 'SET')])
  if isinstance(n, pg.Functor):
    _functor_unbind_ops(add, n)
  _combined_arg_ops(add, n, r, keys, None, 'object', 'n')
  _batch_ops(add, n, r, 'object')
  ints = _int_leaves(n)
  if ints:
    add('object.rebind/fn', 'n.rebind(lambda k, v: 77 if isinstance(v, int) '
        'and not isinstance(v, bool) else v)', [(p, 'SET') for p in ints])
  return ops


ALREADY_DEFAULT = 'reset-to-default/value-already-default'


def _functor_unbind_ops(add, n):
  """`del f.arg` (and the same through the attribute dict) per argument class.

  A bound argument is reset: to its default (the location changes from the
  bound value to the default) or, without default, to "missing".  Unbinding
  an argument that is not bound, or is bound to the very default value,
  changes no location.
  """
  for f in type(n).__schema__.fields.values():
    if not isinstance(f.key, pg.typing.ConstStrKey):
      continue
    k = f.key.text
    cur = n.sym_getattr(k, MISSING) if n.sym_hasattr(k) else MISSING
    dflt = f.default_value if f.value.has_default else MISSING
    if not isinstance(cur, pg.Symbolic) and (
        (MISSING == cur and MISSING == dflt) or
        (MISSING != cur and MISSING != dflt and cur == dflt and
         type(cur) is type(dflt))):  # pylint: disable=unidiomatic-typecheck
      add(ALREADY_DEFAULT, f'del n.{k}', [], nochange=True,
          variant='functor.delattr')
      continue
    cls = 'arg-with-default' if f.value.has_default else 'required-arg'
    add(f'functor.delattr/{cls}', f'del n.{k}', [((k,), 'SET')],
        must_succeed=True)
    add(f'functor.sym_init_args.delitem/{cls}', f'del n.sym_init_args[{k!r}]',
        [((k,), 'SET')], must_succeed=True)


def _combined_arg_ops(add, n, r, keys, newkey, kind, recv):
  """One call that names its changes through SEVERAL argument channels.

  update(mapping, **kwargs), update(pairs, **kwargs), rebind(dict, **kwargs):
  one call = one event per receiver carrying all the locations, whatever the
  channel a location was named through; a key named through both channels is
  one location (the keyword wins, as for dict.update).
  """
  idents = [k for k in keys if isinstance(k, str) and k.isidentifier()]
  if not idents:
    return
  k1 = idents[0]
  k2 = newkey if newkey else (idents[-1] if len(idents) > 1 else None)
  val = lambda k: _vals(r, 1, _field_int_only(n, k) if k in keys else False)[0]
  def typed(k):
    f = n.sym_attr_field(k) if k in keys else None
    if f is not None and isinstance(f.value, pg.typing.Dict):
      return "{{'m': {i}}}".format(i=next(_counter))
    if f is not None and isinstance(f.value, pg.typing.List):
      return '[{i}]'.format(i=next(_counter))
    return val(k)
  upd = 'n.update' if kind == 'dict' else 'n.sym_init_args.update'
  pre = 'dict.update' if kind == 'dict' else 'object.sym_init_args.update'
  if k2 is not None:
    a, b = typed(k1), typed(k2)
    both = [((k1,), 'SET'), ((k2,), 'SET')]
    add(f'{pre}/mapping+kwargs', f'{upd}({{{k1!r}: {a}}}, {k2}={b})', both)
    add(f'{pre}/pairs+kwargs', f'{upd}([({k2!r}, {b})], {k1}={a})', both)
    add(f'{kind}.rebind/dict+kwargs', f'n.rebind({{{k1!r}: {a}}}, {k2}={b})',
        both)
    add(f'{kind}.rebind/dict+kwargs-no-notify-parents',
        f'n.rebind({{{k2!r}: {b}}}, {k1}={a}, notify_parents=False)', both,
        notify_parents=False)
  a, b = typed(k1), typed(k1)
  if a != b:
    add(f'{pre}/mapping+kwargs-same-key', f'{upd}({{{k1!r}: {a}}}, {k1}={b})',
        [((k1,), 'SET')])
  # A nested location named by path next to a direct one named by keyword.
  deep = [rel for rel in _descendant_slots(n) if len(rel) >= 2 and
          rel[0] != k1 and all(isinstance(x, (str, int)) for x in rel)]
  if deep:
    rel = deep[0] if r is None else r.choice(deep)
    add(f'{kind}.rebind/path-dict+kwargs',
        f'n.rebind({{{pstr(rel)!r}: {next(_counter)}}}, {k1}={typed(k1)})',
        [(rel, 'SET'), ((k1,), 'SET')])


def _batch_ops(add, n, r, kind):
  """Batched rebind reaching several depths below n in one call."""
  deep = [rel for rel in _descendant_slots(n)]
  if not any(len(rel) >= 2 for rel in deep):
    return
  picks = deep if r is None else r.sample(deep, min(4, len(deep)))
  if r is None:
    # Deterministic spread: shallowest, deepest and two in between.
    deep.sort(key=lambda p: (len(p), str(p)))
    picks = [deep[0], deep[-1], deep[len(deep) // 2], deep[len(deep) // 3]]
  pairs, exp = [], []
  for rel in picks:
    if any(q == rel for q, _ in exp):
      continue
    pairs.append(f'{pstr(rel)!r}: {next(_counter)}')
    exp.append((rel, 'SET'))
  if not any(len(rel) >= 2 for rel, _ in exp):
    return
  body = '{' + ', '.join(pairs) + '}'
  add(f'{kind}.rebind/batch-multi-depth', f'n.rebind({body})', exp)
  add(f'{kind}.rebind/batch-multi-depth-no-notify-parents',
      f'n.rebind({body}, notify_parents=False)', exp, notify_parents=False)


def _descendant_slots(n, rel=()):
  """Relative key tuples of replaceable int leaves below n (Any-typed)."""
  out = []
  for k, v in n.sym_items():
    if isinstance(v, pg.Symbolic):
      if isinstance(v, pg.hyper.OneOf):
        continue
      out += _descendant_slots(v, rel + (k,))
    elif isinstance(v, int) and not isinstance(v, bool):
      out.append(rel + (k,))
  return out


def list_ops(at, n, r, nvals):
  ops = []
  def add(name, src, exp, **kw):
    ops.append(dict(name=name, at=at, src=src, exp=exp, **kw))
  ln = len(n)
  if n.value_spec is not None and not isinstance(
      n.value_spec.element.value, pg.typing.Any):
    return ops   # typed lists (e.g. OneOf.candidates) are left alone
  v = lambda: _vals(r, 1)[0]
  for val in _vals(r, nvals):
    add('list.append', f'n.append({val})', [((ln,), 'SET')])
  add('list.insert/front', f'n.insert(0, {v()})', [((0,), 'INS')])
  add('list.insert/beyond-end', f'n.insert({ln + 5}, {v()})', [((ln,), 'SET')])
  a, b = v(), v()
  add('list.extend', f'n.extend([{a}, {b}])',
      [((ln,), 'SET'), ((ln + 1,), 'SET')])
  add('list.extend/empty', 'n.extend([])', [], nochange=True)
  add('list.extend/generator', f'n.extend(x for x in ({a}, {b}))',
      [((ln,), 'SET'), ((ln + 1,), 'SET')])
  add('list.iadd/tuple', f'n += ({a}, {b})',
      [((ln,), 'SET'), ((ln + 1,), 'SET')])
  add('list.iadd', f'n += [{a}, {b}]', [((ln,), 'SET'), ((ln + 1,), 'SET')])
  add('list.rebind/append', f'n.rebind({{{ln + 3}: {v()}}})',
      [((ln,), 'SET')])
  c3 = v()
  add('list.extend/3-elements', f'n.extend([{a}, {b}, {c3}])',
      [((ln + i,), 'SET') for i in range(3)], must_succeed=True)
  add('list.setitem/slice-append-3', f'n[{ln}:] = [{a}, {b}, {c3}]',
      [((ln + i,), 'SET') for i in range(3)], must_succeed=True)
  if ln:
    # In-place repetition: one call whatever the count; the count classes are
    # below zero, zero, one (nothing changes), two, three and (thorough) four.
    add('list.imul/2', 'n *= 2', [((ln + i,), 'SET') for i in range(ln)],
        must_succeed=True)
    if ln <= 8:
      add('list.imul/3', 'n *= 3',
          [((ln + i,), 'SET') for i in range(2 * ln)], must_succeed=True)
    if ln <= 4 and nvals > 2:
      add('list.imul/4', 'n *= 4',
          [((ln + i,), 'SET') for i in range(3 * ln)], must_succeed=True)
    add('list.imul/1', 'n *= 1', [], nochange=True, must_succeed=True)
    add('list.imul/0', 'n *= 0', [((i,), 'DEL') for i in range(ln)],
        must_succeed=True)
    add('list.imul/negative', 'n *= -2', [((i,), 'DEL') for i in range(ln)],
        must_succeed=True)
    add('list.clear', 'n.clear()', [((i,), 'DEL') for i in range(ln)])
    for i in sorted({0, ln - 1}):
      for val in _vals(r, nvals):
        add('list.setitem/index', f'n[{i}] = {val}', [((i,), 'SET')])
      add('list.delitem/index', f'del n[{i}]', [((i,), 'DEL')])
      add('list.pop/index', f'n.pop({i})', [((i,), 'DEL')])
      add('list.rebind/index', f'n.rebind({{{i}: {v()}}})', [((i,), 'SET')])
      add('list.rebind/delete', f'n.rebind({{{i}: pg.MISSING_VALUE}})',
          [((i,), 'DEL')])
      add('list.rebind/insertion', f'n.rebind({{{i}: pg.Insertion({v()})}})',
          [((i,), 'INS')])
      add('list.setitem/same-object', f'n[{i}] = n.sym_getattr({i})', [],
          nochange=True)
    add('list.setitem/negative-index', f'n[-1] = {v()}', [((ln - 1,), 'SET')],
        negative=True)
    add('list.delitem/negative-index', 'del n[-1]', [((ln - 1,), 'DEL')],
        negative=True)
    add('list.pop/last', 'n.pop()', [((ln - 1,), 'DEL')])
    add('list.pop/negative-index', 'n.pop(-1)', [((ln - 1,), 'DEL')])
    add('list.insert/negative-index', f'n.insert(-1, {v()})',
        [((ln - 1,), 'INS')], negative=True)
    first = n.sym_getattr(0)
    if not isinstance(first, pg.Symbolic):
      add('list.remove', f'n.remove({first!r})', [((0,), 'DEL')])
    # Slices.
    add('list.setitem/slice-grow', f'n[0:1] = [{a}, {b}]',
        [((0,), 'SET'), ((1,), 'INS')])
    add('list.setitem/slice-same-size', f'n[0:1] = [{a}]', [((0,), 'SET')])
    add('list.setitem/slice-insert-only', f'n[1:1] = [{a}, {b}]',
        [((1,), 'INS'), ((2,), 'INS')])
    add('list.reverse', 'n.reverse()',
        [((i,), 'SET') for i in range(ln)
         if n.sym_getattr(i) is not n.sym_getattr(ln - 1 - i)],
        nochange=ln < 2)
    if all(isinstance(x, int) for x in n.sym_values()):
      want = sorted(n.sym_values(), reverse=True)
      ch = [((i,), 'SET') for i in range(ln) if want[i] != n.sym_getattr(i)]
      add('list.sort', 'n.sort(reverse=True)', ch, nochange=not ch)
  if ln >= 2:
    add('list.insert/middle', f'n.insert(1, {v()})', [((1,), 'INS')])
    add('list.setitem/slice-shrink', f'n[0:2] = [{a}]',
        [((0,), 'SET'), ((1,), 'DEL')])
    add('list.setitem/slice-delete-tail', 'n[1:] = []',
        [((i,), 'DEL') for i in range(1, ln)])
    c = v()
    add('list.rebind/batch-delete+set',
        f'n.rebind({{0: pg.MISSING_VALUE, {ln - 1}: {c}}})',
        [((0,), 'DEL'), ((ln - 1,), ('AT', (ln - 2,)))])
    add('list.rebind/batch-insert+set',
        f'n.rebind({{0: pg.Insertion({a}), {ln - 1}: {c}}})',
        [((0,), 'INS'), ((ln - 1,), ('AT', (ln,)))])
    add('list.setitem/slice-step',
        'n[::2] = [' + ', '.join(v() for _ in range((ln + 1) // 2)) + ']',
        [((i,), 'SET') for i in range(0, ln, 2)])
  _batch_ops(add, n, r, 'list')
  ints = _int_leaves(n)
  if ints:
    add('list.rebind/fn', 'n.rebind(lambda k, v: 77 if isinstance(v, int) '
        'and not isinstance(v, bool) else v)', [(p, 'SET') for p in ints])
  return ops


def _locations(n, rel=()):
  """[(relkeys, value, parent)] of every location below n, at every depth."""
  out = []
  for k, v in n.sym_items():
    out.append((rel + (k,), v, n))
    if isinstance(v, pg.Symbolic) and not isinstance(v, pg.Ref):
      out += _locations(v, rel + (k,))
  return out


def _is_int(v):
  return isinstance(v, int) and not isinstance(v, bool)


_MEMBERS = (('P', 'a'), ('B', 't'), ('Q', 'r'))   # Int-typed members


def helper_ops(at, n, r):
  """Library helpers that change the tree below `n` in place, in ONE call.

  The expected locations follow from the documented selection rule of each
  helper; a pattern is only used when every location it selects holds a plain
  int (so that neither the traversal order nor the treatment of absent values
  matters) and, for paths, when the selection is the same whether paths are
  read relative to `n` or to the root.
  """
  ops = []
  locs = _locations(n)
  ints = [rel for rel, v, _ in locs if _is_int(v)]
  if not ints:
    return ops
  # Search-space placeholders constrain their own members (a bumped
  # num_choices is rightly refused); everywhere else an int for an int is an
  # ordinary mutation that has to return normally.
  sure = not any(isinstance(v, pg.hyper.HyperPrimitive) for _, v, _ in locs)
  def add(name, src, exp, **kw):
    ops.append(dict(name=name, at=at, src=src, exp=exp, must_succeed=sure,
                    **kw))
  fresh = lambda: next(_counter)
  pick = (lambda xs: xs[len(xs) // 2]) if r is None else r.choice
  how = ((lambda i, d: f'value={i}') if (r.random() < 0.5 if r else len(at) % 2)
         else (lambda i, d: f'value_fn=lambda v: v + {d}'))
  all_int = lambda sel: bool(sel) and all(_is_int(v) for _, v, _ in sel)
  val_of = {rel: v for rel, v, _ in locs}
  # -- pattern-based helpers ------------------------------------------------
  # (isinstance(True, int): booleans are selected by type int as well.)
  add('patching.patch_on_type', 'pg.patching.patch_on_type(n, int, '
      'value_fn=lambda v: v + 1000)',
      [(rel, 'SET') for rel, v, _ in locs if isinstance(v, int)])
  old = val_of[pick(ints)]
  add('patching.patch_on_value',
      f'pg.patching.patch_on_value(n, {old}, {how(fresh(), 2000)})',
      [(rel, 'SET') for rel, v, _ in locs if _is_int(v) and v == old])
  keys = []
  for key in sorted({str(rel[-1]) for rel in ints}):
    sel = [x for x in locs if str(x[0][-1]) == key]
    if all_int(sel):
      keys.append((key, sel))
  if keys:
    key, sel = pick(keys)
    add('patching.patch_on_key', f"pg.patching.patch_on_key(n, "
        f"{'^' + re.escape(key) + '$'!r}, {how(fresh(), 3000)})",
        [(x[0], 'SET') for x in sel])
  paths = []
  for rel in ints:
    rx = '.*' + re.escape(pstr(rel[-2:])) + '$'
    sel = [x for x in locs if re.match(rx, pstr(x[0]))]
    sel_abs = [x for x in locs if re.match(rx, pstr(at + x[0]))]
    if all_int(sel) and [x[0] for x in sel] == [x[0] for x in sel_abs]:
      paths.append((rx, sel))
  if paths:
    rx, sel = pick(paths)
    add('patching.patch_on_path',
        f'pg.patching.patch_on_path(n, {rx!r}, {how(fresh(), 4000)})',
        [(x[0], 'SET') for x in sel])
  members = []
  for cls, name in _MEMBERS:
    sel = [x for x in locs if isinstance(x[2], _NS[cls]) and x[0][-1] == name]
    if all_int(sel):
      members.append((cls, name, sel))
  if members:
    cls, name, sel = pick(members)
    add('patching.patch_on_member', f'pg.patching.patch_on_member(n, {cls}, '
        f'{name!r}, {how(fresh(), 5000)})', [(x[0], 'SET') for x in sel])
  # -- rule-based helpers -----------------------------------------------------
  slots = _descendant_slots(n)
  bump = [(rel, 'SET') for rel in ints]
  add('patching.patch/function-rule', 'pg.patching.patch(n, lambda k, v: '
      'v + 6000 if isinstance(v, int) and not isinstance(v, bool) else v)',
      bump)
  add('patching.patch/patcher-object-function-rule',
      'pg.patching.patch(n, c09_bump(d=7000))', bump)
  if slots:
    p1 = pick(slots)
    p2 = max(slots, key=lambda q: (len(q), str(q)))
    two = [p1] if p1 == p2 else [p1, p2]
    body = ', '.join(f'{pstr(q)!r}: {fresh()}' for q in two)
    add('patching.patch/dict-rule', f'pg.patching.patch(n, {{{body}}})',
        [(q, 'SET') for q in two])
    add('patching.patch/rule-list-one-effective',
        f'pg.patching.patch(n, [lambda k, v: v, {{{body}}}, {{}}])',
        [(q, 'SET') for q in two])
    add('patching.patch/patcher-object',
        f'pg.patching.patch(n, c09_set(path={pstr(p1)!r}, v={fresh()}))',
        [(p1, 'SET')])
    add('patching.patch/patcher-uri',
        f"pg.patching.patch(n, 'c09_set?path={pstr(p1)}&v={fresh()}')",
        [(p1, 'SET')])
    add('patching.Patcher.patch',
        f'c09_set(path={pstr(p2)!r}, v={fresh()}).patch(n)', [(p2, 'SET')])
  return ops


def gen_ops(root, r=None, nvals=3):
  try:
    return _gen_ops(root, r, nvals)
  except Exception:  # pylint: disable=broad-except
    return []   # tree no longer walkable; the step that broke it was reported


def _gen_ops(root, r=None, nvals=3):
  ops = []
  for keys, n in sym_nodes(root):
    if isinstance(n, pg.hyper.OneOf) or (
        n.sym_parent is not None and isinstance(n.sym_parent, pg.hyper.OneOf)):
      continue
    k = kind_of(n)
    if k == 'dict':
      ops += dict_ops(keys, n, r, nvals)
    elif k == 'list':
      ops += list_ops(keys, n, r, nvals)
    elif k == 'object':
      ops += object_ops(keys, n, r, nvals)
    # Histories (r given) draw the helpers at a seeded third of the nodes.
    if k is not None and (r is None or r.random() < 0.34):
      ops += helper_ops(keys, n, r)
  return ops


# --------------------------------------------------------------------------
# Running one step
# --------------------------------------------------------------------------

def is_strict_desc(a, b):
  """a strictly below b (key tuples)."""
  return len(a) > len(b) and a[:len(b)] == b


def op_src_lines(op, mode):
  lines = [f"n = {node_expr(op['at'])}"]
  src = op['src']
  if mode == 'disabled':
    lines += ['with pg.notify_on_change(False):', f'  {src}']
  elif mode == 'nested-enabled':
    lines += ['with pg.notify_on_change(False):',
              '  with pg.notify_on_change(True):', f'    {src}']
  elif mode == 'skip':
    assert src.endswith(')')
    lines += [src[:-1] + ', skip_notification=True)']
  elif mode == 'skip-false':
    assert src.endswith(')')
    lines += [src[:-1] + ', skip_notification=False)']
  elif mode == 'skip-none':
    assert src.endswith(')')
    lines += [src[:-1] + ', skip_notification=None)']
  elif mode == 'disabled-skip-none':
    assert src.endswith(')')
    lines += ['with pg.notify_on_change(False):',
              '  ' + src[:-1] + ', skip_notification=None)']
  else:
    lines += [src]
  return lines


def takes_skip(op):
  """The call of `op` has a skip_notification keyword."""
  return any(x in op['src'] for x in (
      '.rebind(', '.sym_rebind(', 'pg.patching.patch_on_'))


ENABLED_MODES = ('normal', 'nested-enabled', 'skip-false')
SILENT_MODES = ('disabled', 'skip', 'disabled-skip-none')


def run_step(rec, tree, root, history, op, mode, tag, check_facts=True):
  """See _run_step; a tripping harness is reported, never crashes the driver."""
  try:
    return _run_step(rec, tree, root, history, op, mode, tag, check_facts)
  except Exception as e:  # pylint: disable=broad-except
    hist = [ln for h in history for ln in h]
    body = '\n'.join([f'root = {TREE_SRC[tree]}'] + hist +
                     op_src_lines(op, mode) +
                     ['pg.from_json(pg.to_json(root), allow_partial=True)'])
    rec.case(f"{op['name']}|harness-exception", (tree, tag, op['src'], mode),
             False, f'{type(e).__name__}: {e} while judging {op["src"]!r}: '
             + traceback.format_exc()[-300:], SHORT_PRE + body)
    return False


def _model(n, at, op):
  """(exp, chains) of `op` about to be made on node `n` (at keys `at`).

  exp: [(abs_keys, post, old, target container)] per expected location;
  chains: per location the symbolic ancestors-or-self of the container,
  nearest first, as [(keys, node)].
  """
  exp = []
  for rel, post in op['exp']:
    target = n if len(rel) == 1 else resolve(n, rel[:-1])
    old = target.sym_getattr(rel[-1], MISSING) if target.sym_hasattr(
        rel[-1]) else MISSING
    if post == 'INS':   # inserted list element: nothing was there before
      old, post = MISSING, 'SET'
    exp.append((at + tuple(rel), post, old, target))
  chains = []   # per expected location: observers-to-be, nearest first
  for abs_keys, post, old, target in exp:
    chain = []
    t = target
    while t is not None:
      tk = tuple(t.sym_path.keys)
      if op.get('notify_parents') is False and not (
          tk == at or is_strict_desc(tk, at)):
        break
      # The attribute dict of an object is not a node of its own.
      if not (isinstance(t, pg.Dict) and t.sym_parent is not None and
              tuple(t.sym_parent.sym_path.keys) == tk):
        chain.append((tk, t))
      t = t.sym_parent
    chains.append(chain)
  return exp, chains


def _run_step(rec, tree, root, history, op, mode, tag, check_facts=True):
  """Executes `op` on root in `mode`; returns False if the history must stop.

  mode: 'normal' | 'nested-enabled' | 'skip-false' (skip_notification=False
  with notifications enabled): events as usual; 'disabled' | 'skip' |
  'disabled-skip-none' (skip_notification=None inside a disabled scope): none.
  """
  at = op['at']
  n = resolve(root, at)
  exp, chains = _model(n, at, op)
  pre_nodes = sym_nodes(root)
  pre_ids = {id(x): keys for keys, x in pre_nodes}
  # --- execute -------------------------------------------------------------
  lines = op_src_lines(op, mode)
  del LOG[:]
  err = None
  try:
    _exec('\n'.join(lines[1:]), n=n, root=root)
  except Exception as e:  # pylint: disable=broad-except
    err = e
  log = list(LOG)
  del LOG[:]
  # A location whose value is the very same object as before did not change
  # (e.g. `x.u = None` while it is None, an int rebound to the same int).
  receivers = {}   # id -> (keys, node, [(abs, post, old)])
  if err is None:
    for (abs_keys, post, old, _), chain in zip(exp, chains):
      if post != 'DEL' and MISSING != old:
        loc = abs_keys if post == 'SET' else (
            abs_keys[:-len(post[1])] + post[1])
        try:
          if resolve(root, loc[:-1]).sym_getattr(loc[-1]) is old:
            continue
        except Exception:  # pylint: disable=broad-except
          pass
      for tk, t in chain:
        receivers.setdefault(id(t), (tk, t, []))[2].append(
            (abs_keys, post, old))
  silent = (mode in SILENT_MODES or op.get('nochange') or not receivers)
  hist_lines = [ln for h in history for ln in h]
  key = (tree, tag, tuple(ln for ln in hist_lines), at, op['src'], mode)

  def wit(assert_lines, warm=False):
    body = '\n'.join(
        [f'root = {TREE_SRC[tree]}'] + hist_lines + ([_WARM] if warm else []) +
        [_PRE_IDS, 'del LOG[:]'] + lines + assert_lines)
    pre = preamble(TREE_SRC[tree], body, hooks='H[(' in body)
    if len(pre) + len(body) > 1190 or '_warm(' in body:
      pre = SHORT_PRE   # keep the witness within the recorder's size limit
    return pre + body

  if err is not None:
    if op.get('must_succeed'):
      # An ordinary mutation (no schema, permission or constraint stands in
      # its way) in whatever notification scope: raising is a failure.
      rec.case(f"{op['name']}|returns-normally", key, False,
               f'{lines}: raised {type(err).__name__}: {err}', wit([]))
      return False
    # The call did not return normally: nothing is claimed about it.
    rec.case('op-raised(not-judged)', key, True, nontrivial=False)
    return False
  if op.get('must_succeed'):
    rec.case(f"{op['name']}|returns-normally", key, True)
  stem = op['name']
  suffix = {'normal': '', 'disabled': '|notify_on_change(False)',
            'nested-enabled': '',
            'skip': '|skip_notification=True',
            'skip-false': '|skip_notification=False',
            'disabled-skip-none':
                '|notify_on_change(False)+skip_notification=None'}[mode]
  if (op.get('nochange') or not receivers) and mode in ENABLED_MODES:
    suffix = '|no-change'
  ok_all = True

  changes = [(e[1], e[2]) for e in log if e[0] == 'c']
  bounds = [e[1] for e in log if e[0] == 'b' and id(e[1]) in pre_ids]
  ev_id = f'{stem}|events{suffix}'
  if silent:
    got = [pstr(tuple(x.sym_path.keys)) for x, _ in changes] + [
        pstr(tuple(x.sym_path.keys)) for x in bounds]
    ok_all &= rec.case(
        ev_id, key, not changes and not bounds,
        f'{lines}: expected no event, got events at {got}',
        wit(["bad = [(t, str(x.sym_path)) for t, x, *_ in LOG "
             "if id(x) in pre]", "assert not bad, bad"]))
  else:
    problems = []
    seen = {}
    for x, upd in changes:
      seen.setdefault(id(x), []).append((x, upd))
    # Exactly-once per expected receiver, nothing else.
    for rid, (rk, rnode, items) in receivers.items():
      obs = observable(rnode)
      if obs is None:
        continue
      if 'change' in obs:
        got = seen.get(rid, [])
        if len(got) != 1:
          problems.append(('count', f'{pstr(rk)!r} got {len(got)} _on_change '
                           f'events, want 1'))
        else:
          problems += check_payload(root, rk, items, got[0][1], op)
      if 'bound' in obs:
        cnt = sum(1 for x in bounds if x is rnode)
        if cnt != 1:
          problems.append(('count', f'{pstr(rk)!r} got {cnt} _on_bound '
                           f'calls, want 1'))
    for x, upd in changes:
      if id(x) not in receivers:
        problems.append(('stranger', f'object at '
                         f'{pstr(tuple(x.sym_path.keys))!r} ({type(x).__name__}'
                         f') got an event {list(map(str, upd))} but is not an '
                         f'ancestor of a changed location'))
    for x in bounds:
      if id(x) not in receivers:
        problems.append(('stranger', f'_on_bound on unaffected object '
                         f'{pstr(tuple(x.sym_path.keys))!r}'))
    # Children before parents.
    order = [pre_ids.get(id(x)) for x, _ in changes]
    for i in range(len(order)):
      for j in range(i + 1, len(order)):
        if order[i] is not None and order[j] is not None and is_strict_desc(
            order[j], order[i]):
          problems.append(('order', f'{pstr(order[i])!r} notified before its '
                           f'descendant {pstr(order[j])!r}'))
    border = [pre_ids.get(id(x)) for x in bounds]
    for i in range(len(border)):
      for j in range(i + 1, len(border)):
        if is_strict_desc(border[j], border[i]):
          problems.append(('order', f'_on_bound of {pstr(border[i])!r} before '
                           f'its descendant {pstr(border[j])!r}'))
    kinds = sorted({p[0] for p in problems})
    for kind in (kinds or ['ok']):
      msgs = [m for k_, m in problems if k_ == kind]
      cid = ev_id if kind in ('ok', 'count', 'stranger', 'payload') else (
          f'{stem}|events-{kind}{suffix}')
      if kind == 'negative-index-path':
        cid = 'list.negative-index|event-path-not-canonical'
      ok_all &= rec.case(
          cid, key, kind == 'ok', f'{lines}: ' + '; '.join(msgs[:4]),
          wit(expect_asserts(receivers, kind)) if kind != 'ok' else '')
  # --- derived facts -------------------------------------------------------
  if (check_facts and mode in ENABLED_MODES and
      op.get('notify_parents') is not False):
    # Nodes whose facts can have changed: every ancestor-or-self of a changed
    # location (all nodes in the thorough tier).
    focus = set()
    for abs_keys, _, _, _ in exp:
      for i in range(len(abs_keys)):
        focus.add(abs_keys[:i])
    focus.add(at)
    try:
      stale = stale_facts(root, focus)
    except Exception as e:  # pylint: disable=broad-except
      stale = [((), f'facts-raised {type(e).__name__}: {e}', None, None)]
    if stale:
      keys, name, got, want = stale[0]
      access = FACT_SRC.get(name, f'x.{name}')
      w = wit([f'x = {node_expr(keys)}',
               'y = pg.from_json(pg.to_json(root), allow_partial=True)',
               'f = ' + node_expr(keys).replace('root', 'y', 1),
               f'got, want = {access}, {access.replace("x", "f", 1)}',
               'assert pg.eq(got, want) or repr(got) == repr(want), '
               "f'stale {got!r} != fresh {want!r}'"], warm=True)
      ok_all &= rec.case(
          f'{stem}|derived-facts{suffix}', key, False,
          f'{lines}: {name} at {pstr(keys)!r} is {got!r}, fresh copy gives '
          f'{want!r} (+{len(stale) - 1} more)', w)
    else:
      rec.case(f'{stem}|derived-facts{suffix}', key, True)
  return ok_all


_WARM = ('for v in [root] + root.sym_descendants(lambda v: isinstance(v, '
         'pg.Symbolic)): v.sym_missing(), v.sym_nondefault(), '
         'v.sym_puresymbolic')
_WARM_T = _WARM.replace('root', 't')
_PRE_IDS = ('pre = {id(v) for v in [root] + root.sym_descendants(lambda v: '
            'isinstance(v, pg.Symbolic))}')


def check_payload(root, rk, items, upd, op, snap=None):
  """Compares one receiver's event with the model."""
  problems = []
  got = {}
  for kp, fu in upd.items():
    got[tuple(kp.keys)] = fu
  want = {abs_keys[len(rk):]: (post, old, abs_keys)
          for abs_keys, post, old in items}
  gk, wk = set(got), set(want)
  if gk != wk:
    # Negative list indices: canonicalise and report under a separate id.
    canon = {}
    for k in gk:
      canon[k] = k
      if k not in wk and isinstance(k[-1], int) and k[-1] < 0:
        for w in wk:
          if w[:-1] == k[:-1] and isinstance(w[-1], int) and op.get(
              'negative'):
            canon[k] = w
    if {canon[k] for k in gk} == wk:
      problems.append(('negative-index-path',
                       f'receiver {pstr(rk)!r}: reported locations '
                       f'{sorted(map(pstr, gk))}, changed locations '
                       f'{sorted(map(pstr, wk))}'))
      got = {canon[k]: v for k, v in got.items()}
    else:
      problems.append(('payload', f'receiver {pstr(rk)!r}: reported locations '
                       f'{sorted(map(pstr, gk))}, changed locations '
                       f'{sorted(map(pstr, wk))}'))
      return problems
  for rel, (post, old, abs_keys) in want.items():
    fu = got[rel]
    if isinstance(old, pg.Symbolic):
      same_old = fu.old_value is old
    else:
      same_old = (MISSING == old and MISSING == fu.old_value) or (
          MISSING != old and MISSING != fu.old_value and fu.old_value == old
          and type(fu.old_value) is type(old))  # pylint: disable=unidiomatic-typecheck
    if not same_old:
      problems.append(('payload', f'receiver {pstr(rk)!r} location '
                       f'{pstr(rel)!r}: old_value {fu.old_value!r}, true old '
                       f'value {old!r}'))
    if post == 'DEL':
      if MISSING != fu.new_value:
        problems.append(('payload', f'receiver {pstr(rk)!r} location '
                         f'{pstr(rel)!r}: new_value {fu.new_value!r} for a '
                         f'removed item'))
    else:
      loc = abs_keys if post == 'SET' else abs_keys[:-len(post[1])] + post[1]
      try:
        now = (resolve(root, loc[:-1]).sym_getattr(loc[-1]) if snap is None
               else snap[abs_keys])
      except Exception as e:  # pylint: disable=broad-except
        now = e
      same_new = (fu.new_value is now) if isinstance(now, pg.Symbolic) else (
          not isinstance(now, Exception) and fu.new_value == now and
          type(fu.new_value) is type(now))  # pylint: disable=unidiomatic-typecheck
      if not same_new:
        problems.append(('payload', f'receiver {pstr(rk)!r} location '
                         f'{pstr(rel)!r}: new_value {fu.new_value!r}, value '
                         f'now at {pstr(loc)!r} is {now!r}'))
    if tuple(fu.path.keys) != abs_keys and not (
        op.get('negative') and tuple(fu.path.keys)[:-1] == abs_keys[:-1]):
      problems.append(('payload', f'FieldUpdate.path {fu.path!r} != '
                       f'{pstr(abs_keys)!r}'))
  return problems


def expect_asserts(receivers, kind):
  """Assertion lines of a witness for an event failure of class `kind`."""
  want, want_b = [], []
  for _, (rk, rnode, items) in receivers.items():
    obs = observable(rnode) or ''
    if 'change' in obs:
      want.append((pstr(rk), sorted(pstr(a[len(rk):]) for a, _, _ in items)))
    if 'bound' in obs:
      want_b.append(pstr(rk))
  out = ["ev = [(str(x.sym_path), sorted(map(str, u))) for t, x, *r in LOG "
         "if t == 'c' for u in r]"]
  if kind == 'order':
    out += ['K = lambda p: pg.KeyPath.parse(p).keys',
            'assert all(i < j or a == b or K(a)[:len(K(b))] != K(b) '
            'for i, (a, _) in enumerate(ev) for j, (b, _) in enumerate(ev)), '
            "f'parent notified before child: {ev}'"]
  else:
    out += [f'want = {sorted(want)!r}',
            "assert sorted(ev) == want, f'events {sorted(ev)} != {want}'",
            "nb = sorted(str(x.sym_path) for t, x, *r in LOG if t == 'b' "
            'and id(x) in pre)',
            f'assert nb == {sorted(want_b)!r}, nb']
  return out


# --------------------------------------------------------------------------
# Drivers
# --------------------------------------------------------------------------

def _warm(root):
  """Queries every memoised fact at every node (so staleness can show)."""
  for _, n in sym_nodes(root):
    n.sym_missing()
    n.sym_nondefault()
    n.sym_puresymbolic  # pylint: disable=pointless-statement


def drv_single_ops(tier, seed):
  rec = Recorder(
      'C09', 'every mutator once on every node of 7 trees: events '
      '(exactly-once, bottom-up, exact payload, nobody else) + derived facts '
      'vs deserialized copy',
      scope='7 trees (objects with _on_change/_on_bound overrides, Dict/List '
      'with callbacks, partial + pure-symbolic parts, depth<=6; roots: Object '
      'with/without handlers, Dict and List with/without callback; 2 trees '
      'without any listener) x every '
      'symbolic node (facts compared at every ancestor-or-self of a changed '
      'location in quick, at every node in thorough) x every list/dict/object mutator (incl. batched and '
      'functional rebind, slices, in-place operators, update/setdefault/pop/'
      'popitem/clear/sort/reverse, same-object no-ops, deleting a fixed key '
      'that already holds its default; l *= n for n in -2, 0, '
      '1, 2, 3 (4 thorough); growth by 3 elements/keys) x 3 (quick) / 11 '
      '(thorough) new-value classes; + the in-place helpers of pg.patching '
      '(patch_on_key/path/value/type/member with value or value_fn on patterns '
      'selecting only int leaves; patch with dict / function / Patcher object '
      '/ URI / list rule; Patcher.patch) at every node; each op also under '
      'notify_on_change(False), nested (False>True) and, where the call has '
      'the keyword, skip_notification=True / =False (enabled) / =None '
      '(disabled scope), for one value')
  nvals = 2 if tier == 'quick' else len(VALUES)
  ALL_NODES[0] = tier != 'quick'
  r = rng(seed, 'c09-single')
  _single_ops(rec, TREES, tier, r, nvals)
  return rec.result()


def _single_ops(rec, trees, tier, r, nvals, select=None):
  """Every generated op (passing `select`) once, in every notification mode."""
  for tree in trees:
    proto_ops = gen_ops(build(tree), None, nvals)
    if select is not None:
      proto_ops = [o for o in proto_ops if select(tree, o)]
    seen_modes = set()
    for i, op in enumerate(proto_ops):
      root = build(tree)
      _warm(root)
      run_step(rec, tree, root, [], op, 'normal', 'single')
      # Variants with notifications off: once per (op name, node) in quick.
      mkey = (op['name'], op['at'] if tier != 'quick' else len(op['at']) > 1)
      if mkey in seen_modes and (tier == 'quick' or r.random() < 0.5):
        continue
      seen_modes.add(mkey)
      if op.get('nochange'):
        continue
      for mode in ('disabled', 'nested-enabled', 'skip', 'skip-false',
                   'disabled-skip-none'):
        if mode in ('skip', 'skip-false', 'disabled-skip-none') and (
            not takes_skip(op)):
          continue
        if mode == 'nested-enabled' and tier == 'quick' and i % 3:
          continue
        if mode in ('skip-false', 'disabled-skip-none') and (
            tier == 'quick' and tree not in ('objs', 'conts', 'fn-tree') and
            not op['name'].startswith('patching.')):
          continue
        root = build(tree)
        _warm(root)
        run_step(rec, tree, root, [], op, mode, 'single')


def _is_functor_at(tree, at):
  try:
    return isinstance(resolve(build(tree), at), pg.Functor)
  except Exception:  # pylint: disable=broad-except
    return False


def drv_functor_args(tier, seed):
  rec = Recorder(
      'C09', 'binding / unbinding functor arguments (`del f.arg`, the same '
      'through the attribute dict, assignment, rebind) stand-alone and inside '
      'a tree, after the derived facts were queried: one event per affected '
      'ancestor, derived facts vs deserialized copy',
      scope='3 trees: a stand-alone plain functor, a stand-alone functor '
      'subclass with _on_change, a tree Dict(callback) > functor / '
      'Object(handlers) > functor subclass > Object(_on_bound) > functor / '
      'List(callback) > functor; arguments: required, with default, bound to '
      'a plain value, to a search-space placeholder, to a partial object, to '
      'a list, bound to the default value itself, unbound; every binding / '
      'unbinding call (thorough: every object mutator) at every functor node '
      'in every notification mode + quick: 6 '
      '(thorough: 150) seeded histories of length<=4 per tree in which every '
      'other step unbinds an argument')
  r = rng(seed, 'c09-fn')
  ALL_NODES[0] = tier != 'quick'
  nvals = 1 if tier == 'quick' else 4
  fn_at = {}

  binders = ('functor.', ALREADY_DEFAULT, 'object.setattr', 'object.rebind/',
             'object.sym_init_args.')

  def at_functor(tree, op):
    k = (tree, op['at'])
    if k not in fn_at:
      fn_at[k] = _is_functor_at(tree, op['at'])
    # (quick: the calls that bind / unbind arguments; thorough: all of them)
    return fn_at[k] and (tier != 'quick' or op['name'].startswith(binders))
  _single_ops(rec, FN_TREES, tier, r, nvals, at_functor)
  for tree in FN_TREES:
    for h in range(6 if tier == 'quick' else 150):
      root = build(tree)
      _warm(root)
      history = []
      for i in range(r.randint(2, 4)):
        ops = [o for o in gen_ops(root, r, 1)
               if o.get('notify_parents') is not False]
        unbind = [o for o in ops if o['name'].startswith('functor.')]
        if i % 2 == h % 2 and unbind:
          ops = unbind
        if not ops:
          break
        op = r.choice(ops)
        mode = 'normal' if r.random() < 0.85 else 'nested-enabled'
        if not run_step(rec, tree, root, history, op, mode, f'fn{h}'):
          break
        history.append(op_src_lines(op, mode))
  return rec.result()


def drv_histories(tier, seed):
  rec = Recorder(
      'C09', 'histories of mutations; events + derived facts checked after '
      'every step (all facts queried before each step)',
      scope='7 trees; quick: 45 seeded random histories of length<=5 per tree '
      '+ all 2-step histories whose first step is one of 10 sampled ops and '
      'second one of 25 sampled (20 / 5 x 12 for the 3 small root-kind trees); '
      'thorough: 500 random histories of length<=7 '
      '+ first step from 60 sampled x second from 80 sampled')
  r = rng(seed, 'c09-hist')
  ALL_NODES[0] = tier != 'quick'
  n_rand, max_len = (45, 5) if tier == 'quick' else (500, 7)
  n_first, n_second = (10, 25) if tier == 'quick' else (60, 80)
  # A failing step ends its history (stale state would only produce echoes);
  # operations that already failed in this run are then picked rarely so
  # that the remaining histories stay long.
  bad = set()   # op names that already failed in this run

  def pick(ops):
    for _ in range(30):
      op = r.choice(ops)
      if op.get('nochange') and r.random() < 0.7:
        continue
      if op['name'] in bad and r.random() < 0.9:
        continue
      return op
    return op
  full = (n_rand, n_first, n_second)
  for tree in TREES:
    n_rand, n_first, n_second = full
    if tree in SMALL_TREES and tier == 'quick':
      n_rand, n_first, n_second = 20, 5, 12
    for h in range(n_rand):
      root = build(tree)
      _warm(root)
      history = []
      for _ in range(r.randint(2, max_len)):
        ops = [o for o in gen_ops(root, r, 1)
               if o.get('notify_parents') is not False]
        if not ops:
          break
        op = pick(ops)
        x = r.random()
        mode = ('normal' if x < 0.9 else 'skip-false'
                if x < 0.94 and takes_skip(op) else 'nested-enabled')
        ok = run_step(rec, tree, root, history, op, mode, f'rand{h}')
        if not ok:
          bad.add(op['name'])
          break
        history.append(op_src_lines(op, mode))
    firsts = gen_ops(build(tree), None, 1)
    firsts = [o for o in firsts if not o.get('nochange') and
              o.get('notify_parents') is not False]
    for f in r.sample(firsts, min(n_first, len(firsts))):
      probe = build(tree)
      _warm(probe)
      if not run_step(rec, tree, probe, [], f, 'normal', 'pair-first'):
        continue
      seconds = gen_ops(probe, r, 1)
      for s in r.sample(seconds, min(n_second, len(seconds))):
        root = build(tree)
        _warm(root)
        try:
          _exec('\n'.join(op_src_lines(f, 'normal')[1:]),
                n=resolve(root, f['at']), root=root)
        except Exception:  # pylint: disable=broad-except
          break
        del LOG[:]
        _warm(root)
        try:
          resolve(root, s['at'])
        except Exception:  # pylint: disable=broad-except
          continue
        run_step(rec, tree, root, [op_src_lines(f, 'normal')], s, 'normal',
                 'pair')
  return rec.result()


# --------------------------------------------------------------------------
# Receiver classes: what a receiver gets must not depend on which OTHER
# classes (bases, siblings, subclasses) were notified earlier in the process.
# --------------------------------------------------------------------------

HIER_HEAD = '''import pyglove as pg
T=pg.typing;LOG=[];L={}
C=lambda s,u:LOG.append(('c',L.get(id(s),'?'),{str(k):(f.old_value,f.new_value) for k,f in u.items()}))
OC='def _on_change(s,u):C(s,u);super(K,s)._on_change(u)'
'''
# name -> (dependencies, source, what it observes, role for the case id)
HIER = {
    'Plain': ((), '''class Plain(pg.Object):
  x:T.Int(default=0);c:T.Dict([('v',T.Int(default=0))]);o:T.Any(default=None)
''', '', 'plain'),
    'Tracked': (('Plain',), '''class Tracked(Plain):exec(OC.replace('K','Tracked'))
''', 'c', 'on_change-override-below-plain-class'),
    'Heir': (('Tracked',), '''class Heir(Tracked):pass
''', 'c', 'inherited-on_change-override'),
    'Quiet': (('Plain',), '''class Quiet(Plain):pass
''', '', 'plain-sibling-of-override'),
    'Bound': (('Plain',), '''class Bound(Plain):
  def _on_bound(s):LOG.append(('b',L.get(id(s),'?')))
''', 'b', 'on_bound-only'),
    'Both': (('Bound',), '''class Both(Bound):exec(OC.replace('K','Both'))
''', 'cb', 'on_change-override-below-on_bound-only-class'),
    'Mix': ((), '''class Mix:exec(OC.replace('K','Mix'))
''', None, None),
    'Mixed': (('Mix', 'Plain'), '''class Mixed(Mix,Plain):pass
''', 'c', 'on_change-from-mixin'),
    'Fn': ((), '''@pg.functor([('x',T.Int()),('c',T.Dict([('v',T.Int(default=0))])),('o',T.Any(default=None))])
def Fn(x,c,o=None):return x
''', '', 'functor'),
    'TFn': (('Fn',), '''class TFn(Fn):exec(OC.replace('K','TFn'))
''', 'c', 'on_change-override-below-functor'),
}
HIER_CLASSES = [k for k, v in HIER.items() if v[3]]
HIER_TAIL = '''def mk(K,n,**kw):
  m=len(LOG);t=K(x=1,c=dict(v=1),**kw);L[id(t)]=n;del LOG[m:];return t
def inroot(t,n):
  m=len(LOG);r=pg.Dict(t=t,onchange_callback=lambda u:C(r,u));L[id(r)]=n;del LOG[m:];return r
'''


def _hier_src(names=None):
  need = []

  def want(k):
    if k not in need:
      for d in HIER[k][0]:
        want(d)
      need.append(k)
  for k in (names or HIER):
    want(k)
  return HIER_HEAD + ''.join(HIER[k][1] for k in HIER if k in need) + HIER_TAIL


def _hier_events(chain, changes):
  """Expected deliveries of one call, from the class table and the operation.

  chain: bottom-up [(label, class or 'cb' (Dict with callback), own)], `own`
  being the receiver's path relative to the topmost object of the chain.
  changes: {location relative to the topmost object: (old, new)}.
  Returns ([(label, {location relative to receiver: (old, new)})], [labels of
  receivers overriding _on_bound]), both bottom-up.
  """
  c, b = [], []
  for label, cls, own in chain:
    if own.startswith('^'):    # receiver is ABOVE the topmost object
      mine = {own[1:] + k: v for k, v in changes.items()}
    else:
      mine = {k[len(own):]: v for k, v in changes.items() if k.startswith(own)}
    if not mine:
      continue
    if cls == 'cb' or 'c' in HIER[cls][2]:
      c.append((label, mine))
    if cls != 'cb' and 'b' in HIER[cls][2]:
      b.append(label)
  return c, b


def _hier_steps(steps):
  """[(setup_line, [(op_src, shape, main_class, want_c, want_b)])] per step.

  steps: ('in-dict', K) | ('standalone', K) | ('nested', A, B).
  """
  out = []
  for i, st in enumerate(steps):
    shape = st[0]
    if shape == 'in-dict':
      k = st[1]
      t, r = f't{i}', f'r{i}'
      chain = [(t, k, ''), (r, 'cb', '^t.')]
      setup = f"{t}=mk({k},'{t}');{r}=inroot({t},'{r}')"
      ops = [
          (f"{t}.rebind({{'x':5,'c.v':7}})", {'x': (1, 5), 'c.v': (1, 7)}),
          (f'{t}.c.v=8', {'c.v': (7, 8)}),
          (f"{r}.rebind({{'t.x':9}})", {'x': (5, 9)}),
          (f'with pg.notify_on_change(False):{t}.rebind(x=11)', {}),
          (f'{t}.rebind(x=12,skip_notification=True)', {}),
          (f'{t}.c.rebind(v=13)', {'c.v': (8, 13)}),
      ]
    elif shape == 'standalone':
      k = st[1]
      t = f's{i}'
      chain = [(t, k, '')]
      setup = f"{t}=mk({k},'{t}')"
      ops = [(f'{t}.rebind(x=2)', {'x': (1, 2)}),
             (f'{t}.c.v=3', {'c.v': (1, 3)})]
    else:
      k, inner = st[1], st[2]
      ta, tb = f'a{i}', f'b{i}'
      chain = [(tb, inner, 'o.'), (ta, k, '')]
      setup = f"{tb}=mk({inner},'{tb}');{ta}=mk({k},'{ta}',o={tb})"
      ops = [(f'{ta}.o.rebind(x=3)', {'o.x': (1, 3)}),
             (f"{ta}.rebind({{'o.c.v':4,'x':6}})",
              {'o.c.v': (1, 4), 'x': (1, 6)}),
             (f'{ta}.rebind(x=7)', {'x': (6, 7)})]
    out.append((setup, [(src, shape, k) + _hier_events(chain, ch)
                        for src, ch in ops]))
  return out


_HIER_MOD = 'c09_hier_scratch'


def _hier_run(rec, tag, steps):
  """Fresh class hierarchy, then the steps; every call judged on its own."""
  import sys    # pylint: disable=g-import-not-at-top
  import types  # pylint: disable=g-import-not-at-top
  sys.modules.setdefault(_HIER_MOD, types.ModuleType(_HIER_MOD))
  ns = {'__name__': _HIER_MOD}
  exec(compile(_hier_src(), '<c09-hier>', 'exec'), ns)  # pylint: disable=exec-used
  log = ns['LOG']
  label_cls = {}
  for i, st in enumerate(steps):
    if st[0] == 'in-dict':
      label_cls[f't{i}'], label_cls[f'r{i}'] = st[1], 'cb'
    elif st[0] == 'standalone':
      label_cls[f's{i}'] = st[1]
    else:
      label_cls[f'a{i}'], label_cls[f'b{i}'] = st[1], st[2]
  done = []
  used = [c for st in steps for c in st[1:]]
  key0 = (tag, tuple('/'.join(st) for st in steps))
  for setup, ops in _hier_steps(steps):
    exec(setup, ns)  # pylint: disable=exec-used
    done.append(setup)
    for src, shape, main, want_c, want_b in ops:
      del log[:]
      try:
        exec(src, ns)  # pylint: disable=exec-used
      except Exception:  # pylint: disable=broad-except
        rec.case('op-raised(not-judged)', key0 + (src,), True, nontrivial=False)
        del log[:]
        continue
      got = list(log)
      del log[:]
      got_c = [(e[1], e[2]) for e in got if e[0] == 'c']
      got_b = [e[1] for e in got if e[0] == 'b']
      body = '\n'.join(done + [
          'del LOG[:]', src, "c=[e[1:] for e in LOG if e[0]=='c'];"
          "b=[e[1] for e in LOG if e[0]=='b']",
          f'assert c=={want_c!r} and b=={want_b!r},(c,b)'])
      w = _hier_src(used) + body
      if len(w) > 1190:
        w = ('from bounded.c09_notify import hier_replay\n'
             f'hier_replay({steps!r}, {src!r})')
      silent = 'notify_on_change(False)' in src or 'skip_notif' in src
      sfx = '|notifications-off' if silent else ''
      main_role = HIER[main][3]
      labels = sorted({lb for lb, _ in want_c} | set(want_b) |
                      {lb for lb, _ in got_c} | set(got_b))
      if not labels:
        rec.case(f'receiver-class/{main_role}|events{sfx}',
                 key0 + (src,), True)
      for lb in labels:
        cls = label_cls.get(lb)
        role = ('dict-callback-above-object' if cls == 'cb' else
                HIER[cls][3] if cls else 'object-outside-the-tree')
        mine_c = [u for x, u in got_c if x == lb]
        want_mine = [u for x, u in want_c if x == lb]
        mine_b = got_b.count(lb)
        ok = mine_c == want_mine and mine_b == want_b.count(lb)
        rec.case(f'receiver-class/{role}|events{sfx}', key0 + (src, lb),
                 ok, f'{tag} {steps}: after {done}, `{src}`: receiver {lb} '
                 f'({cls}) got change events {mine_c} and {mine_b} _on_bound '
                 f'calls, want {want_mine} and {want_b.count(lb)}', w)
      # Children before parents (only judged when the right set was delivered).
      order_ok = True
      if sorted(x for x, _ in got_c) == sorted(x for x, _ in want_c):
        order_ok &= [x for x, _ in got_c] == [x for x, _ in want_c]
      if sorted(got_b) == sorted(want_b):
        order_ok &= got_b == want_b
      rec.case(f'receiver-class/{main_role}|events-order',
               key0 + (src,), order_ok,
               f'{tag} {steps}: `{src}`: delivery order {got_c} / {got_b}, '
               f'want children first: {want_c} / {want_b}', w)
      done.append(src)


def hier_replay(steps, src):
  """Witness helper for scenarios too long to inline; raises on failure."""
  bad = []

  class _Rec(Recorder):

    def case(self, case_id, key, ok, message='', witness='', nontrivial=True):
      if not ok and src in key:
        bad.append(f'{case_id}: {message}')
      return ok
  _hier_run(_Rec('C09', 'replay', 'replay'), 'replay',
            [tuple(st) for st in steps])
  assert not bad, bad[0]


def drv_receiver_classes(tier, seed):
  rec = Recorder(
      'C09', 'events delivered to receivers of related classes (override of '
      '_on_change / _on_bound in a subclass of a plain class, inherited '
      'override, mixin, functor subclass) in every order of first notification',
      scope='9 classes in one hierarchy, created afresh per scenario; quick: '
      'all ordered pairs (X notified first, then Y) + all (outer, inner) class '
      'pairs nested in one tree + 12 seeded random permutations of all classes '
      '(standalone or below a Dict with callback) followed by 4 repeats in '
      'the other position and 4 nested pairs; thorough: + all ordered triples '
      '+ 150 permutations; per object: batched rebind, write through the '
      'attribute dict, rebind from the root, notifications off / skipped')
  r = rng(seed, 'c09-hier')
  cl = HIER_CLASSES
  for x in cl:
    for y in cl:
      if x != y:
        _hier_run(rec, 'pair', [('in-dict', x), ('in-dict', y)])
  for a in cl:
    for b in cl:
      _hier_run(rec, 'nested', [('nested', a, b)])
  if tier != 'quick':
    for t3 in itertools.permutations(cl, 3):
      _hier_run(rec, 'triple', [('in-dict', k) for k in t3])
  for _ in range(12 if tier == 'quick' else 150):
    order = r.sample(cl, len(cl))
    steps = [(r.choice(['in-dict', 'standalone']), k) for k in order]
    steps += [(('standalone', 'in-dict')[s[0] == 'standalone'], s[1])
              for s in r.sample(steps, 4)]
    steps += [('nested', r.choice(cl), r.choice(cl)) for _ in range(4)]
    _hier_run(rec, 'perm', steps)
  return rec.result()


# --------------------------------------------------------------------------
# notify_on_change scopes: nesting x the way each scope is left.
# --------------------------------------------------------------------------

_SCOPE_PRE = '''a=P(a=1);cnt=iter(range(10,99));got=[]
def ev():
  del LOG[:];a.rebind(b=next(cnt))
  got.append(sum(1 for e in LOG if e[0]=='c' and e[1] is a))
'''


def _scope_script(scopes, exits, level=0, enclosing=True):
  """(lines, want): one mutating call at every point of the nesting.

  scopes: values passed to pg.notify_on_change, outermost first; exits: per
  scope 'normal' or 'exception' (a refused rebind, caught just outside the
  scope).  want: 1 where the innermost enclosing scope says enabled (no scope:
  enabled), else 0.
  """
  if level == len(scopes):
    return [], []
  v = scopes[level]
  pad = '  ' * (2 * level)
  inner, inner_want = _scope_script(scopes, exits, level + 1, v)
  lines = [pad + 'try:', pad + f'  with pg.notify_on_change({v}):',
           pad + '    ev()'] + inner
  want = [int(v)] + inner_want
  if exits[level] == 'exception':
    lines.append(pad + "    a.rebind(a='refused')")
  else:
    lines.append(pad + '    ev()')
    want.append(int(v))
  lines += [pad + 'except TypeError:pass', pad + 'ev()']
  want.append(int(enclosing))
  return lines, want


def _scope_cases(rec):
  for depth in (1, 2, 3):
    for scopes in itertools.product((True, False), repeat=depth):
      for exits in itertools.product(('normal', 'exception'), repeat=depth):
        lines, want = _scope_script(scopes, exits)
        src = _SCOPE_PRE + '\n'.join(lines) + '\n'
        ns = dict(_NS, pg=pg)
        try:
          exec(src, ns)  # pylint: disable=exec-used
          got = ns['got']
        except Exception as e:  # pylint: disable=broad-except
          got = f'{type(e).__name__}: {e}'
        del LOG[:]
        how = ('all-left-normally' if 'exception' not in exits else
               'left-by-exception')
        nest = 'single-scope' if depth == 1 else 'nested-scopes'
        rec.case(f'notify_on_change/{nest}-{how}|events', (scopes, exits),
                 got == want,
                 f'scopes {scopes} left {exits}: events per call {got}, want '
                 f'{want} (1 = delivered; every call made where the innermost '
                 f'enclosing scope enables notifications must deliver, the '
                 f'others must not)',
                 preamble('P(') + src + f'assert got=={want!r},got')
  # A scope only covers the thread that entered it.
  import threading  # pylint: disable=g-import-not-at-top
  for v in (True, False):
    res = {}

    def work():
      o = P(a=1)
      with pg.notify_on_change(v):
        ready.set()
        go.wait(5)
        o.rebind(b=5)
      res['n'] = sum(1 for e in LOG if e[0] == 'c' and e[1] is o)
    ready, go = threading.Event(), threading.Event()
    del LOG[:]
    th = threading.Thread(target=work)
    th.start()
    ready.wait(5)
    mine = P(a=1)
    with pg.notify_on_change(not v):
      mine.rebind(b=6)
      go.set()
      th.join(10)
    n_mine = sum(1 for e in LOG if e[0] == 'c' and e[1] is mine)
    del LOG[:]
    rec.case('notify_on_change/scope-in-other-thread|events', v,
             res.get('n') == int(v) and n_mine == int(not v),
             f'thread inside notify_on_change({v}) got {res.get("n")} events '
             f'(want {int(v)}); main thread inside notify_on_change({not v}) '
             f'at the same time got {n_mine} (want {int(not v)})',
             preamble('P(') + f'''import threading
r={{}};ready,go=threading.Event(),threading.Event()
def work():
  o=P(a=1)
  with pg.notify_on_change({v}):
    ready.set();go.wait(5);o.rebind(b=5)
  r['n']=sum(1 for e in LOG if e[0]=='c' and e[1] is o)
th=threading.Thread(target=work);th.start();ready.wait(5);m=P(a=1)
with pg.notify_on_change({not v}):
  m.rebind(b=6);go.set();th.join(10)
assert (r['n'],sum(1 for e in LOG if e[0]=='c' and e[1] is m))==({int(v)},{int(not v)})''')


def drv_misc(tier, seed):
  del tier, seed
  rec = Recorder(
      'C09', 'documented examples and library helpers that mutate symbolic '
      'values: notify_on_change nesting and exits, DNA.set_metadata freshness',
      scope='flags.py docstring example of notify_on_change; all nestings of '
      'notify_on_change(True/False) of depth<=3 x every scope left normally or '
      'by a refused rebind caught outside it, one mutating call at every '
      'point of the nesting; a scope held by another thread; pg.DNA '
      'set_metadata on 3 DNA shapes')
  # notify_on_change docstring example.
  a, b = P(a=1), P(a=1)
  del LOG[:]
  with pg.notify_on_change(False):
    with pg.notify_on_change(True):
      a.rebind(b=1)
    b.rebind(b=2)
  got_a = [e for e in LOG if e[0] == 'c' and e[1] is a]
  got_b = [e for e in LOG if e[0] == 'c' and e[1] is b]
  del LOG[:]
  rec.case('notify_on_change/docstring-example', 'doc',
           len(got_a) == 1 and not got_b,
           f'a got {len(got_a)} events (want 1), b got {len(got_b)} (want 0)',
           preamble('P(') + 'a, b = P(a=1), P(a=1)\ndel LOG[:]\n'
           'with pg.notify_on_change(False):\n'
           '  with pg.notify_on_change(True):\n    a.rebind(b=1)\n'
           '  b.rebind(b=2)\n'
           "assert [e[1] is a for e in LOG if e[0] == 'c'] == [True], LOG")
  _scope_cases(rec)
  # DNA.set_metadata is an ordinary public mutator.
  for name, src in [('leaf', 'pg.DNA(1)'), ('nested', 'pg.DNA([0, (1, 2)])'),
                    ('float', 'pg.DNA(0.5)')]:
    d = _eval(src)
    all_facts(d)
    d.set_metadata('k', 1)
    stale = stale_facts(d)
    rec.case('dna.set_metadata|derived-facts', name, not stale,
             f'{src}.set_metadata: ' + (
                 f'{stale[0][1]} is {stale[0][2]!r}, fresh copy gives '
                 f'{stale[0][3]!r}' if stale else ''),
             f'import pyglove as pg\nd = {src}\nd.sym_nondefault()\n'
             "d.set_metadata('k', 1)\n"
             'fresh = pg.from_json(pg.to_json(d))\n'
             'assert d.sym_nondefault() == fresh.sym_nondefault(), '
             '(d.sym_nondefault(), fresh.sym_nondefault())')
  return rec.result()


def _ref_locations(n, rel=()):
  out = []
  for k, v in n.sym_items():
    if isinstance(v, pg.Ref):
      out.append(rel + (k,))
    elif isinstance(v, pg.Symbolic):
      out += _ref_locations(v, rel + (k,))
  return out


def drv_references(tier, seed):
  del tier, seed
  rec = Recorder(
      'C09', 'pg.symbolic.deref(recursive=True) replaces references in place: '
      'one call, one event per affected receiver, none with notifications off',
      scope='1 tree (Dict with callback > Object with handlers / plain Dict > '
      'Object with _on_bound / List with callback; 4 references at depth '
      '1-3, to an object, a Dict '
      'with callback, an object with _on_bound) x deref at every node that has '
      'a reference below it x enabled / disabled / nested (False>True) scope; '
      'derived facts not compared (references cannot be serialized)')
  for tree in REF_TREES:
    for keys, n in sym_nodes(build(tree)):
      refs = _ref_locations(n)
      if not refs:
        continue
      op = dict(name='symbolic.deref/recursive', at=keys,
                src='pg.symbolic.deref(n, recursive=True)',
                exp=[(rel, 'SET') for rel in refs], must_succeed=True)
      for mode in ('normal', 'disabled', 'nested-enabled'):
        run_step(rec, tree, build(tree), [], op, mode, 'deref',
                 check_facts=False)
  return rec.result()


# --------------------------------------------------------------------------
# Mutations made from INSIDE a running change handler.
#
# A handler (`_on_change` / `_on_bound` override, onchange_callback) that runs
# because of a mutating call T makes another mutating call M -- on its own
# node, on the location T just wrote, below itself, on a sibling, an ancestor
# or in another tree.  M is an ordinary mutating call: unless the handler asks
# otherwise (skip_notification=True, its own notify_on_change(False) scope) it
# delivers one event per affected ancestor, children first, with the values
# that were there before / after M; T still delivers its own (one per affected
# ancestor, with the values T replaced / wrote, whatever M did afterwards);
# after T returned every derived fact is fresh.  The model of every call is
# computed from the call itself at the moment it is made.
# --------------------------------------------------------------------------

_STABLE_LIST_OPS = frozenset((
    'list.append', 'list.extend', 'list.extend/generator', 'list.iadd',
    'list.iadd/tuple', 'list.setitem/index', 'list.pop/last',
    'list.rebind/index', 'list.rebind/append', 'list.imul/2',
    'list.extend/3-elements', 'list.rebind/fn',
    'list.rebind/batch-multi-depth'))


def _stable(op):
  """Ops of these scenarios: change something, tell the parents, and do not
  move the other elements of a list (paths stay what they were)."""
  if op.get('nochange') or op.get('notify_parents') is False or not op['exp']:
    return False
  if any(post not in ('SET', 'DEL') for _, post in op['exp']):
    return False
  name = op['name']
  if name.startswith('list.'):
    return name in _STABLE_LIST_OPS
  return not name.startswith('patching.')


def _node_ops(keys, n, r):
  k = kind_of(n)
  fn = {'dict': dict_ops, 'list': list_ops, 'object': object_ops}.get(k)
  if fn is None or isinstance(n, pg.hyper.OneOf) or isinstance(
      n.sym_parent, pg.hyper.OneOf):
    return []
  try:
    return [o for o in fn(keys, n, r, 1) if _stable(o)]
  except Exception:  # pylint: disable=broad-except
    return []


def _handler_kind(n, tag):
  if isinstance(n, pg.Functor):
    return 'functor-on_change'
  if isinstance(n, pg.Object):
    return 'on_change' if tag == 'c' else 'on_bound'
  return 'dict-callback' if isinstance(n, pg.Dict) else 'list-callback'


RELATIONS = ('same-node', 'same-location', 'descendant', 'sibling', 'ancestor',
             'other-tree')
# How the handler makes its call -> does it deliver?
INNER_MODES = {'normal': True, 'skip-none': True, 'skip-false': True,
               'nested-enabled': True, 'skip': False, 'disabled': False}


def _keys(n):
  return tuple(n.sym_path.keys)


def _is_prefix(a, b):
  return len(a) <= len(b) and b[:len(a)] == a


_PRE_IDS_2 = ('pre = {id(v) for t in (root, other) if t is not None for v in '
              '[t] + t.sym_descendants(lambda v: isinstance(v, pg.Symbolic))}')
_EV_SRC = ("ev = sorted(('o' if x.sym_root is other else 'r', str(x.sym_path), "
           "sorted(map(str, u))) for t, x, *r in LOG if t == 'c' for u in r)")
_NB_SRC = ("nb = sorted(('o' if x.sym_root is other else 'r', str(x.sym_path)) "
           "for t, x, *r in LOG if t == 'b' and id(x) in pre)")


def _ids(*roots):
  """(witness helper) ids of all symbolic nodes of the given trees."""
  return {id(v) for t in roots if t is not None for v in [t] + t.sym_descendants(
      lambda v: isinstance(v, pg.Symbolic))}


def _events(log, other, pre):
  """(witness helper) (change events, _on_bound calls) as sorted lists."""
  ns = dict(LOG=log, other=other, pre=pre)
  exec(_EV_SRC + '\n' + _NB_SRC, ns)  # pylint: disable=exec-used
  return ns['ev'], ns['nb']


class _Call:
  """One mutating call of a scenario and its model."""

  def __init__(self, level, rtag, root, op, mode, n):
    self.level, self.rtag, self.root, self.op, self.mode = (
        level, rtag, root, op, mode)
    self.lines = op_src_lines(op, mode)
    self.exp, self.chains = _model(n, op['at'], op)
    self.n = n
    self.err = None
    self.new = None
    self.delivers = INNER_MODES[mode]

  def snap(self):
    """Remembers what the call left at its locations (once)."""
    if self.new is None:
      self.new = {}
      for abs_keys, post, _, target in self.exp:
        k = abs_keys[-1]
        try:
          self.new[abs_keys] = target.sym_getattr(k, MISSING) if (
              target.sym_hasattr(k)) else MISSING
        except Exception as e:  # pylint: disable=broad-except
          self.new[abs_keys] = e

  def receivers(self):
    """{id: (keys, node, [(abs, post, old)])}: who this call affects."""
    out = {}
    for (abs_keys, post, old, _), chain in zip(self.exp, self.chains):
      if post != 'DEL' and MISSING != old and self.new.get(abs_keys) is old:
        continue   # the very same object: that location did not change
      for tk, t in chain:
        out.setdefault(id(t), (tk, t, []))[2].append((abs_keys, post, old))
    return out


def _in_handler_scenario(rec, r, tree, other_tree, recv_keys, tag, t_op, t_mode,
                         relation, m_mode, depth2, raises):
  """One scenario; returns (the source lines of the scenario, whether every
  call of it delivered) when a follow-up step can be judged, else None."""
  H.clear()
  root = build(tree)
  _warm(root)
  roots = {'r': root}
  if relation == 'other-tree' or depth2:
    roots['o'] = build(other_tree)
    _warm(roots['o'])
  else:
    other_tree = None
  pre_ids = {id(x) for rt in roots.values() for _, x in sym_nodes(rt)}
  recv = resolve(root, recv_keys)
  calls = []
  src = [f'root = {TREE_SRC[tree]}',
         f'other = {TREE_SRC[other_tree] if other_tree else None}',
         'for t in (root, other):' if other_tree else 'for t in (root,):',
         '  ' + _WARM_T, _PRE_IDS_2]
  state = dict(hook_ran=0, hk2=None, boom=False)
  root_name = {'r': 'root', 'o': 'other'}

  def protected(rtag):
    return [a for c in calls if c.rtag == rtag for a, _, _, _ in c.exp]

  def pick_inner(rel, holder, level):
    """(rtag, op, node) of the call a handler of `holder` makes."""
    hk = _keys(holder)
    if rel == 'same-location':
      outer = calls[-1]
      abs_keys, post, _, target = outer.exp[0]
      if post != 'SET':
        return None
      key = abs_keys[-1]
      op = dict(name='rebind/same-location', at=_keys(target),
                src=f'n.rebind({{{key!r}: {next(_counter)}}})',
                exp=[((key,), 'SET')])
      return outer.rtag, op, target
    if rel == 'other-tree':
      rtag = 'o' if calls[-1].rtag == 'r' else 'r'
      if rtag not in roots:
        return None
      nodes = sym_nodes(roots[rtag])
    else:
      rtag = calls[-1].rtag
      nodes = sym_nodes(roots[rtag])
      test = {'same-node': lambda k: k == hk,
              'descendant': lambda k: is_strict_desc(k, hk),
              'ancestor': lambda k: is_strict_desc(hk, k),
              'sibling': lambda k: not _is_prefix(k, hk) and
                         not _is_prefix(hk, k)}[rel]
      nodes = [(k, x) for k, x in nodes if test(k)]
    r.shuffle(nodes)
    prot = protected(rtag)
    for k, x in nodes[:6]:
      ops = [o for o in _node_ops(k, x, r)
             if not any(_is_prefix(k + tuple(rel_), p)
                        for rel_, _ in o['exp'] for p in prot)]
      if level == 1 and m_mode in ('skip', 'skip-none', 'skip-false'):
        ops = [o for o in ops if takes_skip(o)]
      if ops:
        return rtag, r.choice(ops), x
    return None

  def make_hook(level, holder, rel, mode):
    """Registers the one-shot hook; returns the record of its source."""
    node = dict(lines=[], sub=None, sub_expr=None)

    def hook():
      state['hook_ran'] += 1
      for c in calls:
        c.snap()   # what the calls in progress wrote, before anything else
      picked = pick_inner(rel, holder, level)
      if picked is None:
        return
      rtag, op, n = picked
      call = _Call(level, rtag, roots[rtag], op, mode, n)
      if level == 1 and depth2:
        # A receiver of this nested call mutates in turn.
        cands = [t for ch in call.chains for _, t in ch
                 if 'change' in (observable(t) or '')]
        if cands:
          h2 = cands[0]
          state['hk2'] = _handler_kind(h2, 'c')
          node['sub_expr'] = node_expr(_keys(h2)).replace(
              'root', root_name[rtag])
          node['sub'] = make_hook(
              2, h2, r.choice(RELATIONS[:1] + RELATIONS[2:]), 'normal')
      calls.append(call)
      node['lines'] += [
          f"n = {node_expr(op['at']).replace('root', root_name[rtag])}"
      ] + call.lines[1:]
      try:
        _exec('\n'.join(call.lines[1:]), n=n, root=roots[rtag])
      except Exception as e:  # pylint: disable=broad-except
        call.err = e
      call.snap()
      if level == 1 and raises:
        node['lines'].append("raise RuntimeError('handler failed')")
        raise RuntimeError('handler failed')
    H[(tag if level == 1 else 'c', id(holder))] = hook
    return node

  def render(node, name, indent):
    out = [indent + f'def {name}():']
    inner = indent + '  '
    if node['sub'] is not None:
      out += render(node['sub'], 'hook2', inner)
      out.append(inner + f"H[('c', id({node['sub_expr']}))] = hook2")
    return out + [inner + ln for ln in (node['lines'] or ['pass'])]

  # (the source of the hooks is only complete after the run: lists are shared)
  hook_node = make_hook(1, recv, relation, m_mode)
  outer = _Call(0, 'r', root, t_op, t_mode, resolve(root, t_op['at']))
  calls.append(outer)
  del LOG[:]
  try:
    _exec('\n'.join(outer.lines[1:]), n=outer.n, root=root)
  except Exception as e:  # pylint: disable=broad-except
    outer.err = e
  outer.snap()
  log = list(LOG)
  del LOG[:]
  H.clear()
  body = render(hook_node, 'hook', '') + [
      f"H[({tag!r}, id({node_expr(recv_keys)}))] = hook", 'del LOG[:]']
  t_lines = outer.lines
  if raises:
    t_lines = (['try:'] + ['  ' + ln for ln in outer.lines] +
               ['except RuntimeError: pass'])
  src = src + body + t_lines
  hk = _handler_kind(recv, tag)
  stem = f'in-handler/{hk}/{relation}'
  key = (tree, other_tree, recv_keys, tag, t_op['src'], t_mode, relation,
         m_mode, depth2, raises, tuple(c.op['src'] for c in calls[1:]))

  def wit(assert_lines, short=False):
    text = '\n'.join(src + assert_lines)
    pre = preamble(text, hooks=True)
    if short or len(pre) + len(text) > 1190:
      pre = SHORT_PRE
      text = text.replace('  ' + _WARM_T, '  _warm(t)').replace(
          _PRE_IDS_2, 'pre = _ids(root, other)')
    return pre + text

  inner = [c for c in calls if c.level == 1]
  if not state['hook_ran'] or not inner:
    # The handler never ran (judged by the ordinary drivers) or found nothing
    # to mutate in that relation.
    rec.case('in-handler/scenario-not-applicable', key, True, nontrivial=False)
    return None
  if raises:
    # T did not return normally: nothing is claimed about it.  What follows
    # must be unaffected (see the caller).
    return (src, False) if all(c.err is None for c in calls[1:]) else None
  if outer.err is not None:
    rec.case('op-raised(not-judged)', key, True, nontrivial=False)
    return None
  for c in calls[1:]:
    cid = (f'{stem}|nested-call-returns-normally' if c.level == 1 else
           'in-handler/depth-2|nested-call-returns-normally')
    if c.err is not None:
      # The same call on an equal tree outside any handler tells whether the
      # call itself is refused (type, permission ...): then nothing is judged.
      if _same_call_outside(tree, other_tree, calls, c):
        rec.case(cid, key, False, f'{c.lines} made from inside the {hk} '
                 f'handler of {pstr(recv_keys)!r} (running for {outer.lines}) '
                 f'raised {type(c.err).__name__}: {c.err}; the same call after '
                 f'the outer one returned succeeds', wit(
                     ['assert not H, "handler did not run"']))
      else:
        rec.case('op-raised(not-judged)', key, True, nontrivial=False)
      return None
    rec.case(cid, key, True)
  # --- events ----------------------------------------------------------------
  exp_by_recv = {}    # id -> [(call index, keys, node, items)]
  for i, c in enumerate(calls):
    for rid, (rk, node, items) in c.receivers().items():
      exp_by_recv.setdefault(rid, []).append((i, rk, node, items))
  got_by_recv = {}
  for j, e in enumerate(log):
    if e[0] == 'c':
      got_by_recv.setdefault(id(e[1]), []).append((j, e[1], e[2]))
  problems = {i: [] for i in range(len(calls))}
  matched = {i: [] for i in range(len(calls))}    # call -> [(log idx, keys)]

  def keyset(rk, items):
    return {a[len(rk):] for a, _, _ in items}
  for rid, lst in exp_by_recv.items():
    node = lst[0][2]
    obs = observable(node) or ''
    if 'change' in obs:
      pool = list(got_by_recv.get(rid, []))
      for i, rk, _, items in lst:
        c = calls[i]
        same = [g for g in pool
                if {tuple(kp.keys) for kp in g[2]} == keyset(rk, items)]
        if not c.delivers:
          for g in same:
            pool.remove(g)
            problems[i].append(
                ('count', f'{pstr(rk)!r} got an event for {c.lines[1:]}, which '
                 f'asked for none'))
          continue
        if not same:
          problems[i].append(('count', f'{pstr(rk)!r} ({c.rtag}) got no event '
                              f'with locations '
                              f'{sorted(map(pstr, keyset(rk, items)))}'))
          continue
        best = None
        for g in same:
          pb = check_payload(c.root, rk, items, g[2], c.op, snap=c.new)
          if not pb:
            best = (g, pb)
            break
          best = best or (g, pb)
        pool.remove(best[0])
        problems[i] += best[1]
        matched[i].append((best[0][0], rk))
      for g in pool:   # more events than calls that affect this receiver
        owner = max(i for i, *_ in lst)
        problems[owner].append(
            ('count', f'{pstr(lst[0][1])!r} got an extra event '
             f'{sorted(str(k) for k in g[2])}'))
    if 'bound' in obs and rid in pre_ids:
      want = sum(1 for i, *_ in lst if calls[i].delivers)
      cnt = sum(1 for e in log if e[0] == 'b' and e[1] is node)
      if cnt != want:
        owner = max(i for i, *_ in lst)
        problems[owner].append(('count', f'{pstr(lst[0][1])!r} got {cnt} '
                                f'_on_bound calls, want {want}'))
  for rid, lst in got_by_recv.items():
    if rid not in exp_by_recv:
      x = lst[0][1]
      problems[len(calls) - 1 if calls[-1].delivers else 0].append(
          ('stranger', f'{type(x).__name__} at {pstr(_keys(x))!r} got an event '
           f'{sorted(str(k) for k in lst[0][2])} but is not an ancestor of a '
           f'changed location'))
  for i, ms in matched.items():
    ms.sort()
    for a in range(len(ms)):
      for b in range(a + 1, len(ms)):
        if is_strict_desc(ms[b][1], ms[a][1]):
          problems[i].append(('order', f'{pstr(ms[a][1])!r} notified before '
                              f'its descendant {pstr(ms[b][1])!r}'))
  want = sorted(
      (calls[i].rtag, pstr(rk), sorted(map(pstr, keyset(rk, items))))
      for lst in exp_by_recv.values() for i, rk, node, items in lst
      if calls[i].delivers and 'change' in (observable(node) or ''))
  want_b = sorted(
      (calls[i].rtag, pstr(rk))
      for rid, lst in exp_by_recv.items() for i, rk, node, _ in lst
      if calls[i].delivers and rid in pre_ids and
      'bound' in (observable(node) or ''))

  def wit_events():
    """Witness of an event failure, as explicit as the size limit allows."""
    w = wit([_EV_SRC, f'want = {want!r}',
             "assert ev == want, f'events {ev} != {want}'", _NB_SRC,
             f'assert nb == {want_b!r}, nb'])
    if len(w) > 1190:
      w = wit(['ev, nb = _events(LOG, other, pre)',
               f'assert (ev, nb) == ({want!r}, {want_b!r}), (ev, nb)'], True)
    if len(w) > 1190:   # events per receiver only
      cnt = sorted((k, sum(1 for e in want if e[:2] == k))
                   for k in {e[:2] for e in want})
      w = wit(['ev, nb = _events(LOG, other, pre)',
               'c = sorted((k, sum(1 for e in ev if e[:2] == k)) '
               'for k in {e[:2] for e in ev})',
               f'assert (c, nb) == ({cnt!r}, {want_b!r}), (c, nb)'], True)
    return w
  sfx = {'skip': '|skip_notification=True',
         'disabled': '|notify_on_change(False)-in-handler'}.get(
             calls[1].mode, '')
  ok_all = True
  for i, c in enumerate(calls):
    cid = (f'{stem}|outer-call-events', f'{stem}|nested-call-events{sfx}',
           f"in-handler/depth-2/{state['hk2']}|nested-call-events")[c.level]
    pbs = problems[i]
    for kind in (sorted({p[0] for p in pbs if p[0] == 'order'}) +
                 [None]):
      msgs = [m for k_, m in pbs if (k_ == 'order') == (kind == 'order')]
      if kind == 'order':
        ok_all &= rec.case(cid + '-order', key, False, _scn_msg(
            calls, hk, recv_keys, i) + '; '.join(msgs[:3]), wit_events())
      else:
        ok_all &= rec.case(cid, key, not msgs, _scn_msg(
            calls, hk, recv_keys, i) + '; '.join(msgs[:4]),
                           wit_events() if msgs else '')
  # --- derived facts ---------------------------------------------------------
  # (as everywhere in this file: only when nobody asked for silence)
  for rtag, rt in roots.items() if all(c.delivers for c in calls) else ():
    focus = set()
    for c in calls:
      if c.rtag == rtag:
        focus.add(c.op['at'])
        for abs_keys, _, _, _ in c.exp:
          focus.update(abs_keys[:i] for i in range(len(abs_keys)))
    if not focus:
      continue
    try:
      stale = stale_facts(rt, focus)
    except Exception as e:  # pylint: disable=broad-except
      stale = [((), f'facts-raised {type(e).__name__}: {e}', None, None)]
    if stale:
      keys, name, got, want_ = stale[0]
      access = FACT_SRC.get(name, f'x.{name}')
      rn = root_name[rtag]
      w = wit([f"x = {node_expr(keys).replace('root', rn)}",
               f'y = pg.from_json(pg.to_json({rn}), allow_partial=True)',
               'f = ' + node_expr(keys).replace('root', 'y', 1),
               f'got, want = {access}, {access.replace("x", "f", 1)}',
               'assert pg.eq(got, want) or repr(got) == repr(want), '
               "f'stale {got!r} != fresh {want!r}'"])
      ok_all &= rec.case(
          f'{stem}|derived-facts', key, False, _scn_msg(calls, hk, recv_keys, 0)
          + f'{name} at {rn}:{pstr(keys)!r} is {got!r}, fresh copy gives '
          f'{want_!r} (+{len(stale) - 1} more)', w)
    else:
      rec.case(f'{stem}|derived-facts', key, True)
  return (src, all(c.delivers for c in calls)) if ok_all else None


def _scn_msg(calls, hk, recv_keys, i):
  inner = '; then '.join(' '.join(c.lines) + f' [{c.rtag}]' for c in calls[1:])
  return (f'{calls[0].lines} runs the {hk} handler of {pstr(recv_keys)!r}, '
          f'which does {inner}; call #{i}: ')


def _same_call_outside(tree, other_tree, calls, failed):
  """True iff the calls made one after the other (no handler) all succeed."""
  roots = {'r': build(tree)}
  if other_tree:
    roots['o'] = build(other_tree)
  try:
    for c in calls:
      if c.level > failed.level:
        continue
      _exec('\n'.join(c.lines[1:]), n=resolve(roots[c.rtag], c.op['at']),
            root=roots[c.rtag])
      if c is failed:
        return True
  except Exception:  # pylint: disable=broad-except
    return False
  finally:
    del LOG[:]
  return True


class _Renamed:
  """Recorder view that files the cases of an ordinary step under one stem."""

  def __init__(self, rec, stem):
    self.rec, self.stem = rec, stem

  def case(self, case_id, key, ok, message='', witness='', nontrivial=True):
    if '|' in case_id:
      case_id = self.stem + '|' + case_id.split('|', 1)[1]
    return self.rec.case(case_id, key, ok, message, witness, nontrivial)


def drv_in_handler(tier, seed):
  rec = Recorder(
      'C09', 'mutating calls made from inside a running change handler '
      '(_on_change / _on_bound override, onchange_callback of Dict / List, '
      '_on_change of a functor subclass): events of the nested and of the '
      'outer call, derived facts after the outer call returned, and the next '
      'ordinary call',
      scope='10 trees (the 7 + 3 with functors); every node that observes '
      'events x handler (change / bound) x where the handler mutates (its own '
      'node, the location just written, a descendant, a sibling, an ancestor, '
      'another tree) x 1 (quick) / 4 (thorough) seeded (outer op, nested op) '
      'pairs from the path-stable mutators; per handler 2 (12) more scenarios '
      'with the nested call made with skip_notification=None / =False / =True, '
      'in the handler\'s own notify_on_change(True) / (False) scope, with a '
      'second handler mutating in turn (depth 2), or with the handler raising '
      'after its call; every 5th scenario is followed by one ordinary mutation '
      'outside any handler (events; derived facts unless the handler raised or '
      'asked for silence)')
  r = rng(seed, 'c09-in-handler')
  ALL_NODES[0] = tier != 'quick'
  reps, extra = (1, 2) if tier == 'quick' else (4, 12)
  trees = dict(TREES, **FN_TREES)
  names = list(trees)
  count = 0
  for tree in trees:
    proto = build(tree)
    t_ops = [o for o in gen_ops(proto, None, 1) if _stable(o)]
    for recv_keys, node in sym_nodes(proto):
      obs = observable(node)
      if not obs:
        continue
      below = [o for o in t_ops if _is_prefix(recv_keys, o['at']) and all(
          o['at'] + tuple(rel) != recv_keys for rel, _ in o['exp'])]
      if not below:
        continue
      for tag in [t for t, w in (('c', 'change'), ('b', 'bound')) if w in obs]:
        plan = [(rel, 'normal', False, False) for rel in RELATIONS
                for _ in range(reps)]
        for _ in range(extra):
          x = r.random()
          plan.append((r.choice(RELATIONS),
                       r.choice(list(INNER_MODES)[1:]) if x < 0.6 else 'normal',
                       0.6 <= x < 0.8, x >= 0.8))
        for relation, m_mode, depth2, raises in plan:
          direct = [o for o in below if o['at'] == recv_keys]
          t_op = r.choice(direct if direct and r.random() < 0.5 else below)
          x = r.random()
          t_mode = ('normal' if x < 0.8 else 'skip-false'
                    if x < 0.9 and takes_skip(t_op) else 'nested-enabled')
          other_tree = r.choice(names)
          try:
            src = _in_handler_scenario(
                rec, r, tree, other_tree, recv_keys, tag, t_op, t_mode,
                relation, m_mode, depth2, raises)
          except Exception as e:  # pylint: disable=broad-except
            H.clear()
            del LOG[:]
            src = None
            rec.case('in-handler/scenario|harness-exception',
                     (tree, recv_keys, tag, t_op['src'], relation, m_mode), False,
                     f'{type(e).__name__}: {e} ' + traceback.format_exc()[-400:],
                     SHORT_PRE + f'root = {TREE_SRC[tree]}\nn = '
                     f"{node_expr(t_op['at'])}\n{t_op['src']}")
          count += 1
          if src is None or not (raises or count % 5 == 0):
            continue
          # The next ordinary call, outside any handler.
          _follow_up(rec, r, tree, other_tree, src[0], raises, src[1])
  _life_cycle_handlers(rec, r, trees, 1 if tier == 'quick' else 6)
  return rec.result()


# Handlers of ANOTHER object that run while that object is constructed or
# attached somewhere (its _on_init / _on_bound at construction, its
# _on_parent_change / _on_path_change) and mutate `root`: ordinary calls.
_LIFE_CYCLE = {
    'init': 'Hk(v=1)', 'bound': 'Hk(v=1)', 'parent': 'pg.Dict(x=Hk())',
    'path': 'pg.Dict(y=pg.Dict(x=Hk()))'}


def _life_cycle_handlers(rec, r, trees, per_kind):
  for tree in trees:
    ops = [o for o in gen_ops(build(tree), None, 1)
           if _stable(o) and '\n' not in o['src']]
    if not ops:
      continue
    for kind, trigger in _LIFE_CYCLE.items():
      for op in r.sample(ops, min(per_kind, len(ops))):
        src = '\n'.join(['def act():', f"  {op['src']}"
                         if not op['src'].startswith('n ') else
                         f"  n = {node_expr(op['at'])}; {op['src']}",
                         f'ARM[{kind!r}] = act', trigger,
                         f"assert not ARM, 'the {kind} handler did not run'"])
        op2 = dict(op, src=src, must_succeed=False,
                   name=f'in-handler/on_{kind}-of-another-object')
        root = build(tree)
        _warm(root)
        ARM.clear()
        run_step(rec, tree, root, [], op2, 'normal', 'life-cycle')
        ARM.clear()


def _follow_up(rec, r, tree, other_tree, src, raises, facts_too):
  """Replays the scenario `src`, then judges one ordinary step on `root`.

  facts_too: nobody asked for silence and nothing raised so far, so that the
  derived facts have to be fresh after the step as well.
  """
  env = dict(_NS)
  try:
    exec('\n'.join(src), env)  # pylint: disable=exec-used
  except Exception as e:  # pylint: disable=broad-except
    H.clear()
    del LOG[:]
    rec.case('in-handler/scenario-replay|harness-exception',
             (tree, other_tree, tuple(src)), False,
             f'{type(e).__name__}: {e}', SHORT_PRE + '\n'.join(src))
    return
  H.clear()
  del LOG[:]
  root = env['root']
  try:
    _warm(root)
    ops = [o for o in gen_ops(root, r, 1) if _stable(o)]
  except Exception:  # pylint: disable=broad-except
    return
  if not ops:
    return
  op = r.choice(ops)
  stem = ('call-after-handler-raised' if raises else
          'call-after-handler-mutation')
  # (compact form of the scenario: the witness has a size limit)
  history = [[ln.replace(_WARM_T, '_warm(t)') for ln in src[1:]
              if ln != _PRE_IDS_2] + (['_warm(root)'] if facts_too else [])]
  run_step(_Renamed(rec, stem), tree, root, history, op, 'normal',
           'follow-up', check_facts=facts_too)


DRIVERS = [drv_single_ops, drv_histories, drv_receiver_classes, drv_misc,
           drv_references, drv_functor_args, drv_in_handler]


def replay(rec):
  """Re-executes rec['witness']; returns (ok, message)."""
  try:
    exec(rec['witness'], {})  # pylint: disable=exec-used
    return True, 'witness passes'
  except Exception as e:  # pylint: disable=broad-except
    return False, f'{type(e).__name__}: {e}'
