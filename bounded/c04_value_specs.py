"""C04 bounded drivers: the value-spec algebra beyond the deductive tier.

The deductive tier (contracts/c04_value_specs.py) proves the algebra for
Number/Enum/List/Tuple/Str one level deep.  These drivers are the bounded
stand-in for everything else: Bool, Dict (const / StrKey / regex StrKey keys),
Object over a small class hierarchy, Callable/Functor, Type, Union, Any, nested
combinations to depth 3, the noneable / default / frozen / transform modifiers
and the Schema level (Schema.extend, Schema.is_compatible, pg.Object subclasses
overriding fields).

Every spec of the universe is a small *description* (a dict, see `sp`) from
which the driver derives

  * the source expression that builds the spec (`to_expr`): a fresh clone is a
    fresh evaluation, and every witness is a self-contained snippet;
  * the pool of candidate values of the spec (`vals`): accepted values,
    boundary values (min/max +-1, sizes at the limits +-1), None, wrong types,
    bool vs int, int vs float, containers failing deep inside;
  * an independent structural expectation (`macc`) for the unambiguous part of
    acceptance (bounds and sizes inclusive, None iff noneable, container and
    class membership), and the input class of a rejection (`diag`) used to
    name the case ids.

Acceptance is defined from the statement: acc(spec, v) := spec.apply(v) does
not raise TypeError / ValueError / KeyError (anything else is a failure).  A
*value of* a spec is a value the spec accepts and maps to itself (same
structure, same leaf types): an int given to a Float, a dict with a missing key
that is filled with its default, 1 given to a Bool frozen to True are accepted
*inputs* that the spec converts, not values of the spec, and the containment
laws below are demanded for values only (is_compatible: "can receive all
values from the other spec").  Every spec is applied to its own pool and to a
core pool; further cells of the acceptance matrix are evaluated when a law
needs them.  The laws:

  apply.*     r = apply(v) is accepted again, apply(r) is r (same structure,
              same leaf types), the spec is unchanged (== and repr of a clone)
  accept.*    acceptance agrees with the structural expectation where there is one
  default.*   the default of a spec is accepted by it (allow_partial: defaults
              may be partial), also after noneable(), freeze(), extend(), and
              after set_default(v) / freeze(v) whether the call succeeds or is
              refused (v: rejected values of every kind, accepted values)
  compat.*    a.is_compatible(b)  =>  every pooled value of b is accepted by a
  extend.*    clone(c).extend(b) succeeded  =>  every pooled value of the
              extension is accepted by b (on the fields the Dict schemas share),
              b.is_compatible(extension) (same Dict keys), default still accepted.
              The child is extended as constructed and ("applying never changes
              the spec") after it was applied to values: every child with a
              user transform, a sample of the others.  The ids of these say so:
              extend.[applied-]transform-child-<classes with the transform>.* and
              extend.applied-child.*
  union.*     a Union accepts a value only if a candidate does, and accepts
              every value that a candidate holds as it is
  frozen.*    a frozen spec accepts its frozen value, yields it, and rejects
              every value that is not equal to it
  schema.*    the same through Schema.extend / Schema.is_compatible and through
              pg.Object subclasses overriding a field (3 layouts: same keys,
              a field only in the base, a field only in the child)
  derived.*   the same for the specs the library derives from declarations
              (driver 5): annotation + default of a parameter (pg.typing.signature,
              Signature.to_schema / annotate, pg.functor, pg.symbolize) or of a
              pg.Object class attribute carry a default they accept; a class
              attribute that overrides the default of an inherited field only
              narrows the field of the base class

Case ids end in the *input class* of the refuting value: the innermost
constraint of the rejecting spec that says no (`diag`: int-max, list-min-size,
tuple-max-size, dict-key, frozen, none-<Class>, callable-args, enum-...,
union-shadowed, union-unused-<value>-for-<Candidate>), so
that one defect gives one id wherever it is nested.

Str specs with a regular expression take part in the apply/default/frozen
checks only (the statement excludes them from compatibility).  Specs with a
user transform take part in the apply/default checks and as *children* of
extensions (the values they hold as they are must be accepted by the base);
they are left out of the soundness check of is_compatible: what a user
function accepts is not something is_compatible could know.  The user
transforms come in the two kinds the library documents ("a type converter or a
custom validator which may raise errors"):

  * converters (tr_list, tr_tuple, tr_a, tr_id): total and idempotent, the
    identity on the values of the spec's own type.  As *bases* they are
    extended by specs of their own class only (a converter to another type
    below a spec of that other type is outside the algebra);
  * a validator (va_mark): the identity on every value but the *marked* ones
    (a negative number at any depth, the function fu, instances of Q / g2),
    which it refuses.  A validator is meaningful for a spec of any class, so a
    base with a validator is extended by children of every class for which the
    extension succeeds: the same class, a base `Any(transform=...)` (on its
    own and as element / field of a container), a base Union with a candidate
    that has the validator.  "Every value the extended spec accepts is
    accepted by the base" then means: the extension refuses the marked values
    too.  The ids of these cases end in the innermost spec of the base whose
    validator says no (see `validator_tag`):
      */validator-of-<Class>, */validator-of-union-candidate,
      */validator-of-base+child-transform (the child has a transform of its own),
      */validator-of-base+frozen-child (the child is frozen to a marked value),
      *default-accepted/validator-of-base (the child's default is marked).
"""
import copy
import re
import zlib

import pyglove as pg
from pyvc.bounded import Recorder, rng

T = pg.typing
OK_ERRORS = (TypeError, ValueError, KeyError)

# ---------------------------------------------------------------------------
# Preamble of every witness (only the needed parts are emitted).
# ---------------------------------------------------------------------------

_HEAD = 'import pyglove as pg\nt = pg.typing\nMV = pg.MISSING_VALUE\n'
_ACC = ('def acc(s, v, **k):\n  try:\n    s.apply(v, **k)\n    return True\n'
        '  except (TypeError, ValueError, KeyError):\n    return False\n')
# name -> (dependencies, source)
_PARTS = {
    'A': ((), "@pg.members([('x', t.Int(min_value=0, default=0))])\n"
              "class A(pg.Object): pass\n"),
    'B': (('A',), "@pg.members([('x', t.Int(min_value=0, max_value=9, default=1)), "
                  "('y', t.Str().noneable())])\nclass B(A): pass\n"),
    'C': ((), "@pg.members([('r', t.Any())])\nclass C(pg.Object): pass\n"),
    'P': ((), 'class P: pass\n'),
    'Q': (('P',), 'class Q(P): pass\n'),
    'K': ((), 'class K:\n  def __call__(self, a: int) -> int: return a\n'),
    'f0': ((), 'def f0(): return 0\n'),
    'f1': ((), 'def f1(a: int) -> int: return a\n'),
    'f1s': ((), 'def f1s(a: str) -> str: return a\n'),
    'f2': ((), 'def f2(a: int, b: float) -> float: return b\n'),
    'fu': ((), 'def fu(a, b=1): return a\n'),
    'fv': ((), 'def fv(*args): return 0\n'),
    'fk': ((), 'def fk(a: int, *, x: int = 0) -> int: return a\n'),
    'fkw': ((), 'def fkw(**kwargs): return 0\n'),
    'g1': ((), "@pg.functor([('a', t.Int())], returns=t.Int())\ndef g1(a): return a\n"),
    'g0': ((), '@pg.functor()\ndef g0(): return 0\n'),
    'g1s': ((), "@pg.functor([('a', t.Str())], returns=t.Str())\ndef g1s(a): return a\n"),
    'g2': ((), "@pg.functor([('a', t.Int()), ('b', t.Float())], returns=t.Float())\n"
               "def g2(a, b): return b\n"),
    'gx': ((), "@pg.functor([('a', t.Int()), ('x', t.Int(min_value=0))])\n"
               "def gx(a, x=0): return a\n"),
    'tr_list': ((), 'def tr_list(v): return list(v) if isinstance(v, tuple) else v\n'),
    'tr_tuple': ((), 'def tr_tuple(v): return tuple(v) if isinstance(v, list) else v\n'),
    'tr_a': (('A',), 'def tr_a(v): return A(x=v) if type(v) is int else v\n'),
    'tr_id': ((), 'def tr_id(v): return v\n'),
    # a user transform used as *validator* (the documented second use of
    # `transform`): the identity on every value but the marked ones, which it
    # refuses: values holding a negative number (at any depth of lists, tuples,
    # dicts and fields of symbolic objects), the function fu, instances of Q / g2.
    'va_mark': ((), 'def va_mark(v):\n'
                    '  def m(x):\n'
                    '    if isinstance(x, (list, tuple, dict, pg.Object)):\n'
                    "      return type(x).__name__ == 'g2' or any(m(e) for e in (\n"
                    '          x.sym_values() if isinstance(x, pg.Symbolic) else\n'
                    '          x.values() if isinstance(x, dict) else x))\n'
                    '    if type(x) in (int, float): return x < 0\n'
                    "    return getattr(x, '__name__', '') == 'fu' or type(x).__name__ == 'Q'\n"
                    "  if m(v): raise ValueError('marked value: %r' % (v,))\n"
                    '  return v\n'),
}
VALIDATORS = ('va_mark',)
_NAME_RE = re.compile(r'\b(' + '|'.join(sorted(_PARTS, key=len, reverse=True)) + r')\b')

NS = {}
exec(_HEAD + _ACC + ''.join(src for _, src in _PARTS.values()), NS)  # pylint: disable=exec-used


def pre(*exprs):
  names, todo = [], list(_NAME_RE.findall(' '.join(exprs)))
  while todo:
    n = todo.pop()
    if n not in names:
      names.append(n)
      todo.extend(_PARTS[n][0])
  return _HEAD + _ACC + ''.join(_PARTS[n][1] for n in _PARTS if n in names)


def fit(w, key=''):
  if len(w) <= 1190:
    return w
  return ('# witness too long for the record; failing input: ' + repr(key)[:900] +
          '\nraise AssertionError("see failing input")')


_CODE = {}


def ev(expr):
  """Fresh evaluation of a spec / value expression."""
  c = _CODE.get(expr)
  if c is None:
    c = _CODE[expr] = compile(expr, '<c04>', 'eval')
  return eval(c, NS)  # pylint: disable=eval-used


# ---------------------------------------------------------------------------
# Spec descriptions.
# ---------------------------------------------------------------------------

def sp(k, **kw):
  a = dict(k=k, noneable=False, nn_ctor=False, default=None, frozen=None,
           transform=None)
  a.update(kw)
  return a


def Int(mn=None, mx=None, **kw):
  return sp('Int', min=mn, max=mx, **kw)


def Float(mn=None, mx=None, **kw):
  return sp('Float', min=mn, max=mx, **kw)


def Bool(**kw):
  return sp('Bool', **kw)


def Str(regex=None, **kw):
  return sp('Str', regex=regex, **kw)


def Enum(values, **kw):
  return sp('Enum', values=list(values), **kw)   # values: value expressions


def Any(**kw):
  return sp('Any', **kw)


def List(elem, mn=None, mx=None, size=None, **kw):
  return sp('List', elem=elem, min=mn, max=mx, size=size, **kw)


def Tuple(elems, mn=None, mx=None, size=None, **kw):
  """elems: a list (fixed length) or one description (variable length)."""
  return sp('Tuple', elems=elems, min=mn, max=mx, size=size, **kw)


def Dict(fields=None, **kw):
  """fields: None or [(key, spec)], key: 'x' | ('str', None) | ('str', regex)."""
  return sp('Dict', fields=fields, **kw)


def Object(cls, **kw):
  return sp('Object', cls=cls, **kw)


def Type(cls, **kw):
  return sp('Type', cls=cls, **kw)


def Callable(args=(), kw_=(), returns=None, functor=False, **kw):
  return sp('Functor' if functor else 'Callable', args=list(args), kw=list(kw_),
            returns=returns, **kw)


def Union(cands, **kw):
  return sp('Union', cands=list(cands), **kw)


def mod(a, **kw):
  b = copy.deepcopy(a)
  b.update(kw)
  return b


def sizes_of(a):
  """(min, max) of a List / variable Tuple description."""
  if a.get('size') is not None:
    return a['size'], a['size']
  return a['min'] or 0, a['max']


def tuple_fixed(a):
  if isinstance(a['elems'], list):
    return True
  mn, mx = sizes_of(a)
  return mn == mx


def tuple_elems(a):
  """Per-position descriptions of a fixed-length tuple."""
  if isinstance(a['elems'], list):
    return a['elems']
  return [a['elems']] * sizes_of(a)[0]


def key_expr(k):
  if isinstance(k, str):
    return repr(k)
  return 't.StrKey()' if k[1] is None else f't.StrKey({k[1]!r})'


def to_expr(a):
  k = a['k']
  args = []
  if k in ('Int', 'Float'):
    if a['min'] is not None:
      args.append(f'min_value={a["min"]!r}')
    if a['max'] is not None:
      args.append(f'max_value={a["max"]!r}')
  elif k == 'Str':
    if a['regex']:
      args.append(f'regex={a["regex"]!r}')
  elif k == 'Enum':
    args.append(a['default'] if a['default'] is not None else 'MV')
    args.append('[' + ', '.join(a['values']) + ']')
  elif k == 'List':
    args.append(to_expr(a['elem']))
  elif k == 'Tuple':
    if isinstance(a['elems'], list):
      args.append('[' + ', '.join(to_expr(e) for e in a['elems']) + ']')
    else:
      args.append(to_expr(a['elems']))
  elif k == 'Dict':
    if a['fields'] is not None:
      args.append('[' + ', '.join(f'({key_expr(fk)}, {to_expr(fv)})'
                                  for fk, fv in a['fields']) + ']')
  elif k in ('Object', 'Type'):
    args.append(a['cls'])
  elif k in ('Callable', 'Functor'):
    if a['args']:
      args.append('[' + ', '.join(to_expr(e) for e in a['args']) + ']')
    if a['kw']:
      args.append('kw=[' + ', '.join(f'({n!r}, {to_expr(e)})' for n, e in a['kw']) + ']')
    if a['returns'] is not None:
      args.append('returns=' + to_expr(a['returns']))
  elif k == 'Union':
    args.append('[' + ', '.join(to_expr(e) for e in a['cands']) + ']')
  if k in ('List', 'Tuple'):
    if a['size'] is not None:
      args.append(f'size={a["size"]}')
    if a['min'] is not None:
      args.append(f'min_size={a["min"]}')
    if a['max'] is not None:
      args.append(f'max_size={a["max"]}')
  if a['default'] is not None and k != 'Enum':
    args.append(f'default={a["default"]}')
  if a['transform']:
    args.append(f'transform={a["transform"]}')
  if a['nn_ctor']:
    args.append('is_noneable=True')
  e = f't.{k}({", ".join(args)})'
  if a['noneable']:
    e += '.noneable()'
  if a['frozen'] is not None:
    e += f'.freeze({a["frozen"]})'
  return e


def has_regex(a):
  k = a['k']
  if k == 'Str':
    return bool(a['regex'])
  return any(has_regex(c) for c in children(a))


def has_transform(a):
  return bool(a['transform']) or any(has_transform(c) for c in children(a))


def has_validator(a):
  """A user transform that refuses values (see va_mark) somewhere inside."""
  return a['transform'] in VALIDATORS or any(has_validator(c) for c in children(a))


def only_validators(a):
  """Every user transform inside is a validator: the identity or a refusal,
  meaningful below and above a spec of any class (a converter is not)."""
  return ((not a['transform'] or a['transform'] in VALIDATORS) and
          all(only_validators(c) for c in children(a)))


def refuses(tr, v):
  """The validator named tr refuses the value v."""
  try:
    NS[tr](v)
    return False
  except Exception:  # pylint: disable=broad-except
    return True


def children(a):
  k = a['k']
  if k == 'List':
    return [a['elem']]
  if k == 'Tuple':
    return a['elems'] if isinstance(a['elems'], list) else [a['elems']]
  if k == 'Dict':
    return [fv for _, fv in (a['fields'] or [])]
  if k in ('Callable', 'Functor'):
    return list(a['args']) + [e for _, e in a['kw']] + ([a['returns']] if a['returns'] else [])
  if k == 'Union':
    return a['cands']
  return []


def dict_key_paths(a, path=()):
  """All const-key paths of the Dict schemas inside a description."""
  out = set()
  k = a['k']
  if k == 'Dict':
    for fk, fv in a['fields'] or []:
      p = path + (fk if isinstance(fk, str) else key_expr(fk),)
      out.add(p)
      out |= dict_key_paths(fv, p)
  else:
    for i, c in enumerate(children(a)):
      out |= dict_key_paths(c, path + (f'#{k}{i}',))
  return out


# ---------------------------------------------------------------------------
# Structural expectation (independent of the library).
# ---------------------------------------------------------------------------

def is_missing(v):
  return isinstance(v, pg.typing.MissingValue) or v is pg.MISSING_VALUE or pg.MISSING_VALUE == v


def has_missing(v):
  if isinstance(v, (list, tuple)):
    items = v.sym_values() if isinstance(v, pg.List) else v
    return any(has_missing(e) for e in items)
  if isinstance(v, dict):
    items = v.sym_values() if isinstance(v, pg.Dict) else v.values()
    return any(has_missing(e) for e in items)
  if isinstance(v, pg.Object):
    return v.sym_partial
  return is_missing(v)


def loose_eq(a, b):
  try:
    return bool(pg.eq(a, b))
  except Exception:  # pylint: disable=broad-except
    return a is b


def _and(results):
  r = True
  for x in results:
    if x is False:
      return False
    if x is None:
      r = None
  return r


def field_for_key(a, key):
  """The (key, spec) of a Dict description that governs `key`, or None."""
  for fk, fv in a['fields']:
    if fk == key:
      return fk, fv
  if not isinstance(key, str):
    return None
  for fk, fv in a['fields']:
    if not isinstance(fk, str) and (fk[1] is None or re.match(fk[1], key)):
      return fk, fv
  return None


def has_default(a):
  """Whether a missing dict key governed by `a` is filled in (True/False/None)."""
  if a['frozen'] is not None or a['default'] is not None:
    return True
  if a['k'] == 'Enum':
    return False            # Enum.noneable() adds None to the values, no default.
  if a['noneable']:
    return True
  if a['k'] == 'Dict':
    if a['nn_ctor']:
      return None
    return macc(a, {})
  if a['k'] == 'Any' or a['nn_ctor']:
    return None     # None is acceptable, but is it the default?  Not stated.
  return False


_FROZEN = {}


def frozen_value(a):
  """The frozen value of a description as the spec holds it (after apply)."""
  e = to_expr(a)
  if e not in _FROZEN:
    _FROZEN[e] = ev(e).default
  return _FROZEN[e]


def can_none(a):
  k = a['k']
  if k == 'Any':
    return True
  if k == 'Enum':
    return bool(a['noneable'] or 'None' in a['values'])
  if a['noneable'] or a['nn_ctor']:
    return True
  if k == 'Union':
    rs = [can_none(c) for c in a['cands']]
    return None if any(r is not False for r in rs) else False
  return False


def macc(a, v):
  """True / False where the documentation leaves no doubt, else None."""
  k = a['k']
  if is_missing(v):
    return None
  if a['frozen'] is not None:
    d = frozen_value(a)
    if fp(d) == fp(v):
      return True
    return None if loose_eq(v, d) else False
  if v is None:
    return can_none(a)
  if a['transform']:
    return None
  if k == 'Any':
    return True
  if k == 'Bool':
    return isinstance(v, bool)
  if k in ('Int', 'Float'):
    if isinstance(v, bool):
      return None
    if k == 'Int' and not isinstance(v, int):
      return False
    if k == 'Float' and not isinstance(v, (int, float)):
      return False
    return ((a['min'] is None or v >= a['min']) and
            (a['max'] is None or v <= a['max']))
  if k == 'Str':
    if not isinstance(v, str):
      return False
    return True if not a['regex'] else bool(re.match(a['regex'], v))
  if k == 'Enum':
    vals = [ev(x) for x in a['values']]
    if any(type(x) is type(v) and x == v for x in vals):
      return True
    try:
      return None if v in vals else False
    except Exception:  # pylint: disable=broad-except
      return None
  if k == 'List':
    if not isinstance(v, list):
      return False
    mn, mx = sizes_of(a)
    if len(v) < mn or (mx is not None and len(v) > mx):
      return False
    return _and(macc(a['elem'], e) for e in _seq(v))
  if k == 'Tuple':
    if not isinstance(v, tuple):
      return False
    if tuple_fixed(a):
      es = tuple_elems(a)
      if len(v) != len(es):
        return False
      return _and(macc(e, x) for e, x in zip(es, v))
    mn, mx = sizes_of(a)
    if len(v) < mn or (mx is not None and len(v) > mx):
      return False
    return _and(macc(a['elems'], x) for x in v)
  if k == 'Dict':
    if not isinstance(v, dict):
      return False
    if a['fields'] is None:
      return True
    res = []
    items = dict(_items(v))
    for key, x in items.items():
      f = field_for_key(a, key)
      if f is None:
        return False
      res.append(macc(f[1], x))
    for fk, fv in a['fields']:
      if isinstance(fk, str) and fk not in items:
        res.append(has_default(fv))
    return _and(res)
  if k == 'Object':
    cls = NS[a['cls']]
    if not isinstance(v, cls):
      return False
    return not (isinstance(v, pg.Object) and v.sym_partial)
  if k == 'Type':
    return isinstance(v, type) and issubclass(v, NS[a['cls']])
  if k in ('Callable', 'Functor'):
    if not callable(v):
      return False
    if k == 'Functor' and not isinstance(v, pg.Functor):
      return False
    if not (a['args'] or a['kw'] or a['returns']):
      return True
    return None
  if k == 'Union':
    rs = [macc(c, v) for c in a['cands']]
    return False if all(r is False for r in rs) else None
  return None


def _seq(v):
  return v.sym_values() if isinstance(v, pg.List) else list(v)


def _items(v):
  return list(v.sym_items()) if isinstance(v, pg.Dict) else list(v.items())


def vkind(v):
  if v is None:
    return 'none'
  for ty, n in ((bool, 'bool'), (int, 'int'), (float, 'float'), (str, 'str'),
                (list, 'list'), (tuple, 'tuple'), (dict, 'dict'), (type, 'class')):
    if isinstance(v, ty):
      return n
  if isinstance(v, pg.Object):
    return 'object'
  return 'callable' if callable(v) else 'other'


def live_acc(a, v):
  try:
    ev(to_expr(a)).apply(v)
    return True
  except Exception:  # pylint: disable=broad-except
    return False


def diag(a, v):
  """Input class of `a` rejecting v: the innermost constraint that says no."""
  k = a['k']
  low = k.lower()
  if a['frozen'] is not None:
    return 'frozen'
  if v is None:
    return 'none'
  if k == 'Bool':
    return 'bool-type'
  if k in ('Int', 'Float'):
    ok = (int,) if k == 'Int' else (int, float)
    if not isinstance(v, ok):
      return low + '-type'
    if a['min'] is not None and v < a['min']:
      return low + '-min'
    if a['max'] is not None and v > a['max']:
      return low + '-max'
    return low + ('-bool' if isinstance(v, bool) else '-other')
  if k == 'Str':
    return 'str-type' if not isinstance(v, str) else 'str-regex'
  if k == 'Enum':
    try:
      if any(type(ev(x)) is not type(v) and ev(x) == v for x in a['values']):
        return 'enum-equal-value-of-other-type'
    except Exception:  # pylint: disable=broad-except
      pass
    return 'enum-value'
  if k == 'List' or (k == 'Tuple' and not tuple_fixed(a)):
    if not isinstance(v, list if k == 'List' else tuple):
      return low + '-type'
    mn, mx = sizes_of(a)
    if len(v) < mn:
      return low + '-min-size'
    if mx is not None and len(v) > mx:
      return low + '-max-size'
    e = a['elem'] if k == 'List' else a['elems']
    for x in _seq(v):
      if not live_acc(e, copy.deepcopy(x)):
        return diag(e, x)
    return low + '-other'
  if k == 'Tuple':
    if not isinstance(v, tuple):
      return 'tuple-type'
    es = tuple_elems(a)
    if len(v) != len(es):
      return 'tuple-size'
    for e, x in zip(es, v):
      if not live_acc(e, copy.deepcopy(x)):
        return diag(e, x)
    return 'tuple-other'
  if k == 'Dict':
    if not isinstance(v, dict):
      return 'dict-type'
    if a['fields'] is None:
      return 'dict-other'
    items = dict(_items(v))
    for key, x in items.items():
      f = field_for_key(a, key)
      if f is None:
        return 'dict-key'
      if not live_acc(f[1], copy.deepcopy(x)):
        return diag(f[1], x)
    for fk, _ in a['fields']:
      if isinstance(fk, str) and fk not in items:
        return 'dict-missing-key'
    return 'dict-other'
  if k == 'Object':
    return 'object-class' if not isinstance(v, NS[a['cls']]) else 'object-partial'
  if k == 'Type':
    return 'type-class'
  if k in ('Callable', 'Functor'):
    if not callable(v):
      return low + '-type'
    if k == 'Functor' and not isinstance(v, pg.Functor):
      return 'functor-type'
    # the part of the signature that says no.
    for part, empty in (('returns', None), ('args', []), ('kw', [])):
      if a[part] and live_acc(mod(a, **{part: empty}), v):
        return f'callable-{part}'
    return 'callable-signature'
  if k == 'Union':
    for c in a['cands']:
      if live_acc(c, copy.deepcopy(v)):
        return 'union-' + shadow_tag(a, v, c)
    typed = [c for c in flat_cands(a) if pytypes(c) and isinstance(v, pytypes(c))]
    if len(typed) == 1:
      return diag(typed[0], v)       # the only candidate for values of this type.
    return 'union-no-candidate'
  return low


# ---------------------------------------------------------------------------
# Value pools (value expressions).
# ---------------------------------------------------------------------------

OBJ_VALUES = ['A()', 'A(x=5)', 'B()', "B(x=9, y='s')", 'C(r=1)', 'C.partial()',
              'P()', 'Q()', 'K()']
TYPE_VALUES = ['A', 'B', 'C', 'P', 'Q', 'K', 'int', 'str']
CALL_VALUES = ['f0', 'f1', 'f1s', 'f2', 'fu', 'fv', 'fk', 'fkw', 'K()', 'g1(a=1)',
               'g0()', 'g1.partial()', "g1s(a='a')", 'g2(a=1, b=0.5)', 'gx(a=1)', 'len',
               'K', 'A']
WRONG = ['None', '1', "'a'", '[1]', '(1,)', "{'x': 1}", 'A()', 'f1', 'A', 'True', '0.5']


def _num(x):
  return repr(x)


def strip_transform(a):
  """The description without its user transforms (at any depth)."""
  if not has_transform(a):
    return a
  b = dict(a, transform=None)
  k = a['k']
  if k == 'List':
    b['elem'] = strip_transform(a['elem'])
  elif k == 'Tuple':
    b['elems'] = ([strip_transform(e) for e in a['elems']] if isinstance(a['elems'], list)
                  else strip_transform(a['elems']))
  elif k == 'Dict':
    b['fields'] = [(fk, strip_transform(fv)) for fk, fv in a['fields'] or []] or a['fields']
  elif k in ('Callable', 'Functor'):
    b['args'] = [strip_transform(e) for e in a['args']]
    b['kw'] = [(q, strip_transform(e)) for q, e in a['kw']]
    b['returns'] = strip_transform(a['returns']) if a['returns'] else a['returns']
  elif k == 'Union':
    b['cands'] = [strip_transform(e) for e in a['cands']]
  return b


def good(a, n=2):
  """A few value expressions the description accepts (by macc).  Used to build
  pools and defaults only (never as an oracle): for a spec with user transforms
  these are the values its transform-free twin accepts (every transform of
  this file is the identity on them)."""
  out = []
  a = strip_transform(a)
  for x in vals(a, depth=0):
    try:
      if macc(a, ev(x)) is True:
        out.append(x)
    except Exception:  # pylint: disable=broad-except
      pass
    if len(out) >= n:
      break
  return out


_VALS = {}


def vals(a, depth=0):
  """Candidate values of a description: accepted, boundary and rejected ones."""
  key = (to_expr(a), depth)
  if key not in _VALS:
    out = []
    for x in _vals(a, depth):
      if x not in out:
        out.append(x)
    _VALS[key] = out
  return _VALS[key]


def _vals(a, depth):
  k = a['k']
  out = []
  if a['frozen'] is not None:
    out.append(a['frozen'])
  if a['default'] is not None and k != 'Enum':
    out.append(a['default'])
  if k == 'Bool':
    out += ['True', 'False', '1', '0', "'a'", '1.0']
  elif k == 'Int':
    mn, mx = a['min'], a['max']
    c = [0, 1, -1, 2, 6]
    if mn is not None:
      c = [mn, mn - 1, mn + 1] + c
    if mx is not None:
      c = [mx, mx + 1, mx - 1] + c
    out += [_num(x) for x in c] + ['True', '1.0', '0.5', "'a'", '[1]']
  elif k == 'Float':
    mn, mx = a['min'], a['max']
    c = [0.5, 0.0, 1.0, -0.5, 2.0]
    if mn is not None:
      c = [float(mn), mn - 0.5, mn + 0.5] + c
    if mx is not None:
      c = [float(mx), mx + 0.5, mx - 0.5] + c
    ints = [0, 1, 2, -1, 5]
    if mn is not None:
      ints = [int(mn) - 1] + ints
    if mx is not None:
      ints = [int(mx) + 1] + ints
    out += [_num(x) for x in c] + [_num(x) for x in ints] + ['True', "'a'"]
  elif k == 'Str':
    out += ["'a'", "''", "'ab'", "'b'", '1', "['a']"]
  elif k == 'Enum':
    out += list(a['values']) + ["'c'", "'zz'", '3', '1.0', 'True', '1', "'a'"]
  elif k == 'Any':
    out += ['1', "'a'", '[1]', "{'a': 1}", 'A()', 'f1', 'A', '0.5', '(1,)', 'True']
  elif k == 'Object':
    out += OBJ_VALUES + ["{'x': 1}", '1']
  elif k == 'Type':
    out += TYPE_VALUES + ['A()', '1', "'A'"]
  elif k in ('Callable', 'Functor'):
    out += CALL_VALUES + ['1', "'f1'"]
  elif k == 'List' or (k == 'Tuple' and not isinstance(a['elems'], list)):
    e = a['elem'] if k == 'List' else a['elems']
    mn, mx = sizes_of(a)
    ge = good(e, 2) or ['1']
    ev_ = vals(e, depth + 1)
    fmt = _list if k == 'List' else _tuple
    ns = {0, 1, 2, mn, mn + 1, max(mn - 1, 0)}
    if mx is not None:
      ns |= {mx, mx + 1}
    for n in sorted(x for x in ns if x <= 5):
      out.append(fmt([ge[i % len(ge)] for i in range(n)]))
    ok_n = max(mn, 1)
    lim = 10 if depth == 0 else 5
    for x in ev_[:lim]:
      out.append(fmt([ge[0]] * (ok_n - 1) + [x]))
    if ok_n > 1:
      out.append(fmt([ev_[min(1, len(ev_) - 1)]] + [ge[0]] * (ok_n - 1)))
    other = _tuple if k == 'List' else _list
    out.append(other([ge[0]] * ok_n))
    if k == 'List':
      out.append('pg.List(' + _list([ge[0]] * ok_n) + ')')
  elif k == 'Tuple':
    es = a['elems']
    gs = [(good(e, 1) or ['1'])[0] for e in es]
    out.append(_tuple(gs))
    lim = 8 if depth == 0 else 4
    for i, e in enumerate(es):
      for x in vals(e, depth + 1)[:lim]:
        out.append(_tuple(gs[:i] + [x] + gs[i + 1:]))
    out.append(_tuple(gs[:-1]))
    out.append(_tuple(gs + [gs[-1]]))
    out.append(_list(gs))
  elif k == 'Dict':
    out += ['{}', "{'a': 1}"]
    if a['fields'] is None:
      out += ["{'x': [1]}", 'pg.Dict(a=1)', "{'x': 1, 'y': 'a'}"]
    else:
      const = [(fk, fv) for fk, fv in a['fields'] if isinstance(fk, str)]
      dyn = [(fk, fv) for fk, fv in a['fields'] if not isinstance(fk, str)]
      gs = {fk: (good(fv, 1) or ['1'])[0] for fk, fv in const}
      full = dict(gs)
      out.append(_dict(full))
      lim = 8 if depth == 0 else 4
      for fk, fv in const:
        for x in vals(fv, depth + 1)[:lim]:
          out.append(_dict({**full, fk: x}))
        out.append(_dict({q: w for q, w in full.items() if q != fk}))
      out.append(_dict({**full, 'zz': '1'}))
      for fk, fv in dyn:
        names = ['k1', 'ab'] if fk[1] is None else ['ab', 'a', 'b1', 'k1']
        g = (good(fv, 1) or ['1'])[0]
        for n in names:
          out.append(_dict({**full, n: g}))
        for x in vals(fv, depth + 1)[:lim]:
          out.append(_dict({**full, names[0]: x}))
      if const:
        out.append('pg.Dict(' + _dict(full) + ')')
  elif k == 'Union':
    lim = 14 if depth == 0 else 5
    for c in a['cands']:
      out += vals(c, depth + 1)[:lim]
  if a['transform'] in VALIDATORS:
    # values of the spec's kind that the validator refuses.
    out += MARKED.get(k, [])
  out += WRONG if depth == 0 else WRONG[:4]
  return out


MARKED = {
    'Any': ['-1', '-0.5', '[1, -1]', "{'a': -1}", 'Q()', 'fu', 'C(r=-1)'],
    'List': ['[-1]', '[1, -1]'],
    'Tuple': ['(-1,)', "(-1, 'a')", '(1, -1)'],
    'Dict': ["{'a': -1}", "{'x': -1}", "{'k1': -1}"],
    'Object': ['C(r=-1)', 'C(r=[1, -1])', 'Q()'],
    'Callable': ['fu', 'g2(a=1, b=0.5)'],
    'Functor': ['g2(a=1, b=0.5)'],
}


def _list(xs):
  return '[' + ', '.join(xs) + ']'


def _tuple(xs):
  return '(' + ', '.join(xs) + (',)' if len(xs) == 1 else ')')


def _dict(d):
  return '{' + ', '.join(f'{k!r}: {v}' for k, v in d.items()) + '}'


# ---------------------------------------------------------------------------
# Structure fingerprints: "maps to itself".
# ---------------------------------------------------------------------------

def fp(v):
  """Structure + leaf types + leaf values; identity for opaque objects."""
  if v is None or isinstance(v, (bool, int, float, str)):
    return (type(v).__name__, v)
  if is_missing(v):
    return ('MISSING',)
  if isinstance(v, (list, tuple)):
    return (type(v).__name__, tuple(fp(e) for e in _seq(v)))
  if isinstance(v, dict):
    return (type(v).__name__,
            tuple(sorted(((str(k), fp(e)) for k, e in _items(v)), key=lambda x: x[0])))
  if isinstance(v, pg.Object):
    return (type(v).__name__, id(type(v)),
            tuple((k, fp(e)) for k, e in v.sym_items()))
  return ('obj', id(v))


# ---------------------------------------------------------------------------
# The universe.
# ---------------------------------------------------------------------------

def first_good(a):
  """An accepted value expression usable as default / frozen value (objects
  that are only equal to themselves are not: a clone would differ)."""
  for g in good(a, 6):
    if not re.search(r'\b[PQK]\(\)', g):
      return g
  return None


def modifiers(a, full=True):
  """a plus its noneable / default / frozen variants."""
  out = [a]
  k = a['k']
  g = first_good(a)
  if k != 'Any':
    out.append(mod(a, noneable=True))
    if full and k not in ('Enum',):
      out.append(mod(a, nn_ctor=True))
  if g is not None:
    if k == 'Enum':
      if a['default'] is None:
        out.append(mod(a, default=a['values'][-1]))
    else:
      out.append(mod(a, default=g))
      if full and k != 'Any':
        out.append(mod(a, default=g, noneable=True))
    fv = a['values'][-1] if k == 'Enum' else g
    out.append(mod(a, frozen=fv))
    if full and k != 'Any':
      out.append(mod(a, noneable=True, frozen=fv))
  return out


_ENUM_POOL = {'I': ['1', '2', '3', '4'], 'S': ["'a'", "'b'", "'c'", "'d'"],
              'F': ['2.5', '3.5', '4.5'], 'B': ['True', 'False'], 'N': ['None'],
              'O': ['A()', 'B()', 'A(x=5)']}
# one letter per candidate: I int, S str, F float, B bool (an int), N None,
# O symbolic object (B is a subclass of A).
_ENUM_PATTERNS_QUICK = ['ISI', 'SIS', 'IIS', 'SII', 'ISS', 'SSI', 'ISF', 'FIS', 'BSI', 'SBI',
                        'INSI', 'ISIS', 'IISI', 'SISI', 'OSO', 'ISNI']
_ENUM_PATTERNS_MORE = ['IFS', 'SIF', 'FSI', 'ISB', 'IBS', 'BIS', 'NISI', 'ISIN', 'SSIS', 'ISII',
                       'IIIS', 'SIII', 'ISSI', 'IFSI', 'BSBI', 'SOO', 'OOS', 'ISFSI', 'SISIS']


def enum_of(pattern):
  """The Enum description with one candidate per letter of `pattern`."""
  pool = {k: list(v) for k, v in _ENUM_POOL.items()}
  if 'B' in pattern:
    pool['I'] = pool['I'][1:]          # (True == 1: no candidate twice.)
  return Enum([pool[ch].pop(0) for ch in pattern])


def mixed_enums(thorough):
  """Enums whose candidates have unrelated types (no type check on the value
  then, all the listed candidates are acceptable): 3 to 5 candidates with the
  odd one out at every position, with bool / float / None / objects of related
  classes among them; noneable / default / frozen variants with the default and
  the frozen value at the odd position and elsewhere."""
  out = []
  pats = _ENUM_PATTERNS_QUICK + (_ENUM_PATTERNS_MORE if thorough else [])
  for i, p in enumerate(pats):
    a = enum_of(p)
    if thorough or i < 3:
      out += modifiers(a, full=thorough)
      odd = a['values'][1]
      out += [mod(a, default=odd), mod(a, frozen=odd), mod(a, frozen=a['values'][0])]
    else:
      out.append(a)
  # (`mixed`: the quick tier of the extension drivers takes every 6th of these.)
  return [mod(a, mixed=n) for n, a in enumerate(out)]


def atoms(tier):
  thorough = tier == 'thorough'
  out = []
  ints = [Int(), Int(0), Int(None, 5), Int(0, 5), Int(2, 3), Int(3, 3), Int(None, 0)]
  floats = [Float(), Float(0.0), Float(None, 1.0), Float(0.0, 1.0), Float(0.5, 2.5),
            Float(None, 0.5)]
  if thorough:
    ints += [Int(1), Int(-1, 1), Int(None, 3), Int(1, 5)]
    floats += [Float(-1.0, 1.0), Float(1.0), Float(None, 2.0)]
  for a in ints + floats:
    out += modifiers(a, full=thorough or a in (ints[0], ints[3], floats[0], floats[3]))
  out.append(Float(default='1'))          # int default of a Float
  out.append(Float(0.0, 5.0, frozen='2'))
  out += modifiers(Bool())
  out += modifiers(Str())
  out += [Str('a.*'), Str('a.*', default="'ab'"), Str('a.*', noneable=True),
          Str('a.*', frozen="'a'"), Str('[a-b]+')]
  enums = [Enum(["'a'", "'b'"]), Enum(["'a'", "'b'", "'c'"]), Enum(['1', '2', '3']),
           Enum(['1', "'a'", 'None']), Enum(["'a'"]), Enum(['1.0', '2.0']),
           Enum(['True', '2'])]
  for a in enums:
    out += modifiers(a, full=thorough)
  out.append(Enum(["'a'", "'b'"], default="'a'"))
  out.append(Enum(["'a'", "'b'", "'c'"], default="'a'", frozen="'b'"))
  out += mixed_enums(thorough)
  out += modifiers(Any())
  out += [Any(transform='tr_id'), Any(default='None')]
  for c in ('A', 'B', 'C', 'P', 'Q', 'K'):
    out += modifiers(Object(c), full=thorough or c in 'AB')
  out.append(Object('A', default='B()'))
  out.append(Object('A', transform='tr_a'))
  for c in ('A', 'B', 'P', 'Q', 'K', 'int'):
    out += modifiers(Type(c), full=thorough or c in 'AB')
  out.append(Type('A', default='B'))
  calls = [Callable(), Callable([Int()]), Callable([Int(), Float()]), Callable([Str()]),
           Callable(returns=Int()), Callable([Int()], returns=Int()),
           Callable(returns=Str()), Callable(kw_=[('x', Int())]),
           Callable([Int()], kw_=[('x', Int())]), Callable([Any()]),
           Callable([Int(0)]), Callable([Int(), Int(), Int()]),
           Callable(functor=True), Callable([Int()], functor=True),
           Callable([Int()], returns=Int(), functor=True),
           Callable([Str()], functor=True)]
  for a in calls:
    out += modifiers(a, full=False) if thorough or a in calls[:2] or a is calls[12] else [a]
  out.append(Callable(default='f1'))
  return out


ELEMS_QUICK = lambda: [Int(), Int(0), Int(0, 5), Float(), Float(0.0, 1.0), Str(), Bool(),
                       Any(), Enum(["'a'", "'b'"]), Object('A'), Object('B'),
                       Int(noneable=True), Int(default='1')]
SIZES = [(None, None, None), (1, None, None), (2, None, None), (None, 2, None),
         (1, 2, None), (1, 3, None), (None, None, 2), (None, 3, None), (None, None, 0)]


def containers(tier):
  thorough = tier == 'thorough'
  out = []
  elems = ELEMS_QUICK()
  # Lists / variable tuples: all size variants on a few elements, all elements
  # on a few size variants.
  for ctor, var in ((List, lambda e: e), (Tuple, lambda e: e)):
    for i, e in enumerate(elems):
      szs = SIZES if (i < 2 or thorough) else SIZES[:1] + SIZES[4:5]
      for mn, mx, sz in szs:
        out.append(ctor(var(e), mn, mx, sz))
    base = ctor(Int())
    out += modifiers(base)[1:]
    out += modifiers(ctor(Int(0), 1, 3), full=False)[1:]
  out.append(List(Int(), default='[]'))
  out.append(List(Int(), 1, 2, default='[1, 2]'))
  out.append(List(Int(), transform='tr_list'))
  out.append(Tuple(Int(), transform='tr_tuple'))
  out.append(Tuple(Int(), 1, 2, transform='tr_tuple'))
  # Fixed tuples.
  fixed = [[Int()], [Int(), Int()], [Int(), Str()], [Int(0), Int()], [Int(), Int(0, 5)],
           [Float(), Int()], [Int(), Str(), Bool()], [Any(), Any()],
           [Int(noneable=True), Str()], [Int(default='1'), Str()]]
  for es in fixed:
    out.append(Tuple(es))
  out += modifiers(Tuple([Int(), Str()]))[1:]
  # Dicts.
  SK, SKA = ('str', None), ('str', 'a.*')
  dicts = [
      Dict(), Dict([('x', Int())]), Dict([('x', Int(0))]), Dict([('x', Int(0, 5))]),
      Dict([('x', Int(default='1'))]), Dict([('x', Int(noneable=True))]),
      Dict([('x', Int(nn_ctor=True))]),
      Dict([('x', Int()), ('y', Str())]), Dict([('x', Int()), ('y', Str(noneable=True))]),
      Dict([('x', Int(0)), ('y', Str(default="'a'"))]),
      Dict([('y', Str())]), Dict([('x', Float())]), Dict([('x', Any())]),
      Dict([('x', Int(frozen='1'))]),
      Dict([(SK, Int())]), Dict([(SK, Int(0))]), Dict([(SK, Any())]), Dict([(SK, Str())]),
      Dict([(SKA, Int())]), Dict([(SKA, Int(0))]), Dict([('x', Int()), (SK, Int())]),
      Dict([('x', Int()), (SK, Str())]), Dict([('x', Int(0)), (SKA, Int())]),
      Dict([('x', Str()), (SK, Int())]),
      Dict([('x', Int())], transform='tr_id'),
  ]
  for a in dicts:
    out.append(a)
  out += modifiers(Dict([('x', Int())]))[1:]
  out += modifiers(Dict(), full=False)[1:]
  out += modifiers(Dict([('x', Int(default='1')), ('y', Str(noneable=True))]), full=False)[1:]
  out.append(Dict([('x', Int()), ('y', Str())], default="{'x': 1, 'y': 'a'}"))
  # Unions.
  unions = [
      Union([Int(), Str()]), Union([Str(), Int()]), Union([Int(), Float()]),
      Union([Float(), Int()]), Union([Float(0.0, 1.0), Int()]),
      Union([Int(), Float(0.0, 1.0)]), Union([Float(None, 0.5), Int(0), Str()]),
      Union([Str(), Float(None, 0.5), Int()]), Union([Int(None, 3), Float()]),
      Union([Float(), Str()]), Union([Float(0.0), Bool()]), Union([Int(0), Str()]),
      Union([Int(0, 5), Str()]),
      Union([Int(), Bool()]), Union([Bool(), Int()]), Union([Int(None, 0), Bool()]),
      Union([Bool(), Int(None, 0)]), Union([Bool(), Str()]),
      Union([Int(), Str(), Bool()]), Union([Int(), Str(), Float()]),
      Union([List(Int()), Tuple(Int())]), Union([List(Int(0)), Int()]),
      Union([List(Int(), None, 2), Str()]), Union([Tuple([Int(), Str()]), Int()]),
      Union([Dict([('x', Int())]), Int()]), Union([Dict(), List(Any())]),
      Union([Object('A'), Object('C')]), Union([Object('B'), Int()]),
      Union([Object('A'), Int()]), Union([Object('P'), Object('A')]),
      Union([Callable(), Int()]), Union([Callable([Int()]), Str()]),
      Union([Int(), Callable()]), Union([Callable(functor=True), Int()]),
      Union([Type('A'), Int()]), Union([Enum(["'a'", "'b'"]), Int()]),
      Union([Str(), Union([Int(), Float()])]), Union([Union([Int(0), Str()]), Bool()]),
      Union([Any(), Int()]), Union([Int(), Any()]),
      Union([Int(noneable=True), Str()]), Union([Int(), Str(noneable=True)]),
      Union([Object('K'), Callable([Int()])]), Union([Callable([Int()]), Object('K')]),
      Union([Float(0.5), Union([Callable(), Float(None, 1.0)])]),
      Union([Str(frozen="'a'"), Int()]), Union([Type('P'), Callable([Int()])]),
  ]
  for a in unions:
    out.append(a)
  out += modifiers(unions[0], full=True)[1:]
  for a in (unions[2], unions[4], unions[20]):
    out += modifiers(a, full=thorough)[1:]
  return out


def nested(tier):
  """Depth 2-3 combinations."""
  thorough = tier == 'thorough'
  out = []
  u_is = Union([Int(), Str()])
  u_fi = Union([Float(0.0, 1.0), Int()])
  d_x = Dict([('x', Int())])
  d_x0 = Dict([('x', Int(0))])
  inner = [List(Int()), List(Int(0)), List(Int(), None, 2), List(Int(), 1), u_is, u_fi,
           Union([Int(0), Str()]), d_x, d_x0, Dict([('x', Int()), ('y', Str(noneable=True))]),
           Tuple([Int(), Str()]), Tuple(Int(), None, 2), Tuple(Int()), Object('A'),
           Object('B'), Dict([(('str', None), Int())]), List(Int(), noneable=True),
           Callable([Int()]), Type('A')]
  for e in inner:
    out.append(List(e))
    out.append(Dict([('d', e)]))
    if thorough:
      out.append(List(e, 1, 2))
      out.append(Tuple(e))
      out.append(Tuple([e, Int()]))
      out.append(Dict([('d', e), ('x', Int())]))
      out.append(Dict([(('str', None), e)]))
      out.append(Union([e, Bool()]) if e['k'] != 'Union' else Union([e, Type('A')]))
  out += [
      Tuple([List(Int()), Str()]), Tuple(List(Int(), None, 2)),
      Tuple(u_is, 1, 3), Tuple([u_fi, Int()]),
      List(List(List(Int(), None, 2))), List(List(u_is)), List(Dict([('d', d_x0)])),
      Dict([('d', Dict([('e', d_x)]))]), Dict([('d', Dict([('e', d_x0)]))]),
      Dict([('d', Dict([('x', Int(default='1'))]))]),
      Dict([('d', d_x), ('l', List(u_is))]), Dict([('d', d_x0), ('l', List(Union([Int(0), Str()])))]),
      Dict([('d', Dict([('x', Int()), ('y', Str(default="'a'"))]))]),
      Dict([('l', List(Int(), default='[]')), ('u', Union([Int(), Str()], default='1'))]),
      Union([List(u_is), Int()]), Union([List(List(Int())), Dict([('x', List(Int()))])]),
      Union([Dict([('d', d_x)]), List(d_x)]), List(Union([List(Int()), Int()])),
      List(Union([Object('A'), Int()])), List(Union([Object('B'), Int()])),
      List(Tuple([Int(), Union([Str(), Bool()])])),
      Callable([List(Int())]), Callable([u_is]), Callable([Int()], returns=List(Int())),
      Dict([('f', Callable([Int()])), ('t', Type('A'))]),
      Dict([('f', Callable()), ('t', Type('B'))]),
      List(d_x, default="[{'x': 1}]"), Dict([('d', d_x)], noneable=True),
      List(u_is, frozen="[1, 'a']"), Dict([('d', List(Int(), 1))]),
      Dict([('d', List(Int(), 1, default='[1]'))]),
  ]
  return out


def transforms(tier):
  """Specs with a user transform: every spec class that takes one (List, Tuple,
  Dict, Object, Callable, Functor, Any), with and without a default (a default
  makes the constructor apply the spec once, before any extension), noneable /
  frozen, and nested below transform-free containers and unions."""
  thorough = tier == 'thorough'
  SK = ('str', None)
  tops = [
      (List(Int()), 'tr_list'), (List(Int(0)), 'tr_list'), (List(Int(), None, 2), 'tr_list'),
      (List(Int(), 1), 'tr_list'), (List(Dict([('x', Int())])), 'tr_id'),
      (Tuple(Int()), 'tr_tuple'), (Tuple(Int(0), None, 3), 'tr_tuple'),
      (Tuple(Int(), 1), 'tr_tuple'), (Tuple([Int(), Str()]), 'tr_tuple'),
      (Tuple([Int()]), 'tr_id'),
      (Dict(), 'tr_id'), (Dict([('x', Int())]), 'tr_id'),
      (Dict([('x', Int(default='1'))]), 'tr_id'),
      (Dict([('x', Int()), ('y', Str(noneable=True))]), 'tr_id'),
      (Dict([(SK, Int())]), 'tr_id'), (Dict([('d', List(Int()))]), 'tr_id'),
      (Object('A'), 'tr_a'), (Object('B'), 'tr_id'), (Object('P'), 'tr_id'),
      (Callable(), 'tr_id'), (Callable([Int()]), 'tr_id'),
      (Callable(functor=True), 'tr_id'), (Any(), 'tr_id'),
  ]
  out = []
  for i, (a, tr) in enumerate(tops):
    a = mod(a, transform=tr)
    ms = modifiers(a, full=thorough or i in (0, 11))
    out += ms
  # nested: the transform sits on an element / field / candidate.
  tl = List(Int(), transform='tr_list')
  tld = List(Int(), transform='tr_list', default='[1]')
  ttd = Tuple(Int(), transform='tr_tuple', default='(1,)')
  tdd = Dict([('x', Int())], transform='tr_id', default="{'x': 1}")
  td0 = Dict(transform='tr_id', default='{}')
  toa = Object('A', transform='tr_a', default='A()')
  for e in (tl, tld, ttd, tdd, td0, toa):
    out.append(List(e))
    out.append(Dict([('d', e)]))
    if thorough or e in (tld, ttd):
      out.append(Tuple([e, Int()]))
      out.append(Tuple(e))
      out.append(Union([e, Int()]))
      out.append(Dict([(SK, e)]))
      out.append(List(e, default='[]'))
  return out


def validators(tier):
  """Specs whose user transform is a *validator* (va_mark: the identity or a
  refusal): every spec class that takes a transform, with noneable / default /
  frozen variants; the validator on an element / field / union candidate
  (`Any(transform=...)` below every container: the way to constrain a value of
  any type); and transform-free specs whose default / frozen value is one the
  validator refuses (children of such bases)."""
  thorough = tier == 'thorough'
  SK = ('str', None)
  va = 'va_mark'
  out = []
  tops = [Any(), List(Int()), Tuple(Int()), Tuple([Int(), Str()]), Dict(),
          Dict([('x', Int())]), Object('C'), Callable(), Callable(functor=True)]
  if thorough:
    tops += [List(Int(0, 5), 1, 3), Tuple(Int(), 1, 2), Object('A'), Object('P'),
             Dict([(SK, Int())]), Callable([Int()]),
             Dict([('x', Int(default='1')), ('y', Str(noneable=True))])]
  for i, a in enumerate(tops):
    ms = modifiers(mod(a, transform=va), full=thorough)
    out += ms if thorough or i in (0, 1, 5) else ms[:1]
  av = Any(transform=va)
  lv = List(Int(), transform=va)
  dv = Dict([('x', Int())], transform=va)
  out += [
      List(av), Tuple(av), Tuple([av, Str()]), Dict([('x', av)]), Dict([(SK, av)]),
      Dict([('x', Any(transform=va, default='1'))]), List(lv), Dict([('d', lv)]),
      Union([lv, Str()]), Union([dv, Int()]), Union([Tuple(Int(), transform=va), List(Int())]),
      Union([Object('C', transform=va), Int()]), Union([Callable(transform=va), Int()]),
  ]
  if thorough:
    out += [
        List(av, 1, 2), Tuple([Int(), av]), Dict([('x', av), ('y', Str())]), List(List(av)),
        Dict([('d', List(av))]), Dict([('d', dv)]), Tuple([lv, Int()]), Union([Str(), lv]),
        Union([List(av), Str()]), List(Union([lv, Int()])),
    ]
  # transform-free children holding a marked value as default / frozen value.
  # (`marked`: in the quick tier mostly extended on bases that have a validator.)
  held = [Int(default='-1'), Int(frozen='-1'), Float(default='-0.5'), Int(None, 0, default='-1'),
          List(Int(), default='[-1]'), List(Int(), frozen='[1, -1]'), Tuple(Int(), default='(-1,)'),
          Dict([('x', Int(default='-1'))]), Dict([('x', Int())], default="{'x': -1}"),
          Dict(default="{'a': -1}"), Object('C', default='C(r=-1)'), Callable(default='fu'),
          Enum(['-1', '1']), Enum(['-1', '1'], default='-1'),
          Union([Int(), Str()], default='-1'), Any(default='-1')]
  out += [mod(a, marked=True) for a in held]
  return out


def rand_spec(r, depth):
  """A seeded random description (bounds and sizes from small sets)."""
  leaf = depth <= 0 or r.random() < 0.3
  if leaf:
    k = r.choice(['Int', 'Int', 'Float', 'Str', 'Bool', 'Enum', 'Any', 'Object', 'Type',
                  'Callable'])
  else:
    k = r.choice(['List', 'Tuple', 'TupleF', 'Dict', 'Dict', 'Union', 'Union'])
  if k == 'Int':
    mn = r.choice([None, None, 0, 1, 2])
    mx = r.choice([None, None, 3, 5])
    a = Int(mn, mx)
  elif k == 'Float':
    mn = r.choice([None, None, 0.0, 0.5])
    mx = r.choice([None, None, 1.0, 2.5])
    a = Float(mn, mx)
  elif k == 'Str':
    a = Str()
  elif k == 'Bool':
    a = Bool()
  elif k == 'Enum':
    a = Enum(r.choice([["'a'", "'b'"], ["'a'", "'b'", "'c'"], ['1', '2'], ['1', "'a'"]]))
  elif k == 'Any':
    a = Any()
  elif k == 'Object':
    a = Object(r.choice(['A', 'B', 'C', 'P', 'Q']))
  elif k == 'Type':
    a = Type(r.choice(['A', 'B', 'P', 'Q']))
  elif k == 'Callable':
    a = Callable([rand_spec(r, 0) for _ in range(r.choice([0, 1, 1, 2]))],
                 functor=r.random() < 0.2)
  elif k in ('List', 'Tuple'):
    mn = r.choice([None, None, 1, 2])
    mx = r.choice([None, None, 2, 3])
    if mn is not None and mx is not None and mn > mx:
      mx = mn
    a = (List if k == 'List' else Tuple)(rand_spec(r, depth - 1), mn, mx)
  elif k == 'TupleF':
    a = Tuple([rand_spec(r, depth - 1) for _ in range(r.choice([1, 2, 2, 3]))])
  elif k == 'Dict':
    keys = r.sample(['x', 'y', 'z'], r.choice([1, 1, 2]))
    fields = [(q, rand_spec(r, depth - 1)) for q in sorted(keys)]
    if r.random() < 0.3:
      fields.append((r.choice([('str', None), ('str', 'a.*')]), rand_spec(r, depth - 1)))
    a = Dict(fields)
  else:
    cands, seen = [], set()
    for _ in range(r.choice([2, 2, 3])):
      for _ in range(6):
        c = rand_spec(r, depth - 1)
        sig = (c['k'], c.get('cls'))
        if sig not in seen and c['k'] != 'Any':
          seen.add(sig)
          cands.append(c)
          break
    if len(cands) < 2:
      return rand_spec(r, 0)
    a = Union(cands)
  p = r.random()
  if a['k'] != 'Any' and p < 0.15:
    a = mod(a, noneable=True)
  elif p < 0.3:
    g = first_good(a)
    if g is not None and a['k'] != 'Enum':
      a = mod(a, default=g)
  elif p < 0.36 and depth >= 0:
    g = first_good(a)
    if g is not None:
      a = mod(a, frozen=g)
  return a


CORE = ['None', '1', "'a'", '[1]', '(1,)', "{'x': 1}", 'A()', 'f1', 'A', 'True', '0.5',
        '0', '-1', '6', '1.0', '[]', '()', '{}']


class Universe:
  """Specs (description, expression, object), the value pool and the lazily
  evaluated acceptance matrix.

  acc[i] has bit j set iff spec i accepts pool value j; canon[i] likewise for
  the values spec i maps to themselves; known[i] marks the evaluated cells.
  Every spec is evaluated on its own pool and on CORE; any other cell is
  evaluated the first time a check needs it.
  """

  def __init__(self, tier, seed, want=lambda a: True, n_random=None, rec=None):
    r = rng(seed, 'c04-universe')
    descs = (atoms(tier) + containers(tier) + nested(tier) + transforms(tier) +
             validators(tier))
    if n_random is None:
      n_random = 70 if tier == 'quick' else 400
    self.n_random = n_random
    for _ in range(n_random):
      descs.append(rand_spec(r, r.choice([1, 2, 2, 3])))
    # Union candidates take part as specs of their own (union.* checks).
    for a in list(descs):
      if a['k'] == 'Union':
        descs.extend(a['cands'])
    self.descs, self.exprs, self.specs = [], [], []
    seen = set()
    for a in descs:
      if not want(a):
        continue
      e = to_expr(a)
      if e in seen:
        continue
      seen.add(e)
      try:
        sobj = ev(e)
      except OK_ERRORS:
        continue        # not a constructible spec: nothing is claimed about it.
      self.descs.append(a)
      self.exprs.append(e)
      self.specs.append(sobj)
    self.index = {e: i for i, e in enumerate(self.exprs)}
    self.pool, self.vidx = [], {}
    n = len(self.specs)
    self.acc, self.canon, self.known = [0] * n, [0] * n, [0] * n
    self.rec = rec                       # apply laws are checked on every cell.
    core = self.mask(CORE)
    self.own = []
    for i, a in enumerate(self.descs):
      m = self.mask(vals(a)) | core
      self.own.append(m)
    for i in range(n):
      self.ensure(i, self.own[i])

  def mask(self, exprs):
    m = 0
    for x in exprs:
      j = self.vidx.get(x)
      if j is None:
        j = self.vidx[x] = len(self.pool)
        self.pool.append(x)
      m |= 1 << j
    return m

  def ensure(self, i, m):
    """Evaluates the cells of row i in mask m that are not yet known."""
    todo = m & ~self.known[i]
    for j in bits(todo):
      self._cell(i, j)
    self.known[i] |= m
    return self.acc[i] & m

  def accepts(self, i, j):
    if not self.known[i] >> j & 1:
      self._cell(i, j)
      self.known[i] |= 1 << j
    return bool(self.acc[i] >> j & 1)

  def _cell(self, i, j):
    sobj, e, k = self.specs[i], self.exprs[i], self.descs[i]['k']
    x = self.pool[j]
    rec = self.rec
    v = ev(x)
    f0 = fp(v)
    try:
      r = sobj.apply(v)
    except OK_ERRORS:
      return
    except Exception as ex:  # pylint: disable=broad-except
      if rec is not None:
        rec.case(f'apply.error-class/{k}', (e, x), False,
                 f'{e}.apply({x}) raised {type(ex).__name__}: {ex}',
                 fit(pre(e, x) + f's = {e}\ntry:\n  s.apply({x})\n'
                     'except (TypeError, ValueError, KeyError):\n  pass\n', (e, x)))
      return
    self.acc[i] |= 1 << j
    f1 = fp(r)
    if f0 == f1:
      self.canon[i] |= 1 << j
    if rec is None:
      return
    # (1) accepted again and mapped to itself.
    def w():
      return fit(pre(e, x) + f's = {e}\nr = s.apply({x})\n'
                 'assert acc(s, r), "not accepted again"\nr2 = s.apply(r)\n'
                 'assert type(r2) is type(r) and pg.eq(r2, r), (r, r2)\n', (e, x))
    try:
      r2 = sobj.apply(r)
    except Exception as ex:  # pylint: disable=broad-except
      rec.case(f'apply.reaccepted/{k}', (e, x), False,
               f'r = {e}.apply({x}) = {R(r)} is rejected by the same spec: '
               f'{type(ex).__name__}: {ex}', w())
      return
    rec.case(f'apply.reaccepted/{k}', (e, x), True)
    if f1 == fp(r2):
      rec.case(f'apply.idempotent/{k}', (e, x), True)
    else:
      rec.case(f'apply.idempotent/{k}', (e, x), False,
               f'r = {e}.apply({x}) = {R(r)}, but apply(r) = {R(r2)}', w())

  def check_unchanged(self, rec):
    """Applying never changes the spec (== and repr of a fresh clone)."""
    for i, (sobj, e) in enumerate(zip(self.specs, self.exprs)):
      k = self.descs[i]['k']
      clone = ev(e)
      same = repr(sobj) == repr(clone)
      if clone == ev(e):      # (some specs are not equal to their own clones.)
        same = same and sobj == clone and clone == sobj
      w = ''
      if not same:
        culprit = None               # the first value whose application changes it.
        s2 = ev(e)
        for j in bits(self.known[i]):
          try:
            s2.apply(ev(self.pool[j]))
          except Exception:  # pylint: disable=broad-except
            pass
          if not (s2 == clone and repr(s2) == repr(clone)):
            culprit = self.pool[j]
            break
        w = (pre(e, culprit or '') + f's = {e}\nc = {e}\ntry:\n  s.apply({culprit})\n'
             'except (TypeError, ValueError, KeyError):\n  pass\n'
             'assert s == c and repr(s) == repr(c), (s, c)\n')
      rec.case(f'apply.spec-unchanged/{k}', e, same,
               f'{e} differs from a fresh clone after applying '
               f'{bin(self.known[i]).count("1")} values: {R(sobj)}', fit(w, e))


def R(v):
  try:
    return repr(v)
  except Exception as ex:  # pylint: disable=broad-except
    return f'<{type(v).__name__}: repr raised {type(ex).__name__}>'


def bits(mask):
  j = 0
  while mask:
    if mask & 1:
      yield j
    mask >>= 1
    j += 1


def acc_live(spec, x, **kw):
  """(accepted, error) of applying a fresh evaluation of value expression x."""
  try:
    spec.apply(ev(x), **kw)
    return True, None
  except OK_ERRORS:
    return False, None
  except Exception as ex:  # pylint: disable=broad-except
    return False, ex


def n_random(tier, quick, thorough):
  return quick if tier == 'quick' else thorough


# ---------------------------------------------------------------------------
# Driver 1: apply laws, structural expectation, defaults, frozen, unions.
# ---------------------------------------------------------------------------

def drv_apply(tier, seed):
  rec = Recorder('C04', 'apply: re-accepted / idempotent / spec unchanged; defaults; '
                 'frozen; union iff candidate; structural expectation', scope='')
  U = Universe(tier, seed, rec=rec)
  for i, (a, e, sobj) in enumerate(zip(U.descs, U.exprs, U.specs)):
    k = a['k']
    # structural expectation.
    for j in bits(U.own[i]):
      x = U.pool[j]
      try:
        want = macc(a, ev(x))
      except Exception:  # pylint: disable=broad-except
        want = None
      if want is None:
        continue
      got = U.accepts(i, j)
      if got != want:
        tag = diag(a, ev(x)) if want is False else 'rejects-' + vkind(ev(x))
        rec.case(f'accept.model/{k}-{tag}', (e, x), False,
                 f'{e} {"accepts" if got else "rejects"} {x}; expected the opposite',
                 fit(pre(e, x) + f'assert acc({e}, {x}) == {want}\n', (e, x)))
      else:
        rec.case(f'accept.model/{k}', (e, x), True)
    _check_default(rec, 'default.accepted', e, sobj, k)
    if a['frozen'] is None:
      if k != 'Any':
        _check_default(rec, 'default.accepted-after-noneable', e + '.noneable()', None, k)
      if a['default'] is not None or k == 'Dict' or a['noneable']:
        _check_default(rec, 'default.accepted-after-freeze', e + '.freeze()', None, k)
    _check_default_mutators(rec, U, i)
    # (6) frozen specs accept exactly their frozen value.
    if a['frozen'] is not None:
      d = sobj.default
      fd = fp(d)
      w = pre(e) + f's = {e}\nimport copy\nr = s.apply(copy.deepcopy(s.default))\n' \
          'assert type(r) is type(s.default) and pg.eq(r, s.default), r\n'
      try:
        r = ev(e).apply(copy.deepcopy(d))
        ok, msg = fp(r) == fd, f'{e}.apply(frozen value) = {R(r)}, frozen value {R(d)}'
      except Exception as ex:  # pylint: disable=broad-except
        ok, msg = False, f'{e} rejects its frozen value {R(d)}: {type(ex).__name__}: {ex}'
      rec.case(f'frozen.accepts-own-value/{k}', e, ok, msg, fit(w, e))
      for j in bits(U.own[i]):
        x = U.pool[j]
        v = ev(x)
        if is_missing(v):
          continue
        got = U.accepts(i, j)
        if fp(v) == fd:
          rec.case(f'frozen.accepts-own-value/{k}', (e, x), got,
                   f'{e} rejects its frozen value {x}',
                   fit(pre(e, x) + f'assert acc({e}, {x})\n', (e, x)))
        elif not loose_eq(v, d):
          rec.case(f'frozen.rejects-other-value/{k}', (e, x), not got,
                   f'{e} accepts {x}, which is not its frozen value {R(d)}',
                   fit(pre(e, x) + f'assert not acc({e}, {x})\n', (e, x)))
    # (5) unions.
    if k == 'Union' and a['frozen'] is None and not has_transform(a):
      _check_union(rec, U, i)
  U.check_unchanged(rec)
  rec.scope = (f'{len(U.specs)} specs (all spec classes, modifiers, depth<=3, '
               f'{U.n_random} seeded random), each on its own pool + core values '
               f'({len(U.pool)} distinct values)')
  return rec.result()


def _check_default(rec, cid, e, sobj, k):
  if sobj is None:
    try:
      sobj = ev(e)
    except Exception:  # pylint: disable=broad-except
      return                     # the modifier refused: nothing is claimed.
  d = sobj.default
  if is_missing(d):
    return
  try:
    dd = copy.deepcopy(d)
    sobj.apply(dd, allow_partial=True)
    rec.case(f'{cid}/{k}', e, True)
  except Exception as ex:  # pylint: disable=broad-except
    w = (pre(e) + f's = {e}\nd = s.default\nimport copy\n'
         'assert MV == d or acc(s, copy.deepcopy(d), allow_partial=True), d\n')
    rec.case(f'{cid}/{k}', e, False,
             f'{e} rejects its own default {R(d)}: {type(ex).__name__}: {ex}', fit(w, e))


_MUTATORS = ('set_default', 'freeze')
_SELF_EQ_ONLY = re.compile(r'\b[PQK]\(\)')


def acc_live_v(spec, v, **kw):
  try:
    spec.apply(v, **kw)
    return True
  except Exception:  # pylint: disable=broad-except
    return False


def _check_default_mutators(rec, U, i):
  """`set_default(v)` / `freeze(v)` on a fresh clone, for values the spec
  rejects (one per kind of value + the first boundary values of its pool) and
  values it accepts (as they are / by conversion): whether the call is refused
  (raises) or succeeds, the default the spec carries afterwards is acceptable
  to it.  (`use_default_apply=False` / `apply_before_use=False` ask for the
  value to be stored unchecked and are outside the claim.)"""
  a, e, k = U.descs[i], U.exprs[i], U.descs[i]['k']
  rej, ok, kinds = [], [], set()
  conv = None
  for x in vals(a) + CORE:
    j = U.vidx[x]
    if x in rej or x in ok or x == conv or _SELF_EQ_ONLY.search(x):
      continue      # (objects equal only to themselves: a clone would differ.)
    if U.acc[i] >> j & 1:
      if U.canon[i] >> j & 1:
        if len(ok) < 2:
          ok.append(x)
      elif conv is None:
        conv = x
      continue
    v = ev(x)
    if is_missing(v):
      continue
    vk = vkind(v)
    if vk not in kinds or len(rej) < 3:
      kinds.add(vk)
      rej.append(x)
  for x in rej[:8] + ok + ([conv] if conv else []):
    for op in _MUTATORS:
      s = ev(e)
      try:
        getattr(s, op)(ev(x))
        how = op if op == 'set_default' else 'freeze-value'
      except OK_ERRORS:
        how = 'refused-' + op
      except Exception as ex:  # pylint: disable=broad-except
        rec.case(f'default.{op}-error-class/{k}', (e, x), False,
                 f'{e}.{op}({x}) raised {type(ex).__name__}: {ex}',
                 fit(pre(e, x) + f's = {e}\ntry:\n  s.{op}({x})\n'
                     'except (TypeError, ValueError, KeyError):\n  pass\n', (e, x)))
        continue
      d = s.default
      cid = f'default.accepted-after-{how}/{k}'
      if is_missing(d):
        rec.case(cid, (e, x), True, nontrivial=False)
        continue
      try:
        s.apply(copy.deepcopy(d), allow_partial=True)
        rec.case(cid, (e, x), True)
      except Exception as ex:  # pylint: disable=broad-except
        if not how.startswith('refused') and a['frozen'] is None:
          # the stored default is apply(v): if apply(v) as such is not accepted
          # again, this is the failure of that law (one defect, one id).
          try:
            r = ev(e).apply(ev(x), allow_partial=True)
            if fp(r) == fp(d) and not acc_live_v(ev(e), r, allow_partial=True):
              cid = f'apply.reaccepted/{k}'
          except Exception:  # pylint: disable=broad-except
            pass
        rec.case(cid, (e, x), False,
                 f'after {e}.{op}({x}) ({"refused" if how.startswith("refused") else "succeeded"}) '
                 f'the spec carries the default {R(d)}, which it rejects: '
                 f'{type(ex).__name__}: {ex}',
                 fit(pre(e, x) + f's = {e}\ntry:\n  s.{op}({x})\n'
                     'except (TypeError, ValueError, KeyError):\n  pass\n'
                     'import copy\nd = s.default\n'
                     'assert MV == d or acc(s, copy.deepcopy(d), allow_partial=True), d\n',
                     (e, x)))


def pytypes(a):
  """The Python types a description matches without conversion (None: any)."""
  k = a['k']
  table = dict(Bool=(bool,), Int=(int,), Float=(float,), Str=(str,), List=(list,),
               Tuple=(tuple,), Dict=(dict,), Type=(type,), Functor=(pg.Functor,))
  if k in table:
    return table[k]
  if k == 'Object':
    return (NS[a['cls']],)
  if k == 'Enum':
    return tuple({type(ev(x)) for x in a['values']} - {type(None)})
  if k == 'Union':
    out = ()
    for c in a['cands']:
      ts = pytypes(c)
      if ts is None:
        return None
      out += ts
    return out
  return None                         # Callable, Any.


def shadow_tag(a, v, accepting):
  """Why a union that rejects v does not use its accepting candidate."""
  for c in a['cands']:
    if c is accepting:
      continue
    ts = pytypes(c)
    if ts and isinstance(v, ts):
      # another candidate matches the type of v (and rejects v): the union
      # dispatches on the first type match.  One input class, whatever the types.
      return 'shadowed'
  return f'unused-{vkind(v)}-for-{accepting["k"]}'


def _check_union(rec, U, i):
  a, e = U.descs[i], U.exprs[i]
  cidx = [U.index.get(to_expr(c)) for c in a['cands']]
  if any(c is None for c in cidx):
    return
  for j in bits(U.own[i]):
    x = U.pool[j]
    v = ev(x)
    if v is None or is_missing(v):
      continue
    got = U.accepts(i, j)
    cacc = [U.accepts(c, j) for c in cidx]
    if got:
      rec.case('union.accepts-only-if-candidate/' + vkind(v), (e, x), any(cacc),
               f'{e} accepts {x}, which none of its candidates accepts',
               fit(pre(e, x) + f'u = {e}\n'
                   f'assert not acc(u, {x}) or any(acc(c, {x}) for c in u.candidates)\n', (e, x)))
      continue
    exact = [c for c, ci in zip(a['cands'], cidx) if U.acc[ci] >> j & U.canon[ci] >> j & 1]
    if exact:
      rec.case(f'union.accepts-if-candidate/{shadow_tag(a, v, exact[0])}', (e, x), False,
               f'{e} rejects {x}, which its candidate {to_expr(exact[0])} accepts as it is',
               fit(pre(e, x) + f'u = {e}\nc = {to_expr(exact[0])}\n'
                   f'assert not acc(c, {x}) or acc(u, {x})\n', (e, x)))
    elif not any(cacc):
      rec.case('union.accepts-if-candidate/' + vkind(v), (e, x), True)


# ---------------------------------------------------------------------------
# Driver 2: compatibility soundness.
# ---------------------------------------------------------------------------

def compat_tag(a, b, sb, v):
  """Input class of a compatibility claim a <- b refuted by value v."""
  if b['k'] == 'Union' and b['frozen'] is None and v is not None:
    # the candidate of b that holds v.
    for bc in flat_cands(b):
      try:
        sbc = ev(to_expr(bc))
        if live_acc(bc, copy.deepcopy(v)) and ev(to_expr(a)).is_compatible(sbc):
          return compat_tag(a, bc, sbc, v)
      except Exception:  # pylint: disable=broad-except
        pass
  if a['k'] == 'Union' and a['frozen'] is None:
    # the candidate on which the claim rests.
    for c in a['cands']:
      if a['noneable'] and c['k'] != 'Any':
        c = mod(c, noneable=True)      # Union.noneable() makes its candidates noneable.
      try:
        if ev(to_expr(c)).is_compatible(sb) and not live_acc(c, copy.deepcopy(v)):
          return compat_tag(c, b, sb, v)
      except Exception:  # pylint: disable=broad-except
        pass
  tag = diag(a, v)
  if tag == 'none':
    tag = 'none-' + ('Callable' if a['k'] == 'Functor' else a['k'])
  if a['k'] in ('Callable', 'Functor') and b['k'] == 'Object' and tag != 'frozen':
    tag += '-from-Object'       # the claim comes from Callable.is_compatible(Object).
  return tag


def drv_compat(tier, seed):
  rec = Recorder('C04', 'a.is_compatible(b) => every pooled value accepted by b is '
                 'accepted by a', scope='')
  U = Universe(tier, seed, want=lambda a: not has_regex(a) and not has_transform(a))
  n = len(U.specs)
  n_true = 0
  for i in range(n):
    a, ea, sa = U.descs[i], U.exprs[i], U.specs[i]
    for j in range(n):
      sb = U.specs[j]
      try:
        comp = sa.is_compatible(sb)
      except Exception:  # pylint: disable=broad-except
        continue               # no declaration of compatibility.
      if comp is not True:
        rec.case('compat.none', (i, j), True, nontrivial=False)
        continue
      n_true += 1
      m = U.own[i] | U.own[j]
      # values of b: what b accepts and holds as it is.  Inputs that b only
      # accepts by converting them (int -> float, a missing key filled with its
      # default, 1 for a Bool frozen to True) are not values of b.
      acc_b = U.ensure(j, m) & U.canon[j]
      bad = acc_b & ~U.ensure(i, acc_b)
      if not bad:
        rec.case('compat.sound', (ea, U.exprs[j]), True)
        continue
      eb = U.exprs[j]
      seen = set()
      for q in bits(bad):
        x = U.pool[q]
        cid = 'compat.sound/' + compat_tag(a, U.descs[j], sb, ev(x))
        if cid in seen:
          continue
        seen.add(cid)
        rec.case(cid, (ea, eb, x), False,
                 f'{ea}.is_compatible({eb}) is True, but {x} is accepted by the latter and '
                 f'rejected by the former',
                 fit(pre(ea, eb, x) + f'a = {ea}\nb = {eb}\n'
                     f'assert not (a.is_compatible(b) and acc(b, {x}) and not acc(a, {x}))\n',
                     (ea, eb, x)))
  rec.scope = (f'all {n}x{n} ordered pairs of {n} regex-free, transform-free specs; '
               f'{n_true} declared compatible, each on the pools of both specs + core '
               f'values ({len(U.pool)} distinct values)')
  return rec.result()


# ---------------------------------------------------------------------------
# Driver 3: extension soundness.
# ---------------------------------------------------------------------------

def project(v, c, b):
  """v restricted to the fields the Dict schemas of c and b share."""
  if v is None:
    return v
  if b['k'] == 'Union' or c['k'] == 'Union':
    for cc in (flat_cands(c) if c['k'] == 'Union' else [c]):
      for bb in (flat_cands(b) if b['k'] == 'Union' else [b]):
        if (cc['k'] == bb['k'] and cc['k'] in ('Dict', 'List', 'Tuple') and
            isinstance(v, pytypes(cc))):
          return project(v, cc, bb)
    return v
  if c['k'] != b['k']:
    return v
  k = c['k']
  if k == 'Dict' and isinstance(v, dict) and c['fields'] is not None and b['fields'] is not None:
    out = {}
    bconst = {q: w for q, w in b['fields'] if isinstance(q, str)}
    cconst = {q: w for q, w in c['fields'] if isinstance(q, str)}
    for key, x in _items(v):
      if key in bconst:              # shared (or inherited) const field.
        out[key] = project(x, cconst[key], bconst[key]) if key in cconst else x
      elif key in cconst:
        continue                     # a field of the child only: not shared.
      else:
        fb = field_for_key(b, key)
        if fb is None:
          continue                   # governed by a dynamic field of the child only.
        fc = next((f for f in c['fields'] if f[0] == fb[0]), None)
        out[key] = project(x, fc[1], fb[1]) if fc else x
    return out
  if k == 'List' and isinstance(v, list):
    return [project(x, c['elem'], b['elem']) for x in _seq(v)]
  if k == 'Tuple' and isinstance(v, tuple):
    ce = tuple_elems(c) if tuple_fixed(c) else [c['elems']] * len(v)
    be = tuple_elems(b) if tuple_fixed(b) else [b['elems']] * len(v)
    if len(ce) == len(be) == len(v):
      return tuple(project(x, p, q) for x, p, q in zip(v, ce, be))
  return v


def origin(b, c):
  """Suffix of a case id: the claim comes from Object.extend(Callable)."""
  return '-from-Object' if b['k'] in ('Callable', 'Functor') and c['k'] == 'Object' else ''


def none_kind(tag, a):
  if tag == 'none':
    return 'none-' + ('Callable' if a['k'] == 'Functor' else a['k'])
  return tag


def flat_cands(u):
  for cand in u['cands']:
    if cand['k'] == 'Union':
      yield from flat_cands(cand)
    else:
      yield cand


def ext_tag(b, c, v):
  """Input class of base b rejecting a value of the extension of c."""
  if (b['k'] == 'Union' and b['frozen'] is None and
      not any(live_acc(x, copy.deepcopy(v)) for x in flat_cands(b))):
    # the counterpart in the union of (the candidate of) the child that holds v.
    cs = [c] if c['k'] != 'Union' else [x for x in flat_cands(c)
                                         if live_acc(x, copy.deepcopy(v))]
    for cc in cs:
      same = [x for x in flat_cands(b) if x['k'] == cc['k']]
      if len(same) == 1 and not live_acc(same[0], copy.deepcopy(v)):
        return none_kind(diag(same[0], v), same[0])
  return none_kind(diag(b, v), b)


def gap(c, b):
  """Innermost (child kind, base kind) at which `base.is_compatible(extension)`
  fails although the extension succeeded."""
  pairs = []
  if b['k'] == 'Union' and b['frozen'] is None:
    for cc in (list(flat_cands(c)) if c['k'] == 'Union' else [c]):
      pairs += [(cc, cand) for cand in flat_cands(b)
                if cand['k'] == cc['k'] or (cc['k'] == 'Enum' and cand['k'] in _PRIMS)]
  elif c['k'] == b['k']:
    k = c['k']
    if k == 'List':
      pairs = [(c['elem'], b['elem'])]
    elif k == 'Tuple':
      if tuple_fixed(c) and tuple_fixed(b):
        pairs = list(zip(tuple_elems(c), tuple_elems(b)))
      elif not tuple_fixed(c) and not tuple_fixed(b):
        pairs = [(c['elems'], b['elems'])]
      elif tuple_fixed(c) and not tuple_fixed(b):
        pairs = [(e, b['elems']) for e in tuple_elems(c)]
    elif k == 'Dict' and c['fields'] and b['fields']:
      bf = dict((key_expr(q), w) for q, w in b['fields'])
      pairs = [(w, bf[key_expr(q)]) for q, w in c['fields'] if key_expr(q) in bf]
  fallback = None
  for cc, bb in pairs:
    try:
      base = ev(to_expr(bb))
      ext = ev(to_expr(cc)).extend(ev(to_expr(bb)))
      if base.is_compatible(ext) is not True:
        return gap(cc, bb)
    except Exception:  # pylint: disable=broad-except
      if b['k'] == 'Union' and fallback is None:
        fallback = f'{cc["k"]}-{bb["k"]}'   # reached through Union.get_candidate only.
  if fallback:
    return fallback
  frozen = '+frozen' if c['frozen'] is not None and c['k'] == b['k'] else ''
  name = lambda k: 'Callable' if k == 'Functor' else k
  return f'{name(c["k"])}{frozen}-{name(b["k"])}'


def has_symbolic(v):
  """A pg.List / pg.Dict somewhere in a value."""
  if isinstance(v, (pg.List, pg.Dict)):
    return True
  if isinstance(v, (list, tuple)):
    return any(has_symbolic(x) for x in v)
  if isinstance(v, dict):
    return any(has_symbolic(x) for x in v.values())
  return False


def plain(v):
  """The value with plain lists / dicts in place of pg.List / pg.Dict."""
  if isinstance(v, list):
    return [plain(x) for x in _seq(v)]
  if isinstance(v, tuple):
    return tuple(plain(x) for x in v)
  if isinstance(v, dict):
    return {q: plain(x) for q, x in _items(v)}
  return v


def coarse(tag, b, c, v):
  """The tag of a constraint below the top level of a container base becomes
  <container>-element / -field (used for children with a user transform: one
  id per level of the base, not one per leaf constraint)."""
  if b['k'] == 'Union' and b['frozen'] is None:
    same = [x for x in flat_cands(b) if x['k'] == c['k']]
    if len(same) != 1:
      return tag
    b = same[0]
  k = b['k']
  if k not in ('List', 'Tuple', 'Dict') or b['frozen'] is not None or v is None:
    return tag
  if k == 'Dict':
    if not isinstance(v, dict) or b['fields'] is None:
      return tag
    for key, x in _items(v):
      f = field_for_key(b, key)
      if f is None:
        return tag
      if not live_acc(f[1], copy.deepcopy(x)):
        return 'dict-field'
    return tag
  if not isinstance(v, list if k == 'List' else tuple):
    return tag
  if k == 'Tuple' and tuple_fixed(b):
    return tag if len(v) != len(tuple_elems(b)) else 'tuple-element'
  mn, mx = sizes_of(b)
  if len(v) < mn or (mx is not None and len(v) > mx):
    return tag
  return k.lower() + '-element'


def narrow_cid(head, fam, law, ext, b, c, v):
  """Case id of the value v, accepted (as it is) by the extension `ext` of c
  and rejected by the base b: head + family of the child + law + input class.

  Three input classes are named for what they are, whatever the child:
    * a symbolic container (pg.List / pg.Dict) that `ext` accepts although it
      rejects the same plain list / dict;
    * a marked value that a validator of the base refuses (`validator_tag`):
      the extension has to refuse it too;
    * any other value that the base rejects although its transform-free twin
      accepts it (every converter of this file is the identity on such a value)."""
  try:
    if has_symbolic(v) and not acc_live_v(ext, plain(copy.deepcopy(v))):
      return (f'{head}{law}/symbolic-value' +
              ('-to-transform-spec' if has_transform(c) or has_transform(b) else ''))
    vt = validator_tag(c, b, v) if has_validator(b) else None
    if vt:
      return f'{head}{"applied-child." if fam.startswith("applied") else ""}{law}/{vt}'
    if has_transform(b) and acc_live_v(ev(to_expr(strip_transform(b))), copy.deepcopy(v)):
      return f'{head}{law}/transform-base-rejects-own-value'
  except Exception:  # pylint: disable=broad-except
    pass
  tag = ext_tag(b, c, v) + origin(b, c)
  if 'transform-child' in fam:
    tag = coarse(tag, b, c, v)
  return f'{head}{fam}{law}/{tag}'


def validator_tag(c, b, v, via_union=False):
  """Input class of a value v of the extension of c that a *validator* of the
  base b refuses, or None if no validator of b refuses (the part of) v.

    validator-of-<Class>           the innermost spec of the base whose validator
                                   says no (the child has no transform of its own
                                   there, so it has to take over the validator)
    validator-of-union-candidate   ... a candidate of a Union base, the counterpart
                                   of the child
    validator-of-base+child-transform   ... and the child has its own transform there
    validator-of-base+frozen-child      ... and the child is frozen there

  c: the description of the child at the same position (None: unknown)."""
  if v is None or is_missing(v) or b['frozen'] is not None:
    return None
  tr, k = b['transform'], b['k']
  if tr in VALIDATORS and refuses(tr, v):
    if c is not None and c['frozen'] is not None:
      return 'validator-of-base+frozen-child'
    if c is not None and c['transform']:
      return 'validator-of-base+child-transform'
    if via_union:
      return 'validator-of-union-candidate'
    return 'validator-of-' + ('Callable' if k == 'Functor' else k)
  if c is not None and c['frozen'] is not None:
    c = None                             # (a frozen child: its parts are not looked at.)
  if k == 'Union':
    for bb in b['cands']:
      ts = pytypes(bb)
      if ts and not isinstance(v, ts):
        continue
      ccs = [None]
      if c is not None:
        flat = list(flat_cands(c)) if c['k'] == 'Union' else [c]
        ccs = [x for x in flat if x['k'] == bb['k']] or [None]
      t = validator_tag(ccs[0], bb, v, via_union=c is None or c['k'] != 'Union')
      if t:
        return t
    return None
  if c is not None and c['k'] == 'Union':
    c = next((x for x in flat_cands(c) if x['k'] == k), None)
  if c is not None and c['k'] != k:
    c = None
  pairs = []
  if k == 'List' and isinstance(v, list):
    pairs = [(c['elem'] if c else None, b['elem'], x) for x in _seq(v)]
  elif k == 'Tuple' and isinstance(v, tuple):
    be = tuple_elems(b) if tuple_fixed(b) else [b['elems']] * len(v)
    ce = [None] * len(v)
    if c:
      ce = tuple_elems(c) if tuple_fixed(c) else [c['elems']] * len(v)
    if len(be) == len(v):
      ce = ce if len(ce) == len(v) else [None] * len(v)
      pairs = list(zip(ce, be, v))
  elif k == 'Dict' and isinstance(v, dict) and b['fields'] is not None:
    for key, x in _items(v):
      fb = field_for_key(b, key)
      if fb is not None:
        fc = field_for_key(c, key) if c and c['fields'] is not None else None
        pairs.append((fc[1] if fc else None, fb[1], x))
  for cc, bb, x in pairs:
    t = validator_tag(cc, bb, x)
    if t:
      return t
  return None


def default_tag(c, b, d):
  """Last part of the ids of `default-accepted` after an extension: the class of
  the child; `validator-of-base` when the default is a value that a validator
  of the base refuses (the extension inherits the validator)."""
  try:
    if (has_validator(b) or has_validator(c)) and any(refuses(tr, d) for tr in VALIDATORS):
      return 'validator-of-base' if has_validator(b) else 'validator-of-child'
  except Exception:  # pylint: disable=broad-except
    pass
  return c['k']


def tkind(c):
  """The spec classes that carry a user transform inside a description."""
  out = set()
  def walk(a):
    if a['transform']:
      k = a['k']
      out.add('Dict-no-schema' if k == 'Dict' and a['fields'] is None else
              'Callable' if k == 'Functor' else k)
    for x in children(a):
      walk(x)
  walk(c)
  return '+'.join(sorted(out))


def has_value(a):
  """A default / frozen value somewhere: the constructor applies the spec."""
  return (a['default'] is not None or a['frozen'] is not None or
          any(has_value(x) for x in children(a)))


def family(c, applied):
  """Infix of the case ids of an extension: '' for a transform-free child that
  is extended as constructed; otherwise the state of the child.  A child is
  `applied` when it has been applied to values before it is extended, by the
  test or by its own constructor (default / frozen value)."""
  if has_transform(c):
    return ('applied-' if applied or has_value(c) else '') + f'transform-child-{tkind(c)}.'
  return 'applied-child.' if applied else ''


def drv_extend(tier, seed):
  """Children without a user transform."""
  return _drv_extend(tier, seed, False)


def drv_extend_transform(tier, seed):
  """Children with a user transform (their own, or of an element / field /
  candidate), as constructed and after they were applied to values."""
  return _drv_extend(tier, seed, True)


def _drv_extend(tier, seed, part):
  rec = Recorder('C04', 'clone(c).extend(b) succeeds => values of the extension are values '
                 'of b; b.is_compatible(extension); default still accepted; the same for a '
                 'child that was applied to values before' +
                 (' -- children with a user transform' if part else
                  ' -- children without user transform'), scope='')
  U = Universe(tier, seed, n_random=n_random(tier, 30, 300),
               want=lambda a: not has_regex(a) and (tier != 'quick' or a.get('mixed', 0) % 6 == 0))
  n = len(U.specs)
  r = rng(seed, 'c04-extend')
  r2 = rng(seed, 'c04-extend-applied')
  n_pairs = n_ok = n_applied = 0
  paths = [dict_key_paths(a) for a in U.descs]
  bases = [ev(e) for e in U.exprs]
  # per spec: a user transform / a validator inside; validators only.
  ht = [has_transform(a) for a in U.descs]
  hv = [has_validator(a) for a in U.descs]
  vb = [hv[q] and only_validators(a) for q, a in enumerate(U.descs)]
  for i in range(n):
    c, ec = U.descs[i], U.exprs[i]
    tc = ht[i]
    if tc != part:
      continue
    cpaths = paths[i]
    # values the child holds as they are: applied to it before the extension
    # in the `applied` variants ("applying never changes the spec").
    held = [U.pool[q] for q in bits(U.own[i] & U.acc[i] & U.canon[i])
            if not is_missing(ev(U.pool[q]))]
    held = held[:2] + held[-1:] if len(held) > 3 else held
    for j in range(n):
      b, eb = U.descs[j], U.exprs[j]
      if tier == 'quick':
        # related pairs; half of the (many) container / union pairs; 4% of the rest.
        rel = _related(c, b)
        p_keep = (0.5 if c['k'] == b['k'] and c['k'] in _BIG and not tc else 1.0) if rel else 0.04
        if not rel and (vb[j] or hv[i] or c.get('marked')):
          continue                   # (the specs of the validator cases: related pairs only.)
        if vb[j]:
          # bases with a validator: a sample of the related children (fewer for
          # the variants of the base with a default / frozen value and for the
          # children that have a transform themselves).
          if c.get('marked'):
            p_keep = 1.0             # (children that hold a marked value: all.)
          elif b['k'] == 'Any':      # (related to every child: a quarter of them.)
            p_keep = 0.1 if has_value(b) or hv[i] else 0.25
          else:
            p_keep = 0.3 if has_value(b) or tc else 0.6
        elif hv[i]:
          p_keep = 1.0 if b.get('marked') else p_keep * 0.3
        elif c.get('marked'):
          p_keep *= 0.2
        elif ht[j]:
          p_keep *= 0.3 if tc else 0.2    # (bases with a user transform: a sample.)
      else:
        p_keep = 1.0 if _related(c, b) else 0.05
      if p_keep < 1.0 and r.random() > p_keep:
        continue
      if ht[j] and b['k'] != c['k'] and not (vb[j] or only_validators(b)):
        continue     # a user converter of another kind of spec: outside the algebra
                     # (a validator is meaningful for a spec of any kind).
      n_pairs += 1
      # the child as constructed; a child with a user transform also after it
      # was applied to values; a sample of the other children likewise.
      variants = [False]
      sampled = not tc and r2.random() < (0.05 if tier == 'quick' else 0.25)
      if not tc and vb[j]:
        # on a base with a validator: a selection that does not depend on the seed.
        sampled = bool(c.get('marked')) or zlib.crc32((ec + eb).encode()) % 4 == 0
      if held and ((tc and not has_value(c)) or sampled):
        variants.append(True)
      # NOTE: the base is one object per b, reused over all children (a fresh
      # one per pair doubles the cost); `extend` has no business changing its
      # argument, which is verified at the end of the run.
      base = bases[j]
      for applied in variants:
        fam = family(c, applied)
        child = ev(ec)
        if applied:
          for x in held:
            child.apply(ev(x))
          mk = f'c = {ec}\n' + ''.join(f'c.apply({x})\n' for x in held) + f'ext = c.extend({eb})\n'
        else:
          mk = f'ext = {ec}.extend({eb})\n'
        try:
          ext = child.extend(base)
        except Exception:  # pylint: disable=broad-except
          rec.case('extend.refused', (i, j, applied), True, nontrivial=False)
          continue
        n_ok += 1
        n_applied += applied
        _check_extension(rec, U, tier, i, j, ext, base, fam, mk,
                         bool(cpaths) and cpaths != paths[j])
  n_children = sum(1 for a in U.descs if has_transform(a) == part)
  for j, base in enumerate(bases):
    clone = ev(U.exprs[j])
    if not (base == clone and repr(base) == repr(clone)):
      # harness integrity: the reused base objects must not have been changed.
      rec.case(f'extend.base-object-unchanged/{U.descs[j]["k"]}', U.exprs[j], False,
               f'{U.exprs[j]} was changed by serving as the base of extensions: {R(base)}',
               '# see message\nraise AssertionError("base changed by extend")')
  rec.scope = (f'{n_pairs} ordered pairs (c, b): c one of the {n_children} specs '
               f'{"with" if part else "without"} a user transform, b one of {n} regex-free specs '
               f'({"related pairs (half of the transform-free List/Tuple/Dict/Union ones, 20-30% of those with a base that has a converter, 25% of the children of every class on a base Any with a validator, 60% on the other bases with a validator) + 4% of the rest" if tier == "quick" else "all related pairs + 5% of the rest"}), '
               f'{n_ok} successful extensions ({n_applied} of a child that was applied to values '
               f'first: {"every child that has no default / frozen value" if part else "a sample"}), each on the '
               f'values of both pools + core that b '
               f'rejects{" and c accepts" if tier == "quick" else ""} ({len(U.pool)} distinct values)')
  return rec.result()


def _check_extension(rec, U, tier, i, j, ext, base, fam, mk, dicty):
  """The laws of a successful extension `ext` of (a clone of) spec i on base j.
  `mk`: the source that builds `ext`; `fam`: see `family`."""
  c, ec, b, eb = U.descs[i], U.exprs[i], U.descs[j], U.exprs[j]
  key = (ec, eb) if not fam.startswith('applied') else (ec, eb, 'applied')
  wpre = lambda *xs: pre(ec, eb, mk, *xs) + f'b = {eb}\n' + mk
  mk1 = mk.strip().replace('\n', '; ')
  # values of the extension are values of the base.
  m = U.own[i] | U.own[j]
  cand = m & ~U.ensure(j, m)
  if tier == 'quick':
    cand = U.ensure(i, cand)        # ... that the child accepted before.
  seen = set()
  for q in bits(cand):
    x = U.pool[q]
    v = ev(x)
    f0 = fp(v)
    try:
      if fp(ext.apply(v)) != f0:
        continue       # accepted by conversion only: not a value of ext.
    except Exception:  # pylint: disable=broad-except
      continue
    v = ev(x)
    if dicty:
      pv = project(v, c, b)
      if fp(pv) != fp(v):
        try:
          U.specs[j].apply(copy.deepcopy(pv))
          continue               # accepted on the shared fields.
        except Exception:  # pylint: disable=broad-except
          pass
    cid = narrow_cid('extend.', fam, 'narrower', ext, b, c, v)
    if cid in seen:
      continue
    seen.add(cid)
    rec.case(cid, key + (x,), False,
             f'{mk1} -> {R(ext)} accepts {x}, which the base rejects',
             fit(wpre(x) + f'assert not (acc(ext, {x}) and not acc(b, {x}))\n', (ec, eb, x)))
  if not seen:
    rec.case(f'extend.{fam}narrower', key, True)
  # the base is compatible with the extension.
  if not dicty and not has_transform(b):
    try:
      comp = base.is_compatible(ext)
    except Exception as ex:  # pylint: disable=broad-except
      comp = f'{type(ex).__name__}: {ex}'
    tag = gap(c, b) if comp is not True else f'{c["k"]}-{b["k"]}'
    if comp is True:
      rec.case(f'extend.{fam}base-compatible/{tag}', key, True)
    else:
      rec.case(f'extend.{fam}base-compatible/{tag}', key, False,
               f'{mk1} succeeded with {R(ext)}, but base.is_compatible(ext) '
               f'is {comp}', fit(wpre() + 'assert b.is_compatible(ext)\n', (ec, eb)))
  # the default of the extension is acceptable to it.
  d = ext.default
  if not is_missing(d):
    try:
      dd = copy.deepcopy(d)
      ext.apply(dd, allow_partial=True)
      rec.case(f'extend.{fam}default-accepted/{c["k"]}', key, True)
    except Exception as ex:  # pylint: disable=broad-except
      rec.case(f'extend.{fam}default-accepted/{default_tag(c, b, d)}', key, False,
               f'{mk1} -> {R(ext)} rejects its own default {R(d)}: '
               f'{type(ex).__name__}: {ex}',
               fit(wpre() + 'import copy\nassert acc(ext, copy.deepcopy(ext.default), '
                   'allow_partial=True)\n', (ec, eb)))


def kinds_in_union(a):
  out = set()
  for c in a['cands']:
    out |= kinds_in_union(c) if c['k'] == 'Union' else {c['k']}
  return out


_CALLS = ('Callable', 'Functor', 'Object')
_PRIMS = ('Int', 'Float', 'Str', 'Bool', 'Enum', 'Any')
_BIG = ('List', 'Tuple', 'Dict', 'Union')


def _related(c, b):
  """Pairs (child, base) whose extension has a chance (the quick tier samples
  the others): same class, a base Union with a candidate of the child's class,
  a base Any, an Enum child of a primitive base, a frozen child of an Enum
  base, Object / Callable / Functor."""
  ck, bk = c['k'], b['k']
  if ck == bk or bk == 'Any':
    return True
  if bk == 'Union':
    ks = kinds_in_union(b)
    return (ck in ks or ck == 'Enum' or 'Any' in ks or
            (ck in _CALLS and ks & set(_CALLS)))
  if ck == 'Enum':
    return bk in _PRIMS
  if bk == 'Enum':
    return c['frozen'] is not None
  return ck in _CALLS and bk in _CALLS


# ---------------------------------------------------------------------------
# Driver 4: Schema level and class inheritance.
# ---------------------------------------------------------------------------

def field_specs(tier, seed):
  out = []
  for a in [Int(), Int(0), Int(None, 5), Int(0, 5), Int(2, 3), Int(default='1'),
            Int(default='5'), Int(0, default='7'), Int(noneable=True), Int(frozen='1'),
            Int(frozen='5'), Float(), Float(0.0, 1.0), Float(default='-1.0'), Float(0.0),
            Str(), Str(default="'a'"), Bool(), Bool(default='True'), Any(),
            Enum(["'a'", "'b'"]), Enum(["'a'", "'b'", "'c'"], default="'a'"),
            List(Int()), List(Int(), None, 2), List(Int(), 1), List(Int(0)),
            List(Int(), default='[1, 2, 3]'),
            Tuple(Int()), Tuple(Int(), default='()'), Tuple(Int(), default='(1, 2, 3, 4)'), Tuple(Int(), None, 3), Tuple(Int(), 1, 3), Tuple(Int(1), None, 3),
            Tuple(Int(), 2), Tuple([Int(), Int()]),
            Dict(), Dict([('p', Int())]), Dict([('p', Int(0)), ('q', Str(noneable=True))]),
            Object('A'), Object('B'), Union([Int(), Str()]), Union([Int(0), Str()]),
            Union([Float(0.0, 1.0), Int()]), Callable(), Callable([Int()]), Type('A'),
            Type('B'), Callable([Int(), Float()]), Callable(returns=Str()), Object('K'),
            Dict([('p', Int())], noneable=True), Union([Str(frozen="'a'"), Int()]),
            Union([Int(None, 0), Bool()]), Union([Type('P'), Callable([Int()])]),
            Enum(['1', '2']), Int(frozen='1', noneable=True), enum_of('ISI'), enum_of('SIS')]:
    out.append(a)
  # fields with a user transform, with / without a default (the default makes
  # the constructor apply the spec before the class / schema is extended).
  for a, tr, d in [(List(Int()), 'tr_list', '[1]'), (List(Int(), None, 3), 'tr_list', None),
                   (Tuple(Int()), 'tr_tuple', '(1,)'), (Tuple([Int(), Int()]), 'tr_tuple', None),
                   (Dict([('p', Int())]), 'tr_id', "{'p': 1}"), (Dict(), 'tr_id', '{}'),
                   (Dict([('p', Int(default='1'))]), 'tr_id', None),
                   (Object('A'), 'tr_a', 'A()'), (Callable(), 'tr_id', 'f1'),
                   (Any(), 'tr_id', '1')]:
    out.append(mod(a, transform=tr))
    if d is not None:
      out.append(mod(a, transform=tr, default=d))
  # fields with a validator (on the field, an element, a union candidate), and
  # transform-free fields whose default / frozen value the validator refuses.
  va = 'va_mark'
  av = Any(transform=va)
  out += [av, List(Int(), transform=va), List(av), Union([List(Int(), transform=va), Str()]),
          Int(default='-1'), Int(frozen='-1')]
  if tier == 'thorough':
    out += [Dict([('p', Int())], transform=va), Dict([('p', av)]), Dict([('p', Int(default='-1'))]),
            Any(transform=va, default='1'), Tuple(Int(), transform=va), Tuple([av, Int()]),
            Object('C', transform=va), Callable(transform=va), Object('C'),
            List(Int(), default='[-1]')]
  r = rng(seed, 'c04-fields')
  for _ in range(n_random(tier, 10, 60)):
    a = rand_spec(r, r.choice([0, 1, 2]))
    if not has_regex(a):
      out.append(a)
  return out


def holds(spec, x):
  """spec accepts value expression x and maps it to itself (a value of spec)."""
  v = ev(x)
  if is_missing(v):
    return False
  f0 = fp(v)
  try:
    return fp(spec.apply(v)) == f0
  except Exception:  # pylint: disable=broad-except
    return False


def not_narrower(ext, c, b, eb, xs, head, fam, law):
  """(x, case id) for the values of the extension `ext` of c that base b rejects
  on the fields they share; one per case id."""
  out, seen = [], set()
  bs = ev(eb)
  for x in xs:
    if not holds(ext, x) or acc_live(bs, x)[0]:
      continue
    v = ev(x)
    pv = project(v, c, b)
    if fp(pv) != fp(v):
      try:
        bs.apply(copy.deepcopy(pv))
        continue
      except Exception:  # pylint: disable=broad-except
        pass
    cid = narrow_cid(head, fam, law, ext, b, c, v)
    if cid not in seen:
      seen.add(cid)
      out.append((x, cid))
  return out


def default_ok(spec):
  """None if the spec has no default, else (ok, message)."""
  d = spec.default
  if is_missing(d):
    return None
  try:
    dd = copy.deepcopy(d)
    spec.apply(dd, allow_partial=True)
    return True, ''
  except Exception as ex:  # pylint: disable=broad-except
    return False, f'{R(spec)} rejects its own default {R(d)}: {type(ex).__name__}: {ex}'


def drv_schema(tier, seed):
  rec = Recorder('C04', 'Schema.extend / Schema.is_compatible / pg.Object subclass field '
                 'override: shared fields only narrow', scope='')
  fs = []
  seen = set()
  for a in field_specs(tier, seed):
    e = to_expr(a)
    if e not in seen:
      try:
        ev(e)
      except OK_ERRORS:
        continue
      seen.add(e)
      fs.append(a)
  n_ext = n_cls = n_comp = 0
  for ci, c in enumerate(fs):
    ec = to_expr(c)
    for bi, b in enumerate(fs):
      eb = to_expr(b)
      if tier == 'quick' and not _related(c, b):
        continue
      if has_transform(b) and b['k'] != c['k'] and not only_validators(b):
        continue     # a user converter of another kind of spec: outside the algebra.
      fam = family(c, False)
      layout = (ci + bi) % 3
      # layout 0: same keys; 1: the base has a field more; 2: the child has.
      bf = f"[('x', {eb})" + (", ('y', t.Int(default=0))" if layout == 1 else '') + ']'
      cf = f"[('x', {ec})" + (", ('z', t.Str(default='s'))" if layout == 2 else '') + ']'
      mk_b = f't.create_schema({bf})'
      mk_c = f't.create_schema({cf})'
      xs = list(dict.fromkeys(vals(c) + vals(b) + CORE))
      key = (ec, eb, layout)
      try:
        bs = ev(mk_b)
        cs = ev(mk_c).extend(ev(mk_b))
      except Exception:  # pylint: disable=broad-except
        cs = None
      if cs is not None:
        n_ext += 1
        wpre = pre(ec, eb) + f'bs = {mk_b}\ncs = {mk_c}.extend({mk_b})\n'
        kc, kb = set(map(str, cs.keys())), set(map(str, bs.keys()))
        rec.case('schema.extend.inherits-base-fields', key, kb <= kc,
                 f'extended schema has keys {sorted(kc)}, base {sorted(kb)}',
                 fit(wpre + 'assert set(map(str, bs.keys())) <= set(map(str, cs.keys()))\n', key))
        fx = cs['x'].value
        bad = not_narrower(fx, c, b, eb, xs, 'schema.extend.', fam, 'field-narrower')
        for x, cid in bad:
          rec.case(cid, key + (x,), False,
                   f'field x of {mk_c}.extend({mk_b}) is {R(fx)}: accepts {x}, which the '
                   f'base field {eb} rejects',
                   fit(pre(ec, eb, x) + f'bs = {mk_b}\ncs = {mk_c}.extend({mk_b})\n'
                       f"assert not (acc(cs['x'].value, {x}) and not acc(bs['x'].value, {x}))\n",
                       key))
        if not bad:
          rec.case(f'schema.extend.{fam}field-narrower', key, True)
        if dict_key_paths(c) == dict_key_paths(b) and not has_transform(b):
          try:
            comp = ev(eb).is_compatible(fx)
          except Exception as ex:  # pylint: disable=broad-except
            comp = f'{type(ex).__name__}: {ex}'
          tag = gap(c, b) if comp is not True else f'{c["k"]}-{b["k"]}'
          rec.case(f'schema.extend.{fam}base-field-compatible/{tag}', key, comp is True,
                   f'field x of {mk_c}.extend({mk_b}) is {R(fx)}; base field is_compatible: {comp}',
                   fit(wpre + "assert bs['x'].value.is_compatible(cs['x'].value)\n", key))
        dok = default_ok(fx)
        if dok is not None:
          rec.case(f'schema.extend.{fam}default-accepted/'
                   f'{c["k"] if dok[0] else default_tag(c, b, fx.default)}', key, dok[0],
                   f'field x of {mk_c}.extend({mk_b}): {dok[1]}',
                   fit(wpre + "import copy\nf = cs['x'].value\n"
                       'assert acc(f, copy.deepcopy(f.default), allow_partial=True)\n', key))
        # whole dicts: a value of the extended schema is accepted by the base
        # schema on the fields they share.
        badd = set()
        for x in xs:
          dv = "{'x': " + x + (", 'y': 0" if layout == 1 else '') + '}'
          dvc = dv[:-1] + ", 'z': 's'}" if layout == 2 else dv
          v = ev(dvc)
          if has_missing(v):
            continue
          f0 = fp(v)
          try:
            if fp(cs.apply(v)) != f0:
              continue
            pv = ev(dv)
            pv['x'] = project(pv['x'], c, b)
          except Exception:  # pylint: disable=broad-except
            continue
          try:
            bs.apply(pv)
          except Exception as ex:  # pylint: disable=broad-except
            tag = narrow_cid('schema.extend.', fam, 'dict-narrower', fx, b, c, ev(x))
            if tag not in badd:
              badd.add(tag)
              rec.case(tag, key + (x,), False,
                       f'{mk_c}.extend({mk_b}) accepts {dvc}; the base schema does not '
                       f'accept {dv}: {type(ex).__name__}: {ex}',
                       fit(pre(ec, eb, x) + f'bs = {mk_b}\ncs = {mk_c}.extend({mk_b})\n'
                           f'cs.apply({dvc})\nbs.apply({dv})\n', key))
        if not badd:
          rec.case(f'schema.extend.{fam}dict-narrower', key, True)
      # Schema.is_compatible soundness.
      try:
        s1, s2 = ev(mk_b), ev(mk_c)
        comp = s1.is_compatible(s2)
      except Exception:  # pylint: disable=broad-except
        comp = False
      if comp is True and not has_transform(b) and not has_transform(c):
        n_comp += 1
        badc = set()
        for x in xs:
          dv = "{'x': " + x + '}'
          v = ev(dv)
          if has_missing(v):
            continue
          f0 = fp(v)
          try:
            if fp(s2.apply(v)) != f0:
              continue                  # not a value of s2 as it is.
          except Exception:  # pylint: disable=broad-except
            continue
          try:
            s1.apply(ev(dv))
          except Exception:  # pylint: disable=broad-except
            tag = compat_tag(b, c, ev(ec), ev(x))
            if tag not in badc:
              badc.add(tag)
              rec.case('schema.compat.sound/' + tag, (eb, ec, x), False,
                       f'{mk_b}.is_compatible({mk_c}) is True, but {dv} is accepted by the '
                       f'latter and rejected by the former',
                       fit(pre(ec, eb, x) + f's1 = {mk_b}\ns2 = {mk_c}\n'
                           f'assert s1.is_compatible(s2)\ns2.apply({dv})\ns1.apply({dv})\n',
                           (eb, ec, x)))
        if not badc:
          rec.case('schema.compat.sound', (eb, ec, layout), True)
      # class inheritance.
      n_cls += _check_classes(rec, c, b, ec, eb, layout, xs)
  rec.scope = (f'{len(fs)} field specs; {n_ext} successful Schema.extend of '
               f'{len(fs)}^2{" same-family" if tier == "quick" else ""} pairs in 3 layouts '
               f'(same keys / base-only field / child-only field); {n_comp} schema pairs declared '
               f'compatible; {n_cls} pg.Object subclass overrides; values: both pools + core')
  return rec.result()


def _check_classes(rec, c, b, ec, eb, layout, xs):
  extra_b = "  y: t.Int(default=0)\n" if layout == 1 else ''
  extra_c = "  z: t.Str(default='s')\n" if layout == 2 else ''
  if layout == 0:
    src = (f"@pg.members([('x', {eb})])\nclass Base(pg.Object): pass\n"
           f"@pg.members([('x', {ec})])\nclass Child(Base): pass\n")
  else:
    src = (f'class Base(pg.Object):\n  x: {eb}\n{extra_b}'
           f'class Child(Base):\n  x: {ec}\n{extra_c}')
  ns = dict(NS)
  try:
    exec(src, ns)  # pylint: disable=exec-used
  except Exception:  # pylint: disable=broad-except
    return 0
  Base, Child = ns['Base'], ns['Child']
  key = (ec, eb, layout)
  fam = family(c, False)
  bad = set()
  fx = Child.__schema__['x'].value
  for x in xs:
    if not holds(fx, x):
      continue
    try:
      Child(x=ev(x))
    except Exception:  # pylint: disable=broad-except
      continue
    try:
      Base(x=project(ev(x), c, b))
    except Exception as ex:  # pylint: disable=broad-except
      tag = narrow_cid('schema.subclass.', fam, 'field-narrower', fx, b, c, ev(x))
      if tag not in bad:
        bad.add(tag)
        rec.case(tag, key + (x,), False,
                 f'Child(x={x}) is accepted (field {R(fx)}) but '
                 f'Base(x={x}) is refused: {type(ex).__name__}: {ex}',
                 fit(pre(ec, eb, x) + src + f'Child(x={x})\nBase(x={x})\n', key))
  if not bad:
    rec.case(f'schema.subclass.{fam}field-narrower', key, True)
  fx = Child.__schema__['x'].value
  d = fx.default
  if not is_missing(d):
    dd = copy.deepcopy(d)
    try:
      fx.apply(dd, allow_partial=True)
      ok, msg = True, ''
    except Exception as ex:  # pylint: disable=broad-except
      ok, msg = False, f'{type(ex).__name__}: {ex}'
    rec.case(f'schema.subclass.{fam}default-accepted/{c["k"] if ok else default_tag(c, b, d)}',
             key, ok,
             f'Child.x is {fx!r}; it rejects its own default: {msg}',
             fit(pre(ec, eb) + src + "import copy\nf = Child.__schema__['x'].value\n"
                 'assert acc(f, copy.deepcopy(f.default), allow_partial=True)\n', key))
  return 1


# ---------------------------------------------------------------------------
# Driver 5: value specs that the library derives from Python declarations.
# ---------------------------------------------------------------------------
#
# A value spec does not only come from a constructor call: the library builds
# specs from a type annotation plus a default value (parameters of a callable:
# pg.typing.signature / Signature.to_schema / pg.functor / pg.symbolize with
# auto typing; annotated attributes of a pg.Object class) and re-derives the
# spec of an inherited field when a subclass gives the field a new default as a
# plain class attribute.  The statement holds for these specs as for any other:
# the default they carry is acceptable to them, and a field re-derived in a
# subclass (schema inheritance) only narrows the field of the base class.
# Whether the library refuses a declaration (TypeError / ValueError / KeyError)
# or accepts it is not part of the claim; what it hands out when it accepts is.

import inspect  # pylint: disable=g-import-not-at-top,g-bad-import-order
import typing  # pylint: disable=g-import-not-at-top,g-bad-import-order

NS['typing'] = typing
_SK = ('str', None)


def py_annotations():
  """(annotation expression, description of the spec it stands for): the
  description only serves to pool candidate defaults and to name input classes."""
  return [
      ('int', Int()), ('float', Float()), ('str', Str()), ('bool', Bool()),
      ('typing.Any', Any()), ('list', List(Any())), ('dict', Dict()),
      ('typing.List[int]', List(Int())), ('typing.Optional[int]', Int(noneable=True)),
      ('typing.Union[int, str]', Union([Int(), Str()])),
      ('typing.Tuple[int, str]', Tuple([Int(), Str()])),
      ('typing.Tuple[int, ...]', Tuple(Int())), ('typing.Dict[str, int]', Dict([(_SK, Int())])),
      ('A', Object('A')), ('typing.Type[A]', Type('A')),
      ('typing.Callable[[int], int]', Callable([Int()], returns=Int())),
      ("typing.Literal['a', 'b']", Enum(["'a'", "'b'"])),
      ("typing.Literal[1, 'a', 2]", Enum(['1', "'a'", '2'])),
      ('typing.Optional[typing.List[int]]', List(Int(), noneable=True)),
      ('typing.Sequence[int]', Union([List(Int()), Tuple(Int())])),
      ('typing.List[typing.Union[int, str]]', List(Union([Int(), Str()]))),
      ('typing.Dict[str, typing.List[int]]', Dict([(_SK, List(Int()))])),
  ]


def spec_annotations(tier, seed):
  """Value specs written as annotations (`x: pg.typing.Int(min_value=1) = 0`)."""
  out = [Int(), Int(0), Int(0, 5), Int(2, 3), Int(None, 0), Int(default='1'), Int(0, default='7'),
         Int(noneable=True), Int(nn_ctor=True), Int(frozen='1'), Int(0, 5, frozen='5'),
         Int(frozen='1', noneable=True), Float(), Float(0.0, 1.0), Float(default='1'),
         Float(0.0, 5.0, frozen='2'), Str(), Str(default="'a'"), Str(frozen="'a'"), Bool(),
         Bool(frozen='True'), Any(), Any(default='1'), Any(frozen='1'),
         Enum(["'a'", "'b'"]), Enum(["'a'", "'b'", "'c'"], default="'a'"),
         Enum(["'a'", "'b'"], frozen="'b'"), enum_of('ISI'), enum_of('SIS'),
         mod(enum_of('ISI'), frozen="'a'"),
         List(Int()), List(Int(0), 1, 2), List(Int(), default='[1]'), List(Int(), frozen='[1]'),
         Tuple(Int(), 1, 3), Tuple([Int(), Str()]), Tuple([Int(), Str()], frozen="(1, 'a')"),
         Dict(), Dict([('p', Int())]), Dict([('p', Int(default='1'))]),
         Dict([('p', Int(0)), ('q', Str(noneable=True))]), Dict([(_SK, Int(0))]),
         Dict([('p', Int())], frozen="{'p': 1}"),
         Object('A'), Object('B'), Object('A', frozen='A(x=5)'), Type('A'), Type('A', frozen='B'),
         Union([Int(0), Str()]), Union([Float(0.0, 1.0), Int()]), Union([Int(), Str()], frozen='1'),
         Callable(), Callable([Int()]), Callable([Int()], frozen='f1'),
         List(Int(), transform='tr_list'), Dict([('p', Int())], transform='tr_id'),
         Any(transform='va_mark'), List(Int(), transform='va_mark'), List(Any(transform='va_mark'))]
  if tier == 'thorough':
    out += [a for a in atoms(tier) + containers(tier) + nested(tier) if not has_regex(a)][::7]
  r = rng(seed, 'c04-derived')
  for _ in range(n_random(tier, 6, 80)):
    a = rand_spec(r, r.choice([0, 1, 2]))
    if not has_regex(a):
      out.append(a)
  return out


# name -> (source declaring the spec from {ann} and {x}, expression of the derived spec)
_DERIVED = {
    'signature-arg': ('def fn(x: {ann} = {x}): pass\n',
                      't.signature(fn, auto_typing=True).args[0].value_spec'),
    'class-field': ('class C(pg.Object):\n  x: {ann} = {x}\n', "C.__schema__['x'].value"),
    'signature-kwonly-arg': ('def fn(a: int = 0, *args, x: {ann} = {x}): pass\n',
                             't.signature(fn, auto_typing=True).kwonlyargs[0].value_spec'),
    'signature-schema': ('def fn(a: int = 0, x: {ann} = {x}, **kwargs): pass\n',
                         't.Dict(t.signature(fn, auto_typing=True).to_schema())'),
    'functor-field': ('def fn(x: {ann} = {x}): pass\nF = pg.functor(auto_typing=True)(fn)\n',
                      "F.__schema__['x'].value"),
    'symbolized-class-field': ('class S:\n  def __init__(self, x: {ann} = {x}): pass\n'
                               'W = pg.symbolize(S, auto_typing=True)\n',
                               "W.__schema__['x'].value"),
    'class-schema': ("class C(pg.Object):\n  a: int = 0\n  x: {ann} = {x}\n",
                     't.Dict(C.__schema__)'),
    # the default comes from the signature, the spec from a declaration.
    'annotated-signature': ("def fn(x={x}): pass\nsig = t.signature(fn, auto_typing=False)\n"
                            "sig.annotate([('x', {ann})])\n", 'sig.args[0].value_spec'),
    'functor-declared-field': ("def fn(x={x}): pass\nF = pg.functor([('x', {ann})])(fn)\n",
                               "F.__schema__['x'].value"),
}
_DERIVED_ID = {'signature-arg': 'signature-parameter',
               'signature-kwonly-arg': 'signature-parameter'}
# name -> source of Base (field x: {ann}) and Child (class attribute x = {x}).
_OVERRIDES = {
    'subclass': 'class Base(pg.Object):\n  x: {ann}\nclass Child(Base):\n  x = {x}\n',
    'grandchild': ('class Base(pg.Object):\n  x: {ann}\n  y: int = 0\n'
                   "class Mid(Base):\n  z: str = 's'\nclass Child(Mid):\n  x = {x}\n"),
    'subclass-of-members-base': ("@pg.members([('x', {ann})])\nclass Base(pg.Object): pass\n"
                                 "class Child(Base):\n  z: str = 's'\n  x = {x}\n"),
    'subclass-redeclaring-other-field': (
        'class Base(pg.Object):\n  x: {ann}\n  y: t.Int(min_value=0) = 0\n'
        'class Child(Base):\n  y: t.Int(min_value=0, max_value=9) = 1\n  x = {x}\n'),
}


def default_candidates(a, spec, n_rej=6):
  """Value expressions to declare as default of a spec like `a`: rejected ones
  (one per kind of value + the first boundary values of the pool), two that it
  holds as they are and one that it accepts by conversion."""
  rej, ok, kinds, conv = [], [], set(), None
  for x in list(dict.fromkeys(vals(a) + CORE)):
    if _SELF_EQ_ONLY.search(x):
      continue
    v = ev(x)
    if is_missing(v):
      continue
    f0 = fp(v)
    try:
      r = spec.apply(v)
    except Exception:  # pylint: disable=broad-except
      vk = vkind(v)
      if vk not in kinds or len(rej) < 3:
        kinds.add(vk)
        rej.append(x)
      continue
    if fp(r) == f0:
      if len(ok) < 2:
        ok.append(x)
    elif conv is None:
      conv = x
  return rej[:n_rej] + ok + ([conv] if conv else [])


def _pick(table, turn, tier, n_fixed):
  names = list(table)
  if tier != 'quick':
    return names
  rest = names[n_fixed:]
  return names[:n_fixed] + [rest[turn % len(rest)]]


def _declare(src):
  ns = dict(NS)
  exec(src, ns)  # pylint: disable=exec-used
  return ns


def _self_consistent(rec, cid, key, s, wit):
  """The default a derived spec carries is acceptable to it, is accepted again
  and maps to itself; applying it does not change the spec."""
  d = s.default
  if is_missing(d):
    rec.case(cid, key, True, nontrivial=False)
    return
  before = R(s)
  try:
    r = s.apply(copy.deepcopy(d), allow_partial=True)
    r2 = s.apply(copy.deepcopy(r), allow_partial=True)
    ok = fp(r) == fp(r2) and R(s) == before
    msg = (f'{R(s)}: apply(default) = {R(r)}, applied again = {R(r2)}; the spec afterwards: '
           f'{R(s)}')
  except Exception as ex:  # pylint: disable=broad-except
    ok, msg = False, f'{before} rejects its own default {R(d)}: {type(ex).__name__}: {ex}'
  rec.case(cid, key, ok, msg, wit)


_W_DEFAULT = ('import copy\nif s is not None and MV != s.default:\n'
              '  r = s.apply(copy.deepcopy(s.default), allow_partial=True)\n'
              '  r2 = s.apply(copy.deepcopy(r), allow_partial=True)\n'
              '  assert type(r2) is type(r) and pg.eq(r2, r), (r, r2)\n')


def drv_derived(tier, seed):
  rec = Recorder('C04', 'specs derived from declarations (annotation + default of a parameter / '
                 'of a class attribute; class attribute overriding the default of an inherited '
                 'field): own default acceptable; the inherited field only narrows', scope='')
  anns = [(e, a, False) for e, a in py_annotations()]
  seen = {e for e, _, _ in anns}
  for a in spec_annotations(tier, seed):
    e = to_expr(a)
    if e in seen:
      continue
    seen.add(e)
    try:
      ev(e)
    except OK_ERRORS:
      continue
    anns.append((e, a, True))
  n_decl = n_spec = n_over = 0
  for ann, a, is_spec in anns:
    k = a['k']
    try:
      twin = ev('t.ValueSpec.from_annotation(' + ann + ', auto_typing=True)')
    except Exception as ex:  # pylint: disable=broad-except
      rec.case('derived.from-annotation', ann, False,
               f'from_annotation({ann}) raised {type(ex).__name__}: {ex}',
               pre(ann) + f'import typing\nt.ValueSpec.from_annotation({ann}, auto_typing=True)\n')
      continue
    _self_consistent(rec, 'derived.default-accepted/from-annotation', ann, twin,
                     pre(ann) + 'import typing\n'
                     f's = t.ValueSpec.from_annotation({ann}, auto_typing=True)\n' + _W_DEFAULT)
    xs = default_candidates(a, twin, 5 if tier == 'quick' else 12)
    pool = list(dict.fromkeys(vals(a) + CORE))
    if tier == 'quick':
      pool = pool[:24] + CORE[:6]
    for x in xs:
      v = ev(x)
      # the quick tier: the first way / layout of each table for every pair, one
      # of the others in turn (a choice that does not depend on the seed).
      turn = zlib.crc32((ann + x).encode())
      ways = _pick(_DERIVED, turn, tier, 2)
      layouts = _pick(_OVERRIDES, turn, tier, 1)
      # ---- annotation + default -> spec.
      for name, (src, get) in _DERIVED.items():
        if name not in ways:
          continue
        if name.startswith('class') and (inspect.isfunction(v) or isinstance(v, property)):
          continue      # a function in a class body is a method, not a default.
        src = src.format(ann=ann, x=x)
        head = pre(ann, x) + 'import typing\n'
        wit = fit(head + 'try:\n' + ''.join('  ' + ln + '\n' for ln in src.splitlines()) +
                  f'  s = {get}\nexcept (TypeError, ValueError, KeyError):\n  s = None\n' +
                  _W_DEFAULT, (name, ann, x))
        n_decl += 1
        try:
          s = eval(get, _declare(src))  # pylint: disable=eval-used
        except Exception:  # pylint: disable=broad-except
          rec.case(f'derived.refused/{name}', (ann, x), True, nontrivial=False)
          continue
        n_spec += 1
        _self_consistent(rec, 'derived.default-accepted/' + _DERIVED_ID.get(name, name),
                         (name, ann, x), s, wit)
      # ---- class attribute overriding the default of an inherited field.
      if inspect.isfunction(v) or isinstance(v, property):
        continue
      for name, src in _OVERRIDES.items():
        if name not in layouts or (name == 'subclass-of-members-base' and not is_spec):
          continue
        src = src.format(ann=ann, x=x)
        head = pre(ann, x) + 'import typing\n'
        decl = ('try:\n' + ''.join('  ' + ln + '\n' for ln in src.splitlines()) +
                '  ok = True\nexcept (TypeError, ValueError, KeyError):\n  ok = False\n')
        n_decl += 1
        try:
          ns = _declare(src)
        except Exception:  # pylint: disable=broad-except
          rec.case(f'derived.refused/class-attribute-in-{name}', (ann, x), True, nontrivial=False)
          continue
        n_over += 1
        fb, fx = ns['Base'].__schema__['x'].value, ns['Child'].__schema__['x'].value
        key = (name, ann, x)
        cid = 'derived.class-attribute-override.'
        _self_consistent(
            rec, cid + 'default-accepted', key, fx,
            fit(head + decl + "s = Child.__schema__['x'].value if ok else None\n" + _W_DEFAULT,
                key))
        # the field of the base class is what it was.
        fresh = _declare(src.split('class Child' if 'class Mid' not in src else 'class Mid')[0])
        f0 = fresh['Base'].__schema__['x'].value
        rec.case(cid + 'base-field-unchanged', key, fb == f0 and R(fb) == R(f0),
                 f'field x of Base is {R(fb)} after the subclass was declared; before: {R(f0)}',
                 fit(head + src.split('class Child' if 'class Mid' not in src else 'class Mid')[0] +
                     "import copy\nf0 = copy.deepcopy(Base.__schema__['x'].value)\n" + decl +
                     "assert Base.__schema__['x'].value == f0, Base.__schema__['x'].value\n", key))
        # a value of the field of the subclass is accepted by the field of the base.
        bad = set()
        for y in list(dict.fromkeys([x] + pool)):
          if not holds(fx, y) or acc_live(fb, y)[0]:
            continue
          # (named apart from the input classes of the extension drivers.)
          tag = none_kind(diag(a, ev(y)), a) + '-of-base-field'
          if tag in bad:
            continue
          bad.add(tag)
          rec.case(cid + 'field-narrower/' + tag, key + (y,), False,
                   f'field x of Child is {R(fx)}: it accepts {y}, which the field of Base '
                   f'{R(fb)} rejects',
                   fit(pre(ann, x, y) + 'import typing\n' + decl +
                       f"assert not (ok and acc(Child.__schema__['x'].value, {y}) and "
                       f"not acc(Base.__schema__['x'].value, {y}))\n", key))
        if not bad:
          rec.case(cid + 'field-narrower', key, True)
        # ... and so is the value a Child carries by default.
        if not bad and not is_missing(fx.default) and not has_missing(fx.default):
          try:
            got = ns['Child']().sym_getattr('x')
            try:
              fb.apply(copy.deepcopy(got))
              ok, msg = True, ''
            except Exception as ex:  # pylint: disable=broad-except
              ok, msg = False, (f'Child().x is {R(got)}, which the field of Base {R(fb)} '
                                f'rejects: {type(ex).__name__}: {ex}')
            icid = cid + 'instance-default-accepted-by-base'
            if not ok:      # (the input class of the rejection: one defect, one id.)
              try:
                icid = (cid + 'field-narrower/' + none_kind(diag(a, plain(got)), a) +
                        '-of-base-field')
              except Exception:  # pylint: disable=broad-except
                pass
            rec.case(icid, key, ok, msg,
                     fit(head + decl + "import copy\nif ok:\n  v = Child().sym_getattr('x')\n"
                         "  Base.__schema__['x'].value.apply(copy.deepcopy(v))\n", key))
          except Exception:  # pylint: disable=broad-except
            pass                 # (Child() needs further arguments.)
        # the field of the base is compatible with it.
        if not has_transform(a) and not has_regex(a):
          try:
            comp = fb.is_compatible(fx)
          except Exception as ex:  # pylint: disable=broad-except
            comp = f'{type(ex).__name__}: {ex}'
          rec.case(cid + f'base-field-compatible/of-{k}', key, comp is True,
                   f'field x of Child is {R(fx)}; Base field {R(fb)}.is_compatible: {comp}',
                   fit(head + decl + "assert not ok or Base.__schema__['x'].value.is_compatible("
                       "Child.__schema__['x'].value)\n", key))
  rec.scope = (f'{len(anns)} annotations ({len(py_annotations())} Python / typing annotations, the '
               f'others value specs of every class incl. frozen / noneable / transform and '
               f'{n_random(tier, 6, 80)} seeded random ones) x the default candidates of each '
               f'(rejected values per kind, boundary values, held and converted values) through '
               f'{len(_DERIVED)} ways of deriving a spec from annotation + default and '
               f'{len(_OVERRIDES)} class layouts with a class attribute for an inherited field: '
               f'{n_decl} declarations, {n_spec} derived specs, {n_over} subclasses')
  return rec.result()


DRIVERS = [drv_apply, drv_compat, drv_extend, drv_extend_transform, drv_schema, drv_derived]


def replay(rec):
  """Re-executes rec['witness']; returns (ok, message)."""
  try:
    exec(rec['witness'], {})  # pylint: disable=exec-used
    return True, 'witness passes'
  except Exception as e:  # pylint: disable=broad-except
    return False, f'{type(e).__name__}: {e}'
