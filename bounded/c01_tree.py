"""C01 -- symbolic tree integrity (bounded tier, never counted as proved).

Oracle (from the property statement, not from the code): after every step of a
history of public operations, for every tree the history can reach

  * every symbolic node reachable from the root (walking the *storage* with
    `sym_items()`) has `sym_parent` equal to the container it was found in (for
    members of a `pg.Object` that is the Object itself), `sym_path` equal to the
    sequence of keys walked, `root.sym_get(path)` returns that very node,
    `sym_root` is the root, and no node object is met twice;
  * a node that the step removed from / replaced in a tree does not keep a node
    of that tree as its `sym_parent` (it is not reported as a child any more);
    a node that was detached (parent None) is the root of a well-formed tree of
    its own (empty path, descendants addressed relative to it).

Histories are Python statements executed with `exec` over small trees of
`pg.Dict` / `pg.List` / `pg.Object` nodes; the witness of a failure is the
very statement sequence followed by the failing assertion.  Operations may
raise (bad index, type error, ...): the tree must be well-formed all the same.

A node is an OBJECT, not a value: tree `twins` holds sibling nodes that are
equal by value but distinct (palindromic lists, equal dict values / object
members), the value class `equal-to-stored` inserts a distinct node that is
equal by value to the one it replaces, and lists are reordered by position
(sorts whose key ignores the value, reversal by slice / rebind).  A refused
operation is an operation: tree `strict` holds containers that refuse before,
midway or after the mutation (required fields without default -- `clear`,
`del`, `pop`; list size bounds; element / field types inside a batch;
validation in `_on_bound`; `use_value_spec` with a spec the content violates;
onchange callbacks that raise; a sort that fails after elements have moved);
whatever was refused, every node that is still stored must still be attached
where it is stored.

Keys are data: `drv_key_classes` instantiates the same alphabet over trees
whose dict keys / attribute names belong to a key class (KEY_CLASSES: path
syntax characters, digit strings, empty string, other text, member names,
ints), with such keys at every level of the tree and inside the inserted
values.  The expected path of a node is the list of keys walked, compared
key by key (never through the formatted path).

One call, several members: `drv_one_call_aliasing` hands the SAME node object
to one call for two or three of the members it stores (constructors of
pg.Object / functor / pg.Dict / pg.List in every spelling, update, rebind,
extend, slice assignment, raw containers that are converted on the way in,
clone(override=...)), with the occurrences side by side or at different
depths of raw containers, and demands that every node ends in exactly one
place; the history alphabets carry the same inputs for the value classes
whose source denotes one object (ALIAS_VALUES).

A node is not only a Dict / List / plain Object: `drv_node_kinds` runs the
same alphabet over trees that store inferential nodes (pg.Ref,
ValueFromParentChain: the stored form differs from the evaluated form; the
node that has the parent and the path is the stored one, the target of a Ref
stays in the tree that stores it) and pyglove's own pg.Object subclasses that
override the tree hooks (hyper primitives, functor objects, DNA, DNASpec),
with values of the same kinds, on the containers that hold them and on the
containers inside them.

case_id = <container>.<operation>[@context][!raised][[key:<family>]|[nodes:<family>]]/<violation kind>;
the value class / index of the input goes to the key only; `[key:<family>]` is
present only if the violation needs keys of that family (the same history over
identifier-like keys is clean), `[nodes:<family>]` only if it needs nodes of
that family (the same history over the control tree nk/plain is clean or has
no counterpart there).  Per step only the most
severe kind of tree violation is reported (two-places > wrong-parent >
no-parent > stale-path > lookup > sym_root), plus at most one violation about
the removed node.  A history is not extended past a step that broke a tree
(later violations would be consequences); violations that concern only the
removed node do not stop the history.
"""
import copy
import keyword
import os
import re
import signal
import subprocess
import sys
import textwrap
import threading
import types

import pyglove as pg
from pyvc.bounded import Recorder, rng


@pg.members([
    ('x', pg.typing.Any(default=None)),
    ('y', pg.typing.Any(default=None)),
])
class A(pg.Object):
  allow_symbolic_assignment = True


@pg.members([
    ('l', pg.typing.List(pg.typing.Dict([('v', pg.typing.Any(default=0))]),
                         default=[])),
    ('d', pg.typing.Dict([('n', pg.typing.Dict([('m', pg.typing.Any(default=0))])),
                          ('k', pg.typing.List(pg.typing.Any(), default=[]))])),
    ('a', pg.typing.Object(A).noneable()),
])
class B(pg.Object):
  allow_symbolic_assignment = True


@pg.members([(pg.typing.StrKey(), pg.typing.Any())])
class W(pg.Object):
  """Accepts any keyword: its attribute names may be arbitrary strings."""
  allow_symbolic_assignment = True


@pg.members([
    ('m', pg.typing.Dict([(pg.typing.StrKey(), pg.typing.Any())])),
    ('n', pg.typing.Dict([(pg.typing.StrKey(),
                           pg.typing.Dict([(pg.typing.StrKey(), pg.typing.Any())]))])),
    ('w', pg.typing.Object(W).noneable()),
    ('x', pg.typing.List(pg.typing.Any(), default=[])),
])
class C(pg.Object):
  allow_symbolic_assignment = True


def _boom(updates):
  """An onchange callback that fails: the mutation has been done by then."""
  del updates
  raise RuntimeError('onchange callback failed')


@pg.members([
    ('u', pg.typing.Int()),                       # required, no default
    ('x', pg.typing.Any(default=None)),
])
class R(pg.Object):
  """Validates in `_on_bound`, i.e. after the new values have been stored."""
  allow_symbolic_assignment = True

  def _on_bound(self):
    super()._on_bound()
    if self.u < 0:
      raise ValueError('u must not be negative')


@pg.members([
    ('q', pg.typing.Dict([
        ('name', pg.typing.Str(default='n')),
        ('opt', pg.typing.Object(A)),             # required, no default
        ('sub', pg.typing.Dict([('steps', pg.typing.List(pg.typing.Any()))])),
    ])),
    ('l', pg.typing.List(pg.typing.Dict([('v', pg.typing.Any())]),
                         min_size=2, max_size=3)),
    ('o', pg.typing.Object(R)),
])
class S(pg.Object):
  """Members whose specs refuse operations: required fields without default,
  size bounds, element types, validation after binding."""
  allow_symbolic_assignment = True


# NOTE: `rebind(fn)` inspects the signature of `fn` through the module named
# by the `__name__` of its globals, which therefore has to exist.
HEAD = ("__name__ = 'c01_witness'\nimport copy, sys, types\n"
        "sys.modules.setdefault(__name__, types.ModuleType(__name__))\n"
        "import pyglove as pg\n")
CLASS_BOOM = ("def _boom(updates): raise RuntimeError('onchange callback failed')\n")
CLASS_R = ("@pg.members([('u', pg.typing.Int()), ('x', pg.typing.Any(default=None))])\n"
           "class R(pg.Object):\n"
           "  allow_symbolic_assignment = True\n"
           "  def _on_bound(self):\n"
           "    super()._on_bound()\n"
           "    if self.u < 0: raise ValueError('u must not be negative')\n")
CLASS_S = ("T = pg.typing\n"
           "@pg.members([('q', T.Dict([('name', T.Str(default='n')), ('opt', T.Object(A)), "
           "('sub', T.Dict([('steps', T.List(T.Any()))]))])), "
           "('l', T.List(T.Dict([('v', T.Any())]), min_size=2, max_size=3)), "
           "('o', T.Object(R))])\n"
           "class S(pg.Object): allow_symbolic_assignment = True\n")
CLASS_W = ("@pg.members([(pg.typing.StrKey(), pg.typing.Any())])\n"
           "class W(pg.Object): allow_symbolic_assignment = True\n")
CLASS_C = ("T = pg.typing\n"
           "@pg.members([('m', T.Dict([(T.StrKey(), T.Any())])), "
           "('n', T.Dict([(T.StrKey(), T.Dict([(T.StrKey(), T.Any())]))])), "
           "('w', T.Object(W).noneable()), ('x', T.List(T.Any(), default=[]))])\n"
           "class C(pg.Object): allow_symbolic_assignment = True\n")
CLASS_A = ("@pg.members([('x', pg.typing.Any(default=None)), ('y', pg.typing.Any(default=None))])\n"
           "class A(pg.Object): allow_symbolic_assignment = True\n")
CLASS_B = ("T = pg.typing\n"
           "@pg.members([('l', T.List(T.Dict([('v', T.Any(default=0))]), default=[])), "
           "('d', T.Dict([('n', T.Dict([('m', T.Any(default=0))])), ('k', T.List(T.Any(), default=[]))])), "
           "('a', T.Object(A).noneable())])\n"
           "class B(pg.Object): allow_symbolic_assignment = True\n")

# --------------------------------------------------------------------------
# Trees.  Every tree binds `r` (the root under test), `ext` (another tree),
# `t` (a node that already has a parent, in `ext`) and `s` (a parentless node;
# later the node popped by an earlier step).
# --------------------------------------------------------------------------

_EXT = ("ext = pg.Dict(k=pg.Dict(v=pg.Dict(w=1)), j=[pg.Dict(e=1)])\n"
        "t = ext.k\n"
        "s = pg.Dict(g=pg.Dict(h=1))\n")

TREES = {
    'mixed': (
        "r = pg.Dict(l=[{'x': {'i': 1}}, A(x=[{'q': 1}]), 7, {'c': 1}], "
        "d={'m': {'n': 1}, 'k': [{'z': 1}, 2]})\n" + _EXT),
    'objtree': (
        "r = A(x={'p': {'pp': 1}, 'q': [1]}, y=[{'u': 1}, 2, A(x={'w': 1})])\n"
        + _EXT),
    'rootlist': (
        "r = pg.List([{'x': {'i': 1}}, [{'c': 1}, 3], A(x={'p': 1}), 7])\n"
        + _EXT),
    'typed': (
        "r = B(l=[{'v': {'i': 1}}, {'v': [{'c': 1}]}], "
        "d={'n': {'m': {'mm': 1}}, 'k': [{'z': 1}, 2]}, a=A(x={'p': 1}))\n"
        + _EXT),
    # Sibling nodes that are EQUAL BY VALUE but distinct objects (palindromic
    # lists, dict values / object members with the same content; the typed
    # lists of tree 'strict' hold twins as well): a node is identified by the
    # object, never by its value.
    'twins': (
        "r = pg.Dict(l=[{'x': {'i': 1}}, A(x=[{'q': 1}]), 7, A(x=[{'q': 1}]), {'x': {'i': 1}}], "
        "p=[{'c': [1]}, {'c': [1]}], "
        "d={'m': {'n': {'z': 1}}, 'k': {'n': {'z': 1}}}, "
        "o=A(x={'u': [1]}, y={'u': [1]}))\n" + _EXT),
    # Containers that REFUSE operations, before, midway or after the mutation:
    # required fields without a default, list size bounds (the list `g.l` is at
    # its min size, one below its max size), element types, an object that
    # validates in _on_bound, containers whose onchange callback raises.
    'strict': (
        "r = pg.Dict(g=S(q={'opt': A(x={'p': 1}), 'sub': {'steps': [{'at': 1}]}}, "
        "l=[{'v': {'i': 1}}, {'v': {'i': 1}}], "
        "o=R(u=1, x={'w': [1]})), "
        "cl=pg.List([{'a': 1}, {'b': 2}, 7], onchange_callback=_boom), "
        "cd=pg.Dict(a={'n': 1}, b={'n': 2}, onchange_callback=_boom))\n" + _EXT),
}
EXTRA_KINDS = ('twins', 'strict')


BASE_KINDS = tuple(TREES)

# --------------------------------------------------------------------------
# Key classes.  The path of a node is the sequence of KEYS that leads to it,
# whatever the keys look like: a dict key (or the attribute name of an object
# that takes arbitrary keywords) may contain the characters of the path
# syntax ('.', '[', ']'), look like a list index, be empty, ... and is still
# one key.  For every key class the trees below hold symbolic children under
# such keys at every level (root dict, below a list, below an object, in
# dicts with a value spec, as attribute names) and the whole operation
# alphabet is instantiated with those keys and with inserted values that
# carry such keys themselves.
#   (label, family, existing key K, new key N)
# --------------------------------------------------------------------------

KEY_CLASSES = [
    ('plain', None, 'k', 'z'),              # control: identifier-like keys
    ('dot', 'path-syntax', 'a.b', 'y.z'),
    ('dot-edge', 'path-syntax', '.a', 'z.'),
    ('dot-only', 'path-syntax', '.', '..'),
    ('index-suffix', 'path-syntax', 'x[0]', 'y[1]'),
    ('index-only', 'path-syntax', '[0]', '[-1]'),
    ('bracket-open', 'path-syntax', '[', 'a['),
    ('bracket-close', 'path-syntax', ']', 'a]'),
    ('bracketed-dotted', 'path-syntax', '[a.b]', 'c[y.z].w'),
    ('digits', 'numeric-string', '0', '1'),
    ('negative-digits', 'numeric-string', '-1', '-2'),
    ('empty', 'empty-string', '', ' '),
    ('space', 'other-text', 'a b', ' z'),
    ('quotes', 'other-text', "a'b", 'y"z'),
    ('backslash-newline', 'other-text', 'a\\b', 'y\nz'),
    ('non-ascii', 'other-text', 'é', 'кл'),
    ('member-name', 'member-name', 'sym_path', 'sym_parent'),
    ('int', 'int', 0, 5),
    ('negative-int', 'int', -1, -2),
]
KEY_CLASS = {c[0]: c for c in KEY_CLASSES}
# Quick tier: (classes, every core operation on every class?, other operations?).
# Within a group an operation that is not run on every class is dealt out
# round-robin, so that it runs on at least one class of the group.
KEY_GROUPS = [
    (('plain',), True, False),
    (('dot', 'dot-edge', 'dot-only', 'bracketed-dotted'), True, True),
    (('index-suffix', 'index-only', 'bracket-open', 'bracket-close'), True, True),
    (('digits', 'negative-digits', 'empty'), True, True),
    (('space', 'quotes', 'backslash-newline', 'non-ascii', 'member-name'), False, True),
    (('int', 'negative-int'), True, True),
]

_KD_TREE = (
    "r = pg.Dict({#K: {#K: {'i': 1}, 'e': [{#K: {}}, 2, {#K: 1}]}, "
    "'l': [{#K: {#K: {}}}, A(x={#K: {}}), 7, {'c': 1}], 'd': {'m': {}}})\n"
    "ext = pg.Dict({#K: pg.Dict({#K: pg.Dict()}), 'j': [pg.Dict({#K: pg.Dict()})]})\n"
    "t = ext[#K]\n"
    "s = pg.Dict({#K: pg.Dict()})\n")
_KO_TREE = (
    "r = C(m={#K: {#K: {}}, 'e': [{#K: {}}, 2]}, n={#K: {#K: {}}, 'p': {}}, "
    "w=W(**{#K: {#K: {}}, 'y': [{#K: {}}, 1]}), x=[{#K: [{#K: {}}]}, {#K: {}}, 7])\n"
    "ext = pg.Dict({#K: pg.Dict({#K: pg.Dict()}), 'j': [pg.Dict({#K: pg.Dict()})]})\n"
    "t = ext[#K]\n"
    "s = pg.Dict({#K: pg.Dict()})\n")


def _subst(template, K, N):
  return template.replace('#K', repr(K)).replace('#N', repr(N))


KEY_KINDS = []
for _label, _fam, _K, _N in KEY_CLASSES:
  TREES['kd/' + _label] = _subst(_KD_TREE, _K, _N)
  KEY_KINDS.append('kd/' + _label)
  if isinstance(_K, str):     # attribute names / StrKey specs want strings
    TREES['ko/' + _label] = _subst(_KO_TREE, _K, _N)
    KEY_KINDS.append('ko/' + _label)



# --------------------------------------------------------------------------
# Node kinds.  "Symbolic node" is not only pg.Dict / pg.List / a plain
# pg.Object: the trees below store, next to ordinary nodes,
#   nk/inferential  nodes whose EVALUATED form differs from the stored form:
#                   pg.Ref (target: a node of another tree / an element / a
#                   List / a root of another tree / a parentless node / a raw
#                   list) and pg.symbolic.ValueFromParentChain (resolving to a
#                   node of the same tree, to the target of a Ref, or to
#                   nothing -- evaluation raises).  A Ref is a LEAF: the node
#                   that is stored, has the parent and the path is the Ref;
#                   its target stays where it is stored.
#   nk/hyper        pyglove's own pg.Object subclasses that override the tree
#                   hooks (_update_children_paths, _on_path_change,
#                   _on_parent_change, _sym_clone, sealed by default): pg.oneof
#                   with constant symbolic / numeric / nested candidates,
#                   pg.manyof, pg.permutate, pg.floatv, a functor object,
#                   pg.DNA, a DNASpec.
#   nk/plain        control: the same shape with plain nodes.
# The whole list / dict / object alphabet runs on the containers that hold such
# nodes (and on containers inside them), with values of the same kinds (fresh,
# parented, inside objects and raw containers).  A violation that the same
# history does not show on nk/plain carries `[nodes:<family>]` in its id.
# --------------------------------------------------------------------------

_VP = 'pg.symbolic.ValueFromParentChain()'
_NK_TREE = (
    "s = pg.Dict(g=pg.Dict(h=1)); "
    "ext = pg.Dict(k=pg.Dict(v=pg.Dict(w=1)), j=[pg.Dict(e=1)], o=A(x=pg.Dict(u=1)), h=#X0); "
    "t = ext.k; "
    "r = pg.Dict(l=[#X1, A(x=#X2, y=[#X3, {'q': 1}]), 7, #X4, {'c': #X5}], "
    "d={'m': #X6, 'k': [#X7, 2, {'z': 1}], 'n': {'z': 1}}, "
    "o=A(x=#X8, y={'l': #X9, 'u': [1]}))\n")
_NK_ONEOF = 'pg.oneof([pg.Dict(m=1), 2])'
# family, nodes of the tree (#X0..#X9), values nk1..nk11
NK_CLASSES = {
    'plain': (None, [
        'pg.Dict(hh=1)', 'A(x=pg.Dict(p=1))', 'pg.Dict(e=1)', 'pg.List([pg.Dict(a=1)])',
        "pg.List([1, {'a': 1}])", 'pg.Dict(b=pg.Dict(c=1))', 'A(x=1)', "A(x={'a': [1]})",
        'pg.List([pg.Dict(i=1)])', 'pg.Dict(i=pg.Dict(j=1))'], [
            'A(x=pg.Dict(m=1))', 'pg.List([pg.Dict(a=1)])', 'pg.Dict(b=pg.Dict(c=1))',
            'pg.Dict(f=1)', 'pg.Dict()', 'A(x=pg.Dict(m=1), y=[A(x=1)])',
            "{'n': [pg.Dict(m=1)], 'l': pg.Dict()}", "A(x={'a': [1]})", 'ext.h',
            'pg.List([pg.Dict(i=1)])', 'pg.Dict(i=pg.Dict(j=1))']),
    'inferential': ('nodes:inferential', [
        'pg.Ref(s)', 'pg.Ref(ext.k)', 'pg.Ref(ext.j[0])', _VP, "pg.Ref([1, {'a': 1}])",
        'pg.Ref(ext.k.v)', 'pg.Ref(ext.o)', _VP, 'pg.Ref(ext.j)', _VP], [
            'pg.Ref(t)',                      # nk1 target: child of another tree
            'pg.Ref(ext.j)',                  # nk2 target: a List of another tree
            _VP,                              # nk3
            'pg.Ref({IN})',                   # nk4 target in the same tree (refused)
            "pg.Ref([1, {'a': 1}])",          # nk5 raw target
            f'A(x=pg.Ref(t), y=[pg.Ref(ext.j[0]), {_VP}])',   # nk6 inside an object
            f"{{'n': [pg.Ref(t)], 'l': {_VP}}}",              # nk7 inside raw containers
            'pg.Ref(ext)',                    # nk8 target: root of another tree
            'ext.h',                          # nk9 a Ref that has a parent
            'pg.Ref(s)',                      # nk10 target: a parentless node
            'pg.Ref(ext.o.x)']),              # nk11 target: member of an object
    'hyper': ('nodes:hook-overriding', [
        'pg.oneof([pg.Dict(hh=1), A(x=1)])',
        'pg.oneof([A(x=pg.Dict(p=1)), A(x=[pg.Dict(q=1)])])', 'pg.oneof([1, 2])',
        'pg.manyof(2, [pg.Dict(a=1), pg.Dict(a=2), pg.Dict(a=3)])', 'pg.floatv(0.0, 1.0)',
        'pg.oneof([pg.Dict(b=pg.Dict(bb=1)), pg.oneof([pg.Dict(c=1), 2])])',
        'pg.permutate([A(x=1), A(x=2)])', f"F(x={{'a': [1]}}, y={_NK_ONEOF})",
        'pg.DNA([0, 0.5])',
        'pg.geno.oneof([pg.geno.constant(), pg.geno.constant()])'], [
            'pg.oneof([A(x=pg.Dict(m=1)), A(x=[pg.Dict(m=2)])])',          # nk1
            'pg.manyof(2, [pg.Dict(a=1), pg.Dict(a=2), pg.Dict(a=3)])',     # nk2
            'pg.oneof([pg.Dict(b=1), pg.oneof([pg.Dict(c=1), 2])])',        # nk3 nested
            'pg.floatv(0.0, 1.0)',                                          # nk4
            'pg.oneof([1, 2])',                                             # nk5 numeric
            f'A(x={_NK_ONEOF}, y=[pg.permutate([A(x=1), A(x=2)])])',        # nk6
            f"{{'n': [{_NK_ONEOF}], 'l': pg.floatv(0.0, 1.0)}}",            # nk7
            f"F(x={{'a': [1]}}, y={_NK_ONEOF})",                            # nk8 functor
            'ext.h',                                                        # nk9 parented
            'pg.DNA([0, 0.5])',                                             # nk10
            'pg.geno.manyof(2, [pg.geno.constant(), pg.geno.constant(), pg.geno.constant()])']),  # nk11 DNASpec
}
NK_KINDS = []
for _label, (_fam, _nodes, _values) in NK_CLASSES.items():
  _src = _NK_TREE
  for _i, _n in enumerate(_nodes):
    _src = _src.replace(f'#X{_i}', _n)
  TREES['nk/' + _label] = _src
  if _fam:
    NK_KINDS.append('nk/' + _label)


def key_family(kind):
  """Tag of the tree family that goes to the case id (`key:<family>` for the
  key classes, `nodes:<family>` for the node kinds); None for the base trees
  and for the control classes."""
  if '/' not in kind:
    return None
  shape, label = kind.split('/', 1)
  if shape == 'nk':
    return NK_CLASSES[label][0]
  fam = KEY_CLASS[label][1]
  return f'key:{fam}' if fam else None


def nk_values(label):
  base = [('fresh', 'pg.Dict(n=pg.Dict(m=1))'), ('parented-in-tree', '{IN}'),
          ('detached', 's'), ('equal-to-stored', '{EQ}')]
  return base + [(f'nk{i + 1}', v) for i, v in enumerate(NK_CLASSES[label][2])]


def nk_alphabet_ops(kind):
  label = kind.split('/', 1)[1]
  values = nk_values(label)
  few = [v for v in values if v[0] in ('fresh', 'detached', 'nk1', 'nk3', 'nk9')]
  sv = dict(values)
  ops = []
  ops += list_ops('r.l', 'r.d.n', True, values=values)
  ops += list_ops('r.d.k', 'r.l[4]', True, values=values)
  ops += list_ops('r.l[1].y', 'r.d.n', False, values=few)
  ops += dict_ops('r.d', 'r.l[4]', True, keys=('m', 'k'), values=values)
  ops += dict_ops('r.o.y', 'r.d.n', True, keys=('l', 'u'), values=values)
  ops += dict_ops('r.l[4]', 'r.d.n', False, keys=('c', ''), values=few)
  ops += dict_ops('r', 'r.d.n', False, keys=('o', 'l'), values=few)
  ops += object_ops('r.l[1]', 'r.d.n', True, values=values)
  ops += object_ops('r.o', 'r.d.n', False, values=few)
  if label == 'hyper':
    # containers inside the hook-overriding nodes
    ops += list_ops('r.l[0].candidates', 'r.d.n', True, values=few)
    ops += list_ops('r.l[1].y[0].candidates', 'r.d.n', False, values=few)
    ops += object_ops('r.l[0]', 'r.d.n', True, fields=('hints', 'candidates'), values=few)
    ops += dict_ops("r.l[4].c.candidates[0]", 'r.d.n', True, keys=('b', ''), values=few)
    ops += object_ops('r.d.k[0]', 'r.d.n', True, values=few)
    ops += list_ops("r.o.y.l.candidates", 'r.d.n', False, values=few)

  def add(label, src, core=False, ctx=''):
    ops.append(Op('rebind-deep' + ctx, label, src, core))
  V, S1, S2, S3 = 'pg.Dict(n=pg.Dict(m=1))', sv['nk1'], sv['nk2'], sv['nk3']
  MV, INS = 'pg.MISSING_VALUE', 'pg.Insertion'
  add('several-paths/replace-special', f"r.rebind({{'l[0]': {V}, 'd.m': {V}, 'o.x': {V}, 'l[4].c': {V}}})", True)
  add('several-paths/set-special', f"r.rebind({{'l[0]': {S1}, 'd.n.z': {S2}, 'o.y.u[0]': {S3}, 'l[1].x': {S1}}})", True)
  add('several-paths/insert-delete',
      f"r.rebind({{'l[0]': {INS}({S1}), 'l[3]': {MV}, 'd.k[0]': {MV}, 'l[1].y[0]': {INS}({S2}), 'o.y.l': {MV}}})", True)
  add('several-paths/insert-delete',
      f"r.rebind({{'d.k[0]': {INS}({S3}), 'd.k[1]': {MV}, 'l[0]': {MV}}})")
  add('several-paths', f"r.rebind({{'l[0]': {INS}({S1}), 'd.k[0]': {MV}}}, skip_notification=True)",
      ctx='@skip_notification')
  add('several-paths', f"with pg.notify_on_change(False): r.rebind({{'l[0]': {INS}({S1}), 'd.k[0]': {MV}}})",
      ctx='@notify_off')
  add('one-path/parented', "r.rebind({'d.n.z': ext.h})", True)
  add('one-path/move-within', "r.rebind({'d.n.z': r.l.sym_getattr(0), 'l[0]': 1})")
  ops.append(Op('dict.setitem', 'stored-form-into-other-container',
                "r.d.n['y'] = r.l.sym_getattr(0)", True))
  ops.append(Op('list.append', 'stored-form-into-other-container',
                "r.d.k.append(r.d.sym_getattr('m'))", True))
  ops.append(Op('pop+setitem', 'reinsert-popped-stored-form',
                "_p = r.l.sym_getattr(0)\ndel r.l[0]\nr.d.n['y'] = _p", True))
  ops.append(Op('pop+append', 'reinsert-popped-stored-form',
                "_p = r.d.sym_getattr('m')\ndel r.d['m']\nr.l.append(_p)", True))
  if label == 'hyper':
    add('below-special', f"r.rebind({{'l[0].candidates[0].x': {V}, 'l[4].c.candidates[1].candidates[0]': {V}}})", True)
    add('below-special', f"r.rebind({{'l[0].candidates[0]': {INS}({S1}), 'd.k[0].y': {V}}})", True)
    add('below-special', f"r.rebind({{'l[1].y[0].candidates[2]': {V}, 'l[4].c.candidates[0].b': {S1}}})")
    add('below-special', f"r.rebind({{'d.k[0].x.a': {S3}, 'd.k[0].y': {V}}})")
  return ops


class Op:
  __slots__ = ('group', 'label', 'src', '_code', 'core', 'xcore', 'vclass', 'tid')

  def __init__(self, group, label, src, core=False, vclass=None, tid=None,
               xcore=False):
    self.group = group
    self.label = label
    self.src = src
    self.core = core
    self.xcore = xcore      # core in the trees of EXTRA_KINDS only
    self.vclass = vclass    # class of the inserted value (None: no value)
    self.tid = tid          # position in the alphabet, the same for every key class
    self._code = None

  @property
  def code(self):
    if self._code is None:
      self._code = compile(self.src, '<op>', 'exec')
    return self._code

  def __repr__(self):
    return f'{self.group}[{self.label}]: {self.src}'


# Values to insert: (label, source).  `{IN}` is replaced by an in-tree node
# that is neither the target nor one of its ancestors.
VALUES = [
    ('prim', '5'),
    ('fresh', 'pg.Dict(n=pg.Dict(m=1))'),
    ('raw', "{'n': [{'m': 1}]}"),
    ('freshlist', 'pg.List([pg.Dict(m=1)])'),
    ('obj', 'A(x=pg.Dict(m=1))'),
    ('parented-elsewhere', 't'),
    ('parented-in-tree', '{IN}'),
    ('detached', 's'),
    ('fresh-holding-parented', 'pg.Dict(w=t, u=[t])'),
    # a distinct node that is equal BY VALUE to the one stored at the slot the
    # operation addresses (first element / existing key / first field)
    ('equal-to-stored', '{EQ}'),
]
# The same classes carrying the keys of a key class, plus a value that was
# constructed with a root_path of its own (it must be re-addressed).
KEY_VALUES = [
    ('prim', '5'),
    ('fresh', 'pg.Dict({#K: pg.Dict({#N: pg.Dict(m=1)})})'),
    ('raw', "{#K: [{#N: {'m': 1}}]}"),
    ('freshlist', 'pg.List([pg.Dict({#K: pg.Dict(m=1)})])'),
    ('obj', 'A(x=pg.Dict({#K: pg.Dict(m=1)}))'),
    ('parented-elsewhere', 't'),
    ('parented-in-tree', '{IN}'),
    ('detached', 's'),
    ('fresh-holding-parented', "pg.Dict({#K: t, 'u': [t]})"),
    ('fresh-with-root_path',
     "pg.Dict({#K: pg.List([A(x=pg.Dict({#N: 1}), root_path=pg.KeyPath(['p']))], "
     "root_path=pg.KeyPath([#K, 0]))}, root_path=pg.KeyPath(['q', #N]))"),
]
CORE_VALUES = ('fresh', 'parented-in-tree', 'detached', 'nk1', 'nk2', 'nk3')
# value classes whose source denotes ONE node object however often it is written
ALIAS_VALUES = ('parented-elsewhere', 'parented-in-tree', 'detached')
_FN = ('lambda k, v: pg.Dict(rb=pg.Dict(q=1)) if isinstance(v, int) else v, '
       'raise_on_no_change=False')


def _pick(*labels):
  return [v for v in VALUES if v[0] in labels]


def _vals(intree, values=None, eq=None, wrap=None):
  """(label, source) of the values to insert.  `eq`: expression of the stored
  value a distinct equal copy is made of; `wrap`: format that makes a value
  acceptable to the value spec of the target (e.g. "{'v': %s}")."""
  for label, src in (values or VALUES):
    if '{EQ}' in src:
      if eq is not None:
        yield label, src.replace('{EQ}', f'pg.clone({eq}, deep=True)')
      continue
    src = src.replace('{IN}', intree)
    yield label, (wrap % src if wrap else src)


def _ident(k):
  return isinstance(k, str) and k.isidentifier() and not keyword.iskeyword(k)


def _setattr(o, k, v):
  return f'{o}.{k} = {v}' if _ident(k) else f'setattr({o}, {k!r}, {v})'


def _delattr(o, k):
  return f'del {o}.{k}' if _ident(k) else f'delattr({o}, {k!r})'


def _getattr(o, k):
  return f'{o}.{k}' if _ident(k) else f'{o}.sym_getattr({k!r})'


def _kwarg(k, v):
  return f'{k}={v}' if _ident(k) else f'**{{{k!r}: {v}}}'


def _pathkey(k):
  """A rebind key that addresses the single key `k`."""
  return repr(k) if _ident(k) or isinstance(k, int) else f'pg.KeyPath([{k!r}])'


class _Adder:
  """Collects the operations of one target; numbers them (tid)."""

  def __init__(self, prefix, target, core_target):
    self.ops = []
    self.prefix = prefix
    self.target = target
    self.core_target = core_target
    self.vclass = None
    self.count = {}

  def __call__(self, group, label, src, core=False, xcore=False):
    g = self.prefix + group
    n = self.count[(g, label)] = self.count.get((g, label), 0) + 1
    self.ops.append(Op(g, label, src, core and self.core_target, self.vclass,
                       (self.target, g, label, n),
                       xcore=xcore and self.core_target))


def _list_equal_ops(add, L, v):
  """`v`: a distinct node that is equal by value to the first element: the
  operations that replace the first element, or add `v` next to it."""
  add('setitem', 'first/equal-to-stored', f'{L}[0] = {v}', xcore=True)
  add('setitem-slice', 'same/equal-to-stored', f'{L}[0:1] = [{v}]')
  add('setitem-slice', 'all/equal-to-stored',
      f'{L}[:] = [pg.clone(v, deep=True) for v in {L}.sym_values()]', xcore=True)
  add('rebind-set', 'equal-to-stored', f'{L}.rebind({{0: {v}}})', xcore=True)
  add('rebind-set@notify_parents_off', 'equal-to-stored',
      f'{L}.rebind({{0: {v}}}, notify_parents=False)')
  add('rebind-set@skip_notification', 'equal-to-stored',
      f'{L}.rebind({{0: {v}}}, skip_notification=True)')
  add('setitem@notify_off', 'equal-to-stored',
      f'with pg.notify_on_change(False): {L}[0] = {v}')
  add('setitem@typecheck_off', 'equal-to-stored',
      f'with pg.enable_type_check(False): {L}[0] = {v}')
  add('append', 'equal-to-stored', f'{L}.append({v})')
  add('insert', 'at0/equal-to-stored', f'{L}.insert(0, {v})', xcore=True)
  add('insert', 'at1/equal-to-stored', f'{L}.insert(1, {v})')
  add('remove', 'equal-to-stored', f'{L}.remove({v})', xcore=True)
  add('rebind-insert', 'at0/equal-to-stored', f'{L}.rebind({{0: pg.Insertion({v})}})')
  add('extend', 'two/equal-to-stored', f'{L}.extend([{v}, {v}])')


def _dict_equal_ops(add, D, k0, nk, v):
  """`v`: a distinct node that is equal by value to the one stored at k0."""
  p0 = _pathkey(k0)
  add('setitem', 'replace/equal-to-stored', f'{D}[{k0!r}] = {v}', xcore=True)
  add('setitem', 'new/equal-to-stored', f'{D}[{nk!r}] = {v}')
  add('setattr', 'replace/equal-to-stored', _setattr(D, k0, v))
  add('setdefault', 'existing/equal-to-stored', f'{D}.setdefault({k0!r}, {v})')
  add('update', 'dict/equal-to-stored', f'{D}.update({{{k0!r}: {v}, {nk!r}: {v}}})',
      xcore=True)
  add('update', 'all/equal-to-stored',
      f'{D}.update({{k: pg.clone(v, deep=True) for k, v in {D}.sym_items()}})',
      xcore=True)
  add('ior', 'replace/equal-to-stored', f'{D} |= {{{k0!r}: {v}}}')
  add('rebind', 'replace/equal-to-stored',
      f'{D}.rebind({{{p0}: {v}}}, raise_on_no_change=False)', xcore=True)
  add('rebind@skip_notification', 'replace/equal-to-stored',
      f'{D}.rebind({{{p0}: {v}}}, skip_notification=True, raise_on_no_change=False)')
  add('rebind@notify_parents_off', 'replace/equal-to-stored',
      f'{D}.rebind({{{p0}: {v}}}, notify_parents=False, raise_on_no_change=False)')
  add('setitem@notify_off', 'replace/equal-to-stored',
      f'with pg.notify_on_change(False): {D}[{k0!r}] = {v}')
  add('setitem@typecheck_off', 'replace/equal-to-stored',
      f'with pg.enable_type_check(False): {D}[{k0!r}] = {v}')


def list_ops(L, intree, core_target=False, values=None, target=None,
             wrap=None, bad=()):
  """Every mutator of the list reachable through expression `L`.

  wrap: format that makes a value acceptable as an element (typed lists);
  bad: sources of values the element spec refuses (none for untyped lists).
  """
  add = _Adder('list.', target or L, core_target)

  for vl, v in _vals(intree, values, f'{L}[0]', wrap):
    add.vclass = vl
    c = vl in CORE_VALUES
    f = vl == 'fresh'
    if vl == 'equal-to-stored':
      _list_equal_ops(add, L, v)
      continue
    add('setitem', f'first/{vl}', f'{L}[0] = {v}', c)
    add('setitem', f'last/{vl}', f'{L}[-1] = {v}')
    add('append', vl, f'{L}.append({v})', c)
    add('insert', f'at0/{vl}', f'{L}.insert(0, {v})', c)
    add('insert', f'at1/{vl}', f'{L}.insert(1, {v})')
    add('insert', f'at-1/{vl}', f'{L}.insert(-1, {v})')
    add('insert', f'beyond/{vl}', f'{L}.insert(99, {v})')
    add('extend', f'two/{vl}', f'{L}.extend([{v}, {v}])', f)
    add('iadd', vl, f'{L} += [{v}]', f)
    add('setitem-slice', f'same/{vl}', f'{L}[0:1] = [{v}]', f)
    add('setitem-slice', f'grow/{vl}', f'{L}[0:1] = [{v}, 6, {v}]')
    add('setitem-slice', f'insert/{vl}', f'{L}[1:1] = [{v}]', f)
    add('setitem-slice', f'shrink/{vl}', f'{L}[0:2] = [{v}]', f)
    add('setitem-slice', f'step2/{vl}', f'{L}[0:3:2] = [{v}, {v}]')
    add('setitem-slice', f'step-1/{vl}', f'{L}[::-1] = [{v}] * len({L})')
    add('rebind-set', vl, f'{L}.rebind({{0: {v}}})', c)
    add('rebind-insert', f'at0/{vl}', f'{L}.rebind({{0: pg.Insertion({v})}})', c)
    add('rebind-insert', f'at1/{vl}', f'{L}.rebind({{1: pg.Insertion({v})}})')
    add('rebind-multi', f'insert+delete+set/{vl}',
        f'{L}.rebind({{0: pg.Insertion({v}), 1: pg.MISSING_VALUE, 2: {v}}})', f)
    add('rebind-set', f'append/{vl}', f'{L}.rebind({{len({L}): {v}}})')
    add('rebind-insert@skip_notification', vl,
        f'{L}.rebind({{0: pg.Insertion({v})}}, skip_notification=True)')
    add('rebind-set@notify_parents_off', vl,
        f'{L}.rebind({{0: {v}}}, notify_parents=False)')
    add('rebind-insert@notify_parents_off', vl,
        f'{L}.rebind({{0: pg.Insertion({v})}}, notify_parents=False)', f)
    add('insert@notify_off', vl,
        f'with pg.notify_on_change(False): {L}.insert(0, {v})')
    add('setitem@notify_off', vl,
        f'with pg.notify_on_change(False): {L}[0] = {v}')
    add('append@notify_off', vl,
        f'with pg.notify_on_change(False): {L}.append({v})')
    add('setitem@typecheck_off', vl,
        f'with pg.enable_type_check(False): {L}[0] = {v}')
    add('add', vl, f'{L} = {L} + [{v}]')
    if vl in ALIAS_VALUES:
      # one node object twice in one call, at different depths (see also
      # drv_one_call_aliasing); `two/...`, `step2/...` above are the siblings
      add('extend', f'direct+nested/{vl}', f'{L}.extend([{v}, [{v}]])')
      add('setitem-slice', f'nested+direct/{vl}', f"{L}[0:1] = [{{'z': {v}}}, {v}]")
      add('rebind-multi', f'direct+nested/{vl}', f'{L}.rebind({{0: {v}, 1: [{v}]}})')
  add.vclass = None
  add('extend', 'symbolic-list-with-children', f'{L}.extend(ext.j)')
  add('extend', 'self', f'{L}.extend({L})')
  add('iadd', 'self', f'{L} += {L}')
  add('imul', '2', f'{L} *= 2', True)
  add('imul', '0', f'{L} *= 0')
  add('imul', '1', f'{L} *= 1')
  add('mul', '2', f'{L} = {L} * 2')
  add('delitem', 'first', f'del {L}[0]', True)
  add('delitem', 'last', f'del {L}[-1]')
  add('delitem', 'middle', f'del {L}[1]')
  add('delitem-slice', '0:2', f'del {L}[0:2]')
  add('delitem-slice', '::2', f'del {L}[::2]')
  add('delitem@notify_off', 'first',
      f'with pg.notify_on_change(False): del {L}[0]')
  add('pop', 'first', f's = {L}.pop(0)', True)
  add('pop', 'last', f's = {L}.pop()')
  add('pop', 'middle', f's = {L}.pop(1)')
  add('pop@notify_off', 'first',
      f'with pg.notify_on_change(False): s = {L}.pop(0)')
  add('remove', 'prim', f'{L}.remove(7)')
  add('remove', 'symbolic', f'{L}.remove({L}[0])', True)
  add('clear', '', f'{L}.clear()', True)
  add('sort', 'key', f'{L}.sort(key=str)')
  add('sort', 'key-reverse', f'{L}.sort(key=str, reverse=True)', True)
  add('reverse', '', f'{L}.reverse()', True)
  # Reorderings that are decided by the position / identity of the elements,
  # not by their value (elements that are equal by value trade places; over a
  # palindrome the content reads the same afterwards).
  add('sort', 'key-reversing-positions',
      f'_n = iter(range(len({L}), 0, -1))\n{L}.sort(key=lambda v: next(_n))',
      xcore=True)
  add('sort', 'key-rotating-positions',
      f'_n = iter(range(len({L})))\n{L}.sort(key=lambda v: next(_n) or 99)',
      xcore=True)
  add('sort', 'key-constant', f'{L}.sort(key=lambda v: 0)')
  add('sort', 'key-constant-reverse', f'{L}.sort(key=lambda v: 0, reverse=True)')
  add('reverse', 'twice', f'{L}.reverse()\n{L}.reverse()')
  add('setitem-slice', 'reversed-self', f'{L}[:] = list({L})[::-1]', xcore=True)
  add('setitem-slice', 'step-1-self', f'{L}[::-1] = list({L})')
  add('rebind-set', 'reversed-self',
      f'{L}.rebind({{i: v for i, v in enumerate(list({L})[::-1])}}, raise_on_no_change=False)')
  # A sort that fails: before anything moved (incomparable elements, a key
  # function that raises) or after some elements have moved (the keys turn
  # out to be incomparable midway; needs >= 4 elements to move anything).
  add('sort', 'no-key', f'{L}.sort()')
  add('sort', 'key-raises',
      f'_n = iter([1, 0, 1, 1, 1, 1, 1, 1, 1])\n{L}.sort(key=lambda v: 1 // next(_n))')
  add('sort', 'keys-incomparable-midway',
      f"_n = iter([2, 1, 3, 'x', 4, 5, 6, 7, 8])\n{L}.sort(key=lambda v: next(_n))",
      xcore=True)
  add('setitem-slice', 'delete-two', f'{L}[0:2] = []', True)
  add('setitem-slice', 'delete-all', f'{L}[:] = []')
  add('setitem-slice', 'self', f'{L}[:] = list({L})')
  add('setitem-slice', 'rotate', f'{L}[:] = list({L})[1:] + list({L})[:1]', True)
  add('setitem', 'missing-value', f'{L}[0] = pg.MISSING_VALUE')
  add('rebind-delete', 'first', f'{L}.rebind({{0: pg.MISSING_VALUE}})', True)
  add('rebind-delete', 'two',
      f'{L}.rebind({{0: pg.MISSING_VALUE, 1: pg.MISSING_VALUE}})')
  add('rebind-delete@skip_notification', 'first',
      f'{L}.rebind({{0: pg.MISSING_VALUE}}, skip_notification=True)')
  add('rebind-fn', '', f'{L}.rebind({_FN})')
  add('rebind-set', 'swap', f'{L}.rebind({{0: {L}[1], 1: {L}[0]}})', True)
  add('setitem', 'swap', f'{L}[0], {L}[1] = {L}[1], {L}[0]', True)
  add('setitem', 'same-node', f'{L}[0] = {L}[0]')
  add('setitem', 'sibling', f'{L}[0] = {L}[1]')
  add('insert', 'own-child-same-index', f'{L}.insert(0, {L}[0])', True)
  add('insert', 'own-child-other-index', f'{L}.insert(0, {L}[1])')
  add('rebind-insert', 'own-child-same-index',
      f'{L}.rebind({{0: pg.Insertion({L}[0])}})')
  add('setitem-slice', 'own-child-twice', f'{L}[0:1] = [{L}[0], {L}[0]]')
  add('extend', 'own-children', f'{L}.extend([{L}[0], {L}[1]])')
  add('append', 'own-last-child', f'{L}.append({L}[-1])')
  add('use_value_spec', '', f'{L}.use_value_spec(pg.typing.List(pg.typing.Any()))')
  add('use_value_spec', 'refusing-elements',
      f'{L}.use_value_spec(pg.typing.List(pg.typing.Int()))')
  add('use_value_spec', 'refusing-later-element',
      f'{L}.use_value_spec(pg.typing.List(pg.typing.Union([pg.typing.Dict(), pg.typing.Int()])))')
  add('use_value_spec', 'refusing-size',
      f'{L}.use_value_spec(pg.typing.List(pg.typing.Any(), max_size=1))')
  add('append@sealed', '',
      f'{L}.seal()\ntry: {L}.append(pg.Dict(z=1))\nfinally: {L}.seal(False)')
  # Batches that the value spec refuses midway (typed lists only).
  F = (wrap or '%s') % 'pg.Dict(n=pg.Dict(m=1))'
  for i, b in enumerate(bad):
    add.vclass = f'invalid{i}'
    add('setitem', f'invalid{i}', f'{L}[0] = {b}', xcore=True)
    add('append', f'invalid{i}', f'{L}.append({b})')
    add('insert', f'invalid{i}', f'{L}.insert(0, {b})')
    add('extend', f'valid-then-invalid{i}', f'{L}.extend([{F}, {b}])', xcore=True)
    add('iadd', f'valid-then-invalid{i}', f'{L} += [{F}, {b}]')
    add('setitem-slice', f'same/valid-then-invalid{i}', f'{L}[0:2] = [{F}, {b}]', xcore=True)
    add('setitem-slice', f'insert/valid-then-invalid{i}', f'{L}[1:1] = [{F}, {b}]')
    add('setitem-slice', f'step2/valid-then-invalid{i}', f'{L}[0:3:2] = [{F}, {b}]')
    add('rebind-multi', f'valid-then-invalid{i}', f'{L}.rebind({{0: {b}, 1: {F}}})', xcore=True)
    add('rebind-multi', f'invalid-then-valid{i}', f'{L}.rebind({{0: {F}, 1: {b}}})')
    add('rebind-multi', f'insert+invalid{i}',
        f'{L}.rebind({{0: {b}, 1: pg.Insertion({F})}})', xcore=True)
    add('rebind-multi', f'delete+invalid{i}',
        f'{L}.rebind({{0: {b}, 1: pg.MISSING_VALUE}})')
  add.vclass = None
  return add.ops


def dict_ops(D, intree, core_target=False, keys=('a', 'b'), nk='z', nk2='y2',
             values=None, target=None, wrap=None, bad=()):
  """Every mutator of the dict reachable through expression `D`.

  keys[0]: an existing key holding a symbolic node; keys[1]: another existing
  key ('' if none); nk, nk2: keys that do not exist yet.  Keys may be any
  string or int: where the API takes a *path* (rebind) the key is passed as a
  one-key `pg.KeyPath` unless it is identifier-like; the plain-string and the
  formatted-path spellings are separate operations (they may address
  something else or raise, but must leave well-formed trees).

  wrap: format that makes a value acceptable for keys[0] (typed dicts); bad:
  sources of values that the field of keys[1] (of keys[0] if there is no
  keys[1]) refuses.
  """
  add = _Adder('dict.', target or D, core_target)
  k0, k1 = keys
  p0, pn, pn2 = _pathkey(k0), _pathkey(nk), _pathkey(nk2)

  for vl, v in _vals(intree, values, f'{D}[{k0!r}]', wrap):
    add.vclass = vl
    c = vl in CORE_VALUES
    f = vl == 'fresh'
    if vl == 'equal-to-stored':
      _dict_equal_ops(add, D, k0, nk, v)
      continue
    add('setitem', f'replace/{vl}', f'{D}[{k0!r}] = {v}', c)
    add('setitem', f'new/{vl}', f"{D}[{nk!r}] = {v}", c)
    add('setitem', f'intkey/{vl}', f'{D}[1] = {v}')
    add('setattr', f'replace/{vl}', _setattr(D, k0, v))
    add('setattr', f'new/{vl}', _setattr(D, nk, v))
    add('setdefault', f'new/{vl}', f"{D}.setdefault({nk!r}, {v})", f)
    add('setdefault', f'existing/{vl}', f'{D}.setdefault({k0!r}, {v})')
    add('update', f'dict/{vl}', f"{D}.update({{{k0!r}: {v}, {nk!r}: {v}}})", c)
    add('update', f'kwargs/{vl}', f'{D}.update({_kwarg(nk, v)})')
    add('update', f'pairs/{vl}', f"{D}.update([({nk!r}, {v}), ({k0!r}, 1)])")
    add('ior', f'new/{vl}', f"{D} |= {{{nk!r}: {v}}}", f)
    add('ior', f'replace/{vl}', f'{D} |= {{{k0!r}: {v}}}')
    add('or', vl, f"{D} = {D} | {{{nk!r}: {v}}}")
    add('rebind', f'replace/{vl}', f'{D}.rebind({{{p0}: {v}}})', c)
    add('rebind', f'new/{vl}',
        f'{D}.rebind({nk}={v})' if _ident(nk) else f'{D}.rebind({{{pn}: {v}}})')
    add('rebind-multi', f'delete+new+new/{vl}',
        f"{D}.rebind({{{p0}: pg.MISSING_VALUE, {pn}: {v}, {pn2}: {v}}})", f)
    add('rebind@skip_notification', f'replace/{vl}',
        f'{D}.rebind({{{p0}: {v}}}, skip_notification=True)')
    add('rebind@notify_parents_off', f'replace/{vl}',
        f'{D}.rebind({{{p0}: {v}}}, notify_parents=False)')
    add('setitem@notify_off', f'replace/{vl}',
        f'with pg.notify_on_change(False): {D}[{k0!r}] = {v}')
    add('setitem@typecheck_off', f'new/{vl}',
        f"with pg.enable_type_check(False): {D}[{nk!r}] = {v}")
    if not _ident(k0) and isinstance(k0, str):
      add('rebind-plain-string-key', f'replace/{vl}', f'{D}.rebind({{{k0!r}: {v}}})')
      add('rebind-formatted-key', f'replace/{vl}',
          f'{D}.rebind({{str(pg.KeyPath([{k0!r}])): {v}}})')
    if not _ident(nk) and isinstance(nk, str):
      add('rebind-plain-string-key', f'new/{vl}', f'{D}.rebind({{{nk!r}: {v}}})')
      add('rebind-formatted-key', f'new/{vl}',
          f'{D}.rebind({{str(pg.KeyPath([{nk!r}])): {v}}})')
    if vl in ALIAS_VALUES:
      add('update', f'direct+nested/{vl}', f'{D}.update({{{k0!r}: {v}, {nk!r}: [{v}]}})')
      add('rebind-multi', f'nested+direct/{vl}',
          f"{D}.rebind({{{p0}: {{'z': {v}}}, {pn}: {v}}})")
      add('setitem', f'raw-holding-twice/{vl}', f"{D}[{nk!r}] = {{'p': {v}, 'q': [{v}]}}")
  add.vclass = None
  add('delitem', '', f'del {D}[{k0!r}]', True)
  add('delattr', '', _delattr(D, k0))
  add('delitem@notify_off', '',
      f'with pg.notify_on_change(False): del {D}[{k0!r}]')
  add('pop', 'existing', f's = {D}.pop({k0!r})', True)
  add('pop', 'missing', f"s0 = {D}.pop('nokey', None)")
  add('popitem', '', f's = {D}.popitem()[1]', True)
  add('clear', '', f'{D}.clear()', True)
  add('setitem', 'missing-value', f'{D}[{k0!r}] = pg.MISSING_VALUE')
  add('rebind-delete', '', f'{D}.rebind({{{p0}: pg.MISSING_VALUE}})', True)
  add('rebind-fn', '', f'{D}.rebind({_FN})')
  add('setitem', 'same-node', f'{D}[{k0!r}] = {D}[{k0!r}]')
  add('update', 'self', f'{D}.update({D})')
  add('update', 'symbolic-dict-with-children', f'{D}.update(ext)')
  add('ior', 'symbolic-dict-with-children', f'{D} |= ext')
  add('use_value_spec', '', f'{D}.use_value_spec(pg.typing.Dict())')
  add('use_value_spec', 'refusing-field',
      f'{D}.use_value_spec(pg.typing.Dict([({k0!r}, pg.typing.Int()), '
      f'(pg.typing.StrKey(), pg.typing.Any())]))')
  if k1:
    add('use_value_spec', 'refusing-later-field',
        f'{D}.use_value_spec(pg.typing.Dict([({k0!r}, pg.typing.Any()), '
        f'({k1!r}, pg.typing.Int()), (pg.typing.StrKey(), pg.typing.Any())]))')
  add('use_value_spec', 'refusing-missing-required',
      f"{D}.use_value_spec(pg.typing.Dict([(pg.typing.StrKey(), pg.typing.Any()), "
      f"('required_key', pg.typing.Dict([('w', pg.typing.Int())]))]))")
  # Updates that the value spec refuses, alone or midway (typed dicts only).
  F = (wrap or '%s') % 'pg.Dict(n=pg.Dict(m=1))'
  kb = k1 or k0
  pb = _pathkey(kb)
  for i, b in enumerate(bad):
    add.vclass = f'invalid{i}'
    add('setitem', f'invalid{i}', f'{D}[{kb!r}] = {b}', xcore=True)
    add('rebind', f'invalid{i}', f'{D}.rebind({{{pb}: {b}}})')
    if k1:
      add('update', f'valid-then-invalid{i}',
          f'{D}.update({{{k0!r}: {F}, {k1!r}: {b}}})', xcore=True)
      add('update', f'invalid-then-valid{i}',
          f'{D}.update({{{k1!r}: {b}, {k0!r}: {F}}})')
      add('ior', f'valid-then-invalid{i}', f'{D} |= {{{k0!r}: {F}, {k1!r}: {b}}}')
      add('rebind-multi', f'valid+invalid{i}',
          f'{D}.rebind({{{p0}: {F}, {pb}: {b}}})', xcore=True)
      add('rebind-multi', f'delete+invalid{i}',
          f'{D}.rebind({{{p0}: pg.MISSING_VALUE, {pb}: {b}}})')
  add.vclass = None
  add('setitem@sealed', '',
      f"{D}.seal()\ntry: {D}[{nk!r}] = pg.Dict(z=1)\nfinally: {D}.seal(False)")
  if not _ident(k0) and isinstance(k0, str):
    add('rebind-plain-string-key', 'delete', f'{D}.rebind({{{k0!r}: pg.MISSING_VALUE}})')
    add('rebind-formatted-key', 'delete',
        f'{D}.rebind({{str(pg.KeyPath([{k0!r}])): pg.MISSING_VALUE}})')
  if k1:
    p1 = _pathkey(k1)
    add('setitem', 'sibling', f'{D}[{k0!r}] = {D}[{k1!r}]', True)
    add('setitem', 'swap',
        f'{D}[{k0!r}], {D}[{k1!r}] = {D}[{k1!r}], {D}[{k0!r}]', True)
    add('rebind', 'swap',
        f'{D}.rebind({{{p0}: {D}[{k1!r}], {p1}: {D}[{k0!r}]}})')
    add('pop+setitem', 'reinsert-popped', f"s = {D}.pop({k0!r})\n{D}[{k1!r}] = s", True)
  return add.ops


def object_ops(O, intree, core_target=False, fields=('x', 'y'), values=None,
               target=None, wrap=None, bad=()):
  """Every mutator of the object `O`; `fields` may be arbitrary attribute
  names (objects that take any keyword).  wrap: format that makes a value
  acceptable for fields[0]; bad: sources of values that fields[1] refuses (by
  its value spec, or by the validation in `_on_bound`)."""
  add = _Adder('object.', target or O, core_target)
  f0, f1 = fields
  g0, g1 = _getattr(O, f0), _getattr(O, f1)

  def rb(*pairs, extra=''):
    if all(_ident(k) for k, _ in pairs):
      return f'{O}.rebind(' + ', '.join(f'{k}={v}' for k, v in pairs) + extra + ')'
    return (f'{O}.rebind({{' + ', '.join(f'{_pathkey(k)}: {v}' for k, v in pairs)
            + '}' + extra + ')')

  for vl, v in _vals(intree, values, g0, wrap):
    add.vclass = vl
    c = vl in CORE_VALUES
    add('setattr', f'{vl}', _setattr(O, f0, v), c, xcore=vl == 'equal-to-stored')
    add('setattr', f'other/{vl}', _setattr(O, f1, v))
    add('rebind', f'kwargs/{vl}', rb((f0, v)), c)
    add('rebind', f'both/{vl}', rb((f0, v), (f1, v)))
    add('rebind@skip_notification', vl, rb((f0, v), extra=', skip_notification=True'))
    add('setattr@notify_off', vl,
        f'with pg.notify_on_change(False): {_setattr(O, f0, v)}')
    add('setattr@writable_accessors', vl,
        f'with pg.allow_writable_accessors(True): {_setattr(O, f0, v)}')
    add('rebind', f'absent-field/{vl}', f'{O}.rebind({{"nofield": {v}}})')
    if not _ident(f0):
      add('rebind-plain-string-key', vl, f'{O}.rebind({{{f0!r}: {v}}})')
      add('rebind-formatted-key', vl, f'{O}.rebind({{str(pg.KeyPath([{f0!r}])): {v}}})')
    if vl in ALIAS_VALUES:
      add('rebind', f'direct+nested/{vl}', rb((f0, v), (f1, f'[{v}]')))
      add('setattr', f'raw-holding-twice/{vl}',
          _setattr(O, f0, f"{{'p': {v}, 'q': [{v}]}}"))
  add.vclass = None
  add('rebind', 'reset-default', rb((f0, 'pg.MISSING_VALUE')), True)
  add('rebind', 'swap', rb((f0, g1), (f1, g0)), True)
  add('setattr', 'swap',
      f'{O}.{f0}, {O}.{f1} = {O}.{f1}, {O}.{f0}' if _ident(f0) and _ident(f1) else
      f'_a, _b = {g0}, {g1}\n{_setattr(O, f0, "_b")}\n{_setattr(O, f1, "_a")}', True)
  add('setattr', 'same-node', _setattr(O, f0, g0))
  add('rebind-fn', '', f'{O}.rebind({_FN})')
  add('setattr@sealed', '',
      f'{O}.seal()\ntry: {_setattr(O, f0, "pg.Dict(z=1)")}\nfinally: {O}.seal(False)')
  # The Dict that holds the members (reset to the defaults, or refused when a
  # required member has no default).
  add('sym_init_args-clear', '', f'{O}.sym_init_args.clear()', xcore=True)
  F = (wrap or '%s') % 'pg.Dict(n=pg.Dict(m=1))'
  for i, b in enumerate(bad):
    add.vclass = f'invalid{i}'
    add('setattr', f'invalid{i}', _setattr(O, f1, b), xcore=True)
    add('rebind', f'valid+invalid{i}', rb((f0, F), (f1, b)), xcore=True)
    add('rebind', f'invalid+valid{i}', rb((f1, b), (f0, F)))
    add('rebind@skip_notification', f'valid+invalid{i}',
        rb((f0, F), (f1, b), extra=', skip_notification=True'))
    add('setattr@notify_off', f'invalid{i}',
        f'with pg.notify_on_change(False): {_setattr(O, f1, b)}')
  add.vclass = None
  return add.ops


def whole_tree_ops():
  ops = []

  def add(group, label, src, core=False):
    ops.append(Op(group, label, src, core))
  add('clone', 'deep', 'r0 = r\nr = r.clone(deep=True)', True)
  add('clone', 'shallow', 'r0 = r\nr = r.clone()', True)
  add('clone', 'copy.copy', 'r0 = r\nr = copy.copy(r)')
  add('clone', 'copy.deepcopy', 'r0 = r\nr = copy.deepcopy(r)')
  add('clone', 'nested-node-deep',
      'r0 = r\nr = next(v for v in r.sym_values() if isinstance(v, pg.Symbolic)).clone(deep=True)')
  add('clone', 'nested-node-shallow',
      'r0 = r\nr = copy.copy(next(v for v in r.sym_values() if isinstance(v, pg.Symbolic)))')
  add('clone', 'deep-with-override',
      'r0 = r\nr = r.clone(deep=True, override={next(iter(r.sym_keys())): pg.Dict(n=pg.Dict(m=1))})')
  add('from_json', 'roundtrip', 'r0 = r\nr = pg.from_json(pg.to_json(r))', True)
  add('from_json', 'str-roundtrip',
      'r0 = r\nr = pg.from_json_str(pg.to_json_str(r))')
  add('dict.setitem', 'subtree-into-other-tree',
      'ext.c = next(v for v in r.sym_values() if isinstance(v, pg.Symbolic))')
  return ops


def deep_rebind_ops(kind):
  """Rebind from an ancestor with one and with several deep paths."""
  ops = []

  def add(label, src, core=False, ctx=''):
    ops.append(Op('rebind-deep' + ctx, label, src, core))
  V = 'pg.Dict(n=pg.Dict(m=1))'
  if kind == 'mixed':
    add('one-path', f"r.rebind({{'l[0].x': {V}}})", True)
    add('one-path', f"r.rebind({{'l[1].x[0]': {V}}})")
    add('one-path', f"r.rebind({{'d.k[0]': pg.Insertion({V})}})")
    add('one-path/parented', "r.rebind({'d.m': t})", True)
    add('one-path/in-tree', "r.rebind({'d.m': r.l[0]})")
    add('several-paths', f"r.rebind({{'l[0]': {V}, 'd.m.n': {V}, 'd.k[1]': {V}, 'l[1].x': t}})", True)
    add('several-paths/insert-delete',
        f"r.rebind({{'l[0]': pg.Insertion({V}), 'l[2]': pg.MISSING_VALUE, 'd.k[0]': pg.MISSING_VALUE, 'l[1].x[0]': pg.Insertion(s)}})", True)
    add('several-paths/delete-keys',
        "r.rebind({'d.m': pg.MISSING_VALUE, 'l[0].x': pg.MISSING_VALUE, 'd.k[1]': pg.MISSING_VALUE})")
    add('several-paths/parent-and-child',
        f"r.rebind({{'d': {{'m': {{'n': 2}}}}, 'l[1].x': {V}, 'l[1].x.n': 3}})")
    add('several-paths',
        f"r.rebind({{'l[0]': pg.Insertion({V}), 'd.k[0]': pg.MISSING_VALUE}}, skip_notification=True)",
        ctx='@skip_notification')
    add('several-paths',
        f"with pg.notify_on_change(False): r.rebind({{'l[0]': pg.Insertion({V}), 'd.k[0]': pg.MISSING_VALUE}})",
        ctx='@notify_off')
    add('nested-target/list', f"r.l.rebind({{'[0].x': {V}, '[1].x[0]': pg.Insertion({V}), '[3]': pg.MISSING_VALUE}})", True)
  elif kind == 'objtree':
    add('one-path', f"r.rebind({{'x.p': {V}}})", True)
    add('one-path', f"r.rebind({{'y[0]': {V}}})")
    add('one-path', f"r.rebind({{'y[2].x.w': {V}}})")
    add('one-path/parented', "r.rebind({'x.p': t})")
    add('several-paths', f"r.rebind({{'x.p.pp': {V}, 'y[2].x': t, 'x.q[0]': s, 'y[0]': pg.Insertion({V})}})", True)
    add('several-paths/insert-delete',
        f"r.rebind({{'y[2].y': {V}, 'x.q': pg.MISSING_VALUE, 'y[1]': pg.Insertion({V}), 'y[0]': pg.MISSING_VALUE}})", True)
    add('several-paths/raising-midway', f"r.rebind({{'x.p.pp': {V}, 'y[0]': pg.Insertion({V}), 'y[2].x': t, 'x.q[0]': s}})")
    add('several-paths/raising-midway',
        f"r.rebind({{'y[0]': pg.MISSING_VALUE, 'y[1]': pg.Insertion({V}), 'x.q': pg.MISSING_VALUE, 'y[2].y': {V}}})")
    add('several-paths',
        f"r.rebind({{'y[0]': pg.Insertion({V}), 'x.p': pg.MISSING_VALUE}}, skip_notification=True)",
        ctx='@skip_notification')
    add('several-paths',
        f"with pg.notify_on_change(False): r.rebind({{'y[0]': pg.Insertion({V}), 'x.p': pg.MISSING_VALUE}})",
        ctx='@notify_off')
    add('nested-target/object', f"r.y[2].rebind({{'x.w': {V}, 'y': [{V}]}})")
  elif kind == 'rootlist':
    add('one-path', f"r.rebind({{'[0].x': {V}}})", True)
    add('one-path', f"r.rebind({{'[1][0]': {V}}})")
    add('one-path/parented', "r.rebind({'[2].x': t})")
    add('several-paths', f"r.rebind({{'[0].x': {V}, '[1][0]': pg.Insertion({V}), '[2].x.p': {V}}})", True)
    add('several-paths/insert-delete',
        f"r.rebind({{'[0]': pg.Insertion({V}), '[1]': pg.MISSING_VALUE, '[1][0]': pg.MISSING_VALUE, '[3]': pg.Insertion(s)}})", True)
    add('several-paths',
        f"r.rebind({{'[0]': pg.Insertion({V}), '[2]': pg.MISSING_VALUE}}, skip_notification=True)",
        ctx='@skip_notification')
    add('several-paths',
        f"with pg.notify_on_change(False): r.rebind({{'[1][0]': pg.Insertion({V}), '[2].x.p': {V}}})",
        ctx='@notify_off')
  elif kind == 'twins':
    add('swap-equal-nodes/list', "r.rebind({'l[0]': r.l[4], 'l[4]': r.l[0]})", True)
    add('swap-equal-nodes/list', "r.rebind({'l[1]': r.l[3], 'l[3]': r.l[1], 'p[0]': r.p[1], 'p[1]': r.p[0]})")
    add('swap-equal-nodes/dict', "r.rebind({'d.m': r.d.k, 'd.k': r.d.m})", True)
    add('swap-equal-nodes/object', "r.rebind({'o.x': r.o.y, 'o.y': r.o.x})", True)
    add('swap-equal-nodes/nested', "r.rebind({'d.m.n': r.d.k.n, 'd.k.n': r.d.m.n})")
    add('equal-to-stored',
        "r.rebind({'l[0]': pg.clone(r.l[0], deep=True), 'd.m': pg.clone(r.d.m, deep=True), "
        "'o.x': pg.clone(r.o.x, deep=True), 'l[1].x[0]': pg.clone(r.l[1].x[0], deep=True)}, "
        "raise_on_no_change=False)", True)
    add('equal-to-sibling',
        "r.rebind({'l[0]': pg.clone(r.l[4], deep=True), 'd.m': pg.clone(r.d.k, deep=True), "
        "'o.x': pg.clone(r.o.y, deep=True)}, raise_on_no_change=False)")
    add('several-paths/insert-delete',
        f"r.rebind({{'l[0]': pg.Insertion(pg.clone(r.l[0], deep=True)), 'l[4]': pg.MISSING_VALUE, 'p[0]': pg.MISSING_VALUE}})", True)
  elif kind == 'strict':
    AV, LV = f'A(x={V})', "{'v': %s}" % V
    add('valid+invalid/dict', f"r.rebind({{'g.q.opt': {AV}, 'g.q.sub': 5}})", True)
    add('valid+invalid/dict', f"r.rebind({{'g.q.sub.steps': 5, 'g.q.opt': {AV}}})")
    add('valid+invalid/list', f"r.rebind({{'g.l[0]': {LV}, 'g.l[1]': 5}})", True)
    add('valid+invalid/list', f"r.rebind({{'g.q.opt': {AV}, 'g.l[0]': {LV}, 'g.l[1]': {{'w': 5}}}})")
    add('valid+invalid/object', f"r.rebind({{'g.o.x': {V}, 'g.o.u': -1}})", True)
    add('valid+invalid/object', f"r.rebind({{'g.o': R(u=2, x={V}), 'g.q': {{'opt': 5}}}})", True)
    add('valid+invalid/across', f"r.rebind({{'cd.a': {V}, 'g.o.x': {V}, 'g.l[0].v': {V}, 'g.q.opt': 5}})", True)
    add('delete-required', "r.rebind({'g.q.opt': pg.MISSING_VALUE})", True)
    add('delete-required', f"r.rebind({{'g.o.x': {V}, 'g.l[0].v': pg.MISSING_VALUE}})")
    add('delete-required', f"r.rebind({{'cd.a': {V}, 'g': pg.MISSING_VALUE}})")
    add('size-bounds', f"r.rebind({{'g.l[0]': pg.MISSING_VALUE, 'g.o.x': {V}}})", True)
    add('size-bounds', f"r.rebind({{'g.l[0]': pg.Insertion({LV}), 'g.l[1]': pg.Insertion({LV}), 'g.o.x': {V}}})")
    add('raising-callback', f"r.rebind({{'cl[0]': {V}, 'cd.a': {V}, 'g.o.x': {V}}})", True)
    add('raising-callback', f"r.rebind({{'cl[0].a': {V}, 'cd.a.n': {V}}})")
    add('raising-callback', "r.rebind({'cd.a': r.cd.b, 'cd.b': r.cd.a})")
  else:
    W = "{'v': pg.Dict(n=pg.Dict(m=1))}"
    add('one-path', f"r.rebind({{'l[0].v': {V}}})", True)
    add('one-path', f"r.rebind({{'d.n.m': {V}}})")
    add('one-path/parented', "r.rebind({'a.x': t})")
    add('several-paths', f"r.rebind({{'l[0]': {W}, 'd.n.m': {V}, 'd.k[0]': pg.Insertion({V}), 'a.x': s}})", True)
    add('several-paths/insert-reset',
        f"r.rebind({{'l[0]': pg.Insertion({W}), 'd.k[0]': pg.Insertion({V}), 'a': pg.MISSING_VALUE, 'd.n': pg.MISSING_VALUE}})", True)
    add('several-paths/raising-midway',
        f"r.rebind({{'l[0]': pg.Insertion({W}), 'l[1]': pg.MISSING_VALUE, 'd.k[0]': pg.MISSING_VALUE, 'a': pg.MISSING_VALUE}})")
    add('several-paths/raising-midway',
        f"r.rebind({{'d.k[0]': pg.Insertion({V}), 'l[0]': pg.Insertion({W}), 'nofield': 1}})")
    add('several-paths',
        f"r.rebind({{'l[0]': pg.Insertion({W}), 'd.k[0]': pg.MISSING_VALUE}}, skip_notification=True)",
        ctx='@skip_notification')
    add('several-paths',
        f"with pg.notify_on_change(False): r.rebind({{'l[0]': pg.Insertion({W}), 'd.k[0]': pg.MISSING_VALUE}})",
        ctx='@notify_off')
    add('typed-reset', "r.rebind({'d': pg.MISSING_VALUE, 'l': pg.MISSING_VALUE})")
  return ops


def _kp(*keys):
  return 'pg.KeyPath([' + ', '.join(repr(k) for k in keys) + '])'


def key_deep_rebind_ops(shape, K, N):
  """Rebind from an ancestor through keys of the class: the paths are given
  as `pg.KeyPath` objects (one key each, never parsed) and, as separate
  operations, in the formatted spelling `str(pg.KeyPath(...))` (which may
  raise or address something else, but must leave well-formed trees)."""
  ops = []

  def add(label, body, core=False, ctx='', kw=''):
    ops.append(Op('rebind-deep' + ctx, label, f'r.rebind({{{body}}}{kw})', core))
  V = f'pg.Dict({{{K!r}: pg.Dict({{{N!r}: pg.Dict(m=1)}})}})'
  MV, INS = 'pg.MISSING_VALUE', 'pg.Insertion'
  if shape == 'kd':
    add('one-path', f"{_kp(K, K)}: {V}", True)
    add('one-path', f"{_kp('l', 0, K)}: {V}")
    add('one-path', f"{_kp('l', 1, 'x', K)}: {V}")
    add('one-path', f"{_kp(K, 'e', 0)}: {INS}({V})", True)
    add('one-path/new-key', f"{_kp(K, N)}: {V}", True)
    add('one-path/new-key', f"{_kp('d', N)}: {V}")
    add('one-path/parented', f"{_kp(K, K)}: t", True)
    add('one-path/in-tree', f"{_kp('d', 'm')}: r[{K!r}]")
    add('one-path/delete', f"{_kp(K, K)}: {MV}", True)
    add('several-paths',
        f"{_kp(K, K)}: {V}, {_kp('l', 0, K)}: {V}, {_kp('l', 1, 'x', K)}: t, {_kp('d', N)}: {V}", True)
    add('several-paths/insert-delete',
        f"{_kp('l', 0)}: {INS}({V}), {_kp('l', 2)}: {MV}, {_kp(K, 'e', 0)}: {MV}, {_kp(K, 'e', 1)}: {INS}(s)", True)
    add('several-paths/delete-keys',
        f"{_kp(K, K)}: {MV}, {_kp('l', 0, K)}: {MV}, {_kp('l', 3, 'c')}: {MV}, {_kp('d', 'm')}: {MV}")
    add('several-paths/parent-and-child',
        f"{_kp(K)}: {{{K!r}: {{'n': 2}}}}, {_kp('l', 1, 'x')}: {V}, {_kp('l', 1, 'x', K, N)}: 3")
    add('several-paths', f"{_kp('l', 0)}: {INS}({V}), {_kp(K, 'e', 0)}: {MV}",
        ctx='@skip_notification', kw=', skip_notification=True')
    add('formatted-path', f"str({_kp(K, K)}): {V}", True)
    add('formatted-path', f"str({_kp('l', 0, K)}): {V}")
    add('formatted-path', f"str({_kp(K, 'e', 0)}): {INS}({V})")
    add('formatted-path/new-key', f"str({_kp(K, N)}): {V}")
    add('formatted-path/delete', f"str({_kp(K, K)}): {MV}")
    ops.append(Op('rebind-deep', 'nested-target/list',
                  f"r['l'].rebind({{{_kp(0, K)}: {V}, {_kp(1, 'x', K)}: {V}, {_kp(3)}: {MV}}})", True))
  else:
    add('one-path', f"{_kp('m', K, K)}: {V}", True)
    add('one-path', f"{_kp('n', K, K)}: {V}", True)
    add('one-path', f"{_kp('w', K, K)}: {V}", True)
    add('one-path', f"{_kp('w', K)}: {V}")
    add('one-path', f"{_kp('x', 0, K, 0)}: {INS}({V})")
    add('one-path/new-key', f"{_kp('m', N)}: {V}", True)
    add('one-path/new-key', f"{_kp('n', K, N)}: {V}")
    add('one-path/new-key', f"{_kp('w', N)}: {V}")
    add('one-path/parented', f"{_kp('n', K, K)}: t")
    add('one-path/delete', f"{_kp('w', K)}: {MV}", True)
    add('one-path/delete', f"{_kp('n', K)}: {MV}")
    add('several-paths',
        f"{_kp('m', K, K)}: {V}, {_kp('n', K, N)}: {V}, {_kp('w', K)}: t, {_kp('x', 1, K)}: s", True)
    add('several-paths/insert-delete',
        f"{_kp('x', 0)}: {INS}({V}), {_kp('x', 2)}: {MV}, {_kp('m', 'e', 0)}: {MV}, {_kp('w', 'y', 0)}: {INS}(s)", True)
    add('several-paths/delete-keys',
        f"{_kp('m', K)}: {MV}, {_kp('n', K, K)}: {MV}, {_kp('w', K)}: {MV}")
    add('several-paths', f"{_kp('x', 0)}: {INS}({V}), {_kp('m', 'e', 0)}: {MV}",
        ctx='@skip_notification', kw=', skip_notification=True')
    add('formatted-path', f"str({_kp('m', K, K)}): {V}", True)
    add('formatted-path', f"str({_kp('w', K, K)}): {V}")
    add('formatted-path/new-key', f"str({_kp('n', K, N)}): {V}")
    add('formatted-path/delete', f"str({_kp('w', K)}): {MV}")
    add('typed-reset', f"{_kp('m')}: {MV}, {_kp('x')}: {MV}")
  return ops


def key_alphabet_ops(kind):
  shape, label = kind.split('/', 1)
  _, _, K, N = KEY_CLASS[label]
  values = [(vl, _subst(v, K, N)) for vl, v in KEY_VALUES]
  ops = []

  def E(template):
    return dict(values=values, target=template), _subst(template, K, N)

  def dicts(template, intree, core, keys, **kw):
    extra, D = E(template)
    return dict_ops(D, _subst(intree, K, N), core, keys=keys, nk=N,
                    nk2=(N + N if isinstance(N, str) else N - 7), **extra, **kw)

  def lists(template, intree, core):
    extra, L = E(template)
    return list_ops(L, _subst(intree, K, N), core, **extra)

  def objects(template, intree, core, fields):
    extra, O = E(template)
    return object_ops(O, _subst(intree, K, N), core, fields=fields, **extra)

  if shape == 'kd':
    ops += dicts("r", "r['d']['m']", True, (K, 'l'))
    ops += dicts("r[#K]", "r['d']", True, (K, 'e'))
    ops += dicts("r['l'][0]", "r['d']", False, (K, ''))
    ops += dicts("r['l'][1].x", "r['d']", False, (K, ''))
    ops += dicts("r['d']", "r['l'][0]", False, ('m', ''))
    ops += lists("r['l']", "r['d']", True)
    ops += lists("r[#K]['e']", "r['d']", False)
    ops += objects("r['l'][1]", "r['d']", True, ('x', 'y'))
  else:
    ops += dicts("r.m", "r.w", True, (K, 'e'))
    ops += dicts("r.n", "r.m[#K]", True, (K, 'p'))
    ops += dicts("r.n[#K]", "r.m[#K]", False, (K, ''))
    ops += objects("r.w", "r.m[#K]", True, (K, 'y'))
    ops += dicts("r.x[0]", "r.m[#K]", False, (K, ''))
    ops += objects("r", "r.m[#K]", True, ('m', 'n'))
    ops += lists("r.x", "r.m[#K]", True)
    ops += lists("r.w.y", "r.m[#K]", False)
  ops += key_deep_rebind_ops(shape, K, N)
  return ops


def _plain(ops):
  """Without the variants under a flag / context manager of operations that
  insert a value."""
  return [o for o in ops if o.vclass is None or '@' not in o.group]


_ALPHABETS = {}


def alphabet(kind):
  if kind in _ALPHABETS:
    return _ALPHABETS[kind]
  ops = []
  if kind.startswith('nk/'):
    ops += nk_alphabet_ops(kind)
  elif '/' in kind:
    ops += key_alphabet_ops(kind)
  elif kind == 'mixed':
    ops += list_ops('r.l', 'r.d', True)
    ops += list_ops('r.d.k', 'r.l[0]')
    ops += list_ops('r.l[1].x', 'r.d.m')
    ops += dict_ops('r', 'r.d.m', True, keys=('d', 'l'))
    ops += dict_ops('r.d', 'r.l[0]', True, keys=('m', 'k'))
    ops += dict_ops('r.l[0]', 'r.d', False, keys=('x', ''))
    ops += object_ops('r.l[1]', 'r.d', True)
  elif kind == 'objtree':
    ops += object_ops('r', 'r.x.p', True)
    ops += object_ops('r.y[2]', 'r.x.p', True)
    ops += dict_ops('r.x', 'r.y[0]', True, keys=('p', 'q'))
    ops += list_ops('r.y', 'r.x.p', True)
  elif kind == 'rootlist':
    ops += list_ops('r', 'r[1][0]', True)
    ops += list_ops('r[1]', 'r[0]', True)
    ops += dict_ops('r[0]', 'r[1]', True, keys=('x', ''))
    ops += object_ops('r[2]', 'r[0]', True)
  elif kind == 'typed':
    ops += list_ops('r.l', 'r.d.n', True)
    ops += list_ops('r.d.k', 'r.d.n', True)
    ops += dict_ops('r.d', 'r.a.x', True, keys=('n', 'k'))
    ops += dict_ops('r.d.n', 'r.a.x', True, keys=('m', ''))
    ops += dict_ops('r.l[0]', 'r.a.x', True, keys=('v', ''))
    ops += object_ops('r', 'r.d.n', True, fields=('a', 'd'))
    ops += object_ops('r.a', 'r.d.n', True)
    # the typed list wants dict elements with key 'v'
    for vl, v in _vals('r.d.n'):
      w = "{'v': %s}" % v
      c = vl in CORE_VALUES
      ops.append(Op('list.append', f'typed/{vl}', f'r.l.append({w})', c))
      ops.append(Op('list.insert', f'typed/{vl}', f'r.l.insert(0, {w})', c))
      ops.append(Op('list.setitem', f'typed/{vl}', f'r.l[0] = {w}'))
      ops.append(Op('list.rebind-insert', f'typed/{vl}', f'r.l.rebind({{0: pg.Insertion({w})}})'))
      ops.append(Op('list.setitem-slice', f'typed/{vl}', f'r.l[0:1] = [{w}, {w}]'))
      ops.append(Op('list.iadd', f'typed/{vl}', f'r.l += [{w}]'))
      ops.append(Op('object.setattr', f'typed-list/{vl}', f'r.l = [{w}, {w}]', vl == 'fresh'))
      ops.append(Op('object.setattr', f'typed-dict/{vl}', f"r.d = {{'n': {{'m': {v}}}, 'k': [{v}]}}", vl == 'fresh'))
    ops.append(Op('list.insert', 'typed/element-with-parent', 'r.l.insert(0, r.l[1])', True))
    ops.append(Op('dict.setattr', 'typed/in-tree-list', 'r.d.k = r.l'))
    ops.append(Op('object.setattr', 'typed/parented-list', 'r.l = ext.j'))
  elif kind == 'twins':
    few = _pick('fresh', 'raw', 'detached', 'equal-to-stored')
    ops += list_ops('r.l', 'r.d.m', True)
    ops += list_ops('r.p', 'r.d.m', True, values=few)
    ops += dict_ops('r.d', 'r.l[0]', True, keys=('m', 'k'))
    ops += object_ops('r.o', 'r.d.m', True)
  elif kind == 'strict':
    some = _pick('fresh', 'raw', 'parented-in-tree', 'detached', 'equal-to-stored')
    few = _pick('fresh', 'detached', 'equal-to-stored')
    ops += dict_ops('r.g.q', 'r.cd.a', True, keys=('opt', 'sub'), values=some,
                    wrap='A(x=%s)', bad=('5', "{'steps': 5}"))
    ops += list_ops('r.g.l', 'r.cd.a', True, values=some, wrap="{'v': %s}",
                    bad=('5', "{'w': 1}", 'A(x=1)'))
    ops += object_ops('r.g', 'r.cd.a', False, fields=('o', 'q'), values=few,
                      wrap='R(u=1, x=%s)',
                      bad=("{'opt': 5}",
                           "{'opt': A(x=pg.Dict(m=1)), 'sub': {'steps': 5}}"))
    ops += object_ops('r.g.o', 'r.cd.a', True, fields=('x', 'u'), values=some,
                      bad=('-1', "'a string'"))
    ops += [o for o in dict_ops('r.g.l[0]', 'r.cd.a', False, keys=('v', ''),
                                values=few) if o.vclass in (None, 'fresh')]
    ops += list_ops('r.cl', 'r.g.q.sub', True, values=few)
    ops += _plain(dict_ops('r.cd', 'r.g.q.sub', False, keys=('a', 'b'), values=few))
  if '/' not in kind:
    ops += deep_rebind_ops(kind)
  ops += whole_tree_ops()
  if kind in EXTRA_KINDS:
    for op in ops:
      op.core = op.core or op.xcore
  seen, out, count = set(), [], {}
  for op in ops:
    if op.tid is None:
      n = count[(op.group, op.label)] = count.get((op.group, op.label), 0) + 1
      op.tid = ('', op.group, op.label, n)
  _ALPHABETS[('tid', kind)] = {op.tid: op for op in ops}
  for op in ops:
    if op.src not in seen:
      seen.add(op.src)
      out.append(op)
  _ALPHABETS[kind] = out
  return out


def control_history(kind, hist):
  """The same history over the control key class (identifier-like keys), or
  None if one of its operations has no counterpart there."""
  ckind = kind.split('/', 1)[0] + '/plain'
  if ckind == kind:
    return None
  alphabet(ckind)
  by_tid = _ALPHABETS[('tid', ckind)]
  out = [by_tid.get(o.tid) for o in hist]
  return None if any(o is None for o in out) else out


# --------------------------------------------------------------------------
# The oracle.
# --------------------------------------------------------------------------

Symbolic = pg.Symbolic
KeyPath = pg.KeyPath
_EMPTY = KeyPath()


def _nav(root_name, keys):
  return root_name + ''.join(f'.sym_getattr({k!r})' for k in keys)


def collect(root, name, nodes):
  """Adds {id: (node, root name, keys)} for all nodes of the tree (storage walk)."""
  if id(root) in nodes:
    return
  nodes[id(root)] = (root, name, ())
  stack = [((), root)]
  while stack:
    keys, node = stack.pop()
    try:
      items = list(node.sym_items())
    except Exception:  # pylint: disable=broad-except
      continue
    for k, v in items:
      if isinstance(v, Symbolic) and id(v) not in nodes:
        nodes[id(v)] = (v, name, keys + (k,))
        stack.append((keys + (k,), v))


def check_tree(root, name, nodes=None):
  """Well-formedness of one tree.

  Returns a list of violations (kind, ident, message, assert_src) and adds the
  nodes of the tree to `nodes` ({id: (node, root name, keys)}).
  """
  out = []
  if nodes is None:
    nodes = {}
  local = {id(root): ()}
  nodes.setdefault(id(root), (root, name, ()))
  if root.sym_parent is not None:
    out.append(('root-has-parent', (id(root), 'rp'),
                f'{name}.sym_parent is not None',
                f'assert {name}.sym_parent is None'))
  if list(root.sym_path.keys):
    out.append(('root-path-not-empty', (id(root), 'rpath'),
                f'{name}.sym_path has keys {list(root.sym_path.keys)!r} although {name}.sym_parent is None',
                f'assert {name}.sym_path.keys == [], {name}.sym_path.keys'))
  parents_ok = not out
  stack = [((), root)]
  while stack:
    keys, container = stack.pop()
    try:
      items = list(container.sym_items())
    except Exception as e:  # pylint: disable=broad-except
      out.append(('lookup-misses-node', (id(container), 'items'),
                  f'{_nav(name, keys)}.sym_items() raised {type(e).__name__}: {e}',
                  f'list({_nav(name, keys)}.sym_items())'))
      continue
    for k, v in items:
      if not isinstance(v, Symbolic):
        continue
      ck = keys + (k,)
      if id(v) in local:
        nav = _nav(name, ck)
        other = _nav(name, local[id(v)])
        out.append(('node-in-two-places', (id(v), 'dup', ck),
                    f'the same node object is stored at {other} and at {nav}',
                    f'assert {nav} is not {other}, "one node object stored in two places"'))
        parents_ok = False
        continue
      local[id(v)] = ck
      nodes.setdefault(id(v), (v, name, ck))
      stack.append((ck, v))
      p = v.sym_parent
      if p is not container:
        nav, pnav = _nav(name, ck), _nav(name, keys)
        kind = 'child-has-no-parent' if p is None else 'child-has-wrong-parent'
        pdesc = 'None' if p is None else f'a {type(p).__name__} at path {str(p.sym_path)!r}'
        out.append((kind, (id(v), 'parent'),
                    f'{nav}.sym_parent is {pdesc}, expected the container {pnav}',
                    f'assert {nav}.sym_parent is {pnav}, {nav}.sym_parent'))
        parents_ok = False
      want = KeyPath(list(ck))
      try:
        got_keys = list(v.sym_path.keys)
      except Exception as e:  # pylint: disable=broad-except
        got_keys = f'<{type(e).__name__}: {e}>'
      if got_keys != list(ck):
        nav = _nav(name, ck)
        out.append(('stale-path', (id(v), 'path'),
                    f'{nav}.sym_path has keys {got_keys!r} but the node is stored under keys {list(ck)!r}',
                    f'assert {nav}.sym_path.keys == {list(ck)!r}, {nav}.sym_path.keys'))
      try:
        got = root.sym_get(want)
        why = None if got is v else 'returned another object'
      except Exception as e:  # pylint: disable=broad-except
        why = f'raised {type(e).__name__}: {e}'
      if why is not None:
        nav = _nav(name, ck)
        out.append(('lookup-misses-node', (id(v), 'lookup'),
                    f'{name}.sym_get(pg.KeyPath({list(ck)!r})) {why}',
                    f'assert {name}.sym_get(pg.KeyPath({list(ck)!r})) is {nav}'))
  if parents_ok:
    for i, ck in local.items():
      v = nodes[i][0]
      try:
        sr = v.sym_root
      except Exception:  # pylint: disable=broad-except
        sr = None
      if sr is not root:
        nav = _nav(name, ck)
        out.append(('sym_root-wrong', (i, 'root'),
                    f'{nav}.sym_root is not {name}',
                    f'assert {nav}.sym_root is {name}'))
        break
  return out


_PRIORITY = ['node-in-two-places', 'child-has-wrong-parent',
             'child-has-no-parent', 'stale-path', 'lookup-misses-node',
             'sym_root-wrong', 'root-has-parent', 'root-path-not-empty']


def _tname(node):
  if isinstance(node, pg.List):
    return 'list'
  if isinstance(node, pg.Dict):
    return 'dict'
  return 'object'


def _parents(nodes):
  """{id(child): id(container)} from the storage positions."""
  at = {(rn, keys): i for i, (_, rn, keys) in nodes.items()}
  return {i: at[(rn, keys[:-1])] for i, (_, rn, keys) in nodes.items()
          if keys and (rn, keys[:-1]) in at}


def wellformed(root, name='root'):
  """Convenience for other drivers: list of (kind, message, assert_src)."""
  return [(k, m, a) for k, _, m, a in check_tree(root, name)]


class _Hang(BaseException):
  pass


class _Watchdog:
  """SIGALRM based guard against non-terminating calls (main thread only)."""

  def __init__(self, seconds):
    self.seconds = seconds
    self.active = (threading.current_thread() is threading.main_thread()
                   and hasattr(signal, 'setitimer'))
    self.old = None

  def __enter__(self):
    if self.active:
      def _raise(*_):
        raise _Hang()
      self.old = signal.signal(signal.SIGALRM, _raise)
    return self

  def arm(self):
    if self.active:
      signal.setitimer(signal.ITIMER_REAL, self.seconds)

  def disarm(self):
    if self.active:
      signal.setitimer(signal.ITIMER_REAL, 0)

  def __exit__(self, *a):
    if self.active:
      signal.setitimer(signal.ITIMER_REAL, 0)
      signal.signal(signal.SIGALRM, self.old)
    return False


_ENV_BASE = {'pg': pg, 'A': A, 'B': B, 'C': C, 'W': W, 'R': R, 'S': S,
             '_boom': _boom, 'copy': copy,
             '__name__': 'c01_history'}
sys.modules.setdefault('c01_history', types.ModuleType('c01_history'))
_SETUP_CODE = {k: compile(v, f'<tree {k}>', 'exec') for k, v in TREES.items()}
# The first statement of a tree builds `r`, the others build `ext`, `t`, `s`
# (independent of `r`): a history that mentions none of them runs without.
_SETUP_ROOT_ONLY = {k: compile(v.split('\n', 1)[0], f'<tree {k}>', 'exec')
                    for k, v in TREES.items()}
_USES_EXT = re.compile(r'\b(ext|t|s)\b')


def _setup(kind, ops):
  if any(_USES_EXT.search(o.src) for o in ops):
    return _SETUP_CODE[kind]
  return _SETUP_ROOT_ONLY[kind]
ROOT_NAMES = ('r', 'r0', 'ext')


def _roots(env):
  out = []
  named = [env.get(n) for n in ROOT_NAMES]
  for n in ROOT_NAMES:
    v = env.get(n)
    if isinstance(v, Symbolic) and all(v is not o for _, o in out):
      if n != 'r' and v.sym_parent is not None:
        # A history may legitimately move a whole other tree into the tree
        # under test: reading a list element that is a pg.Ref gives the
        # referenced value, and writing that value back (`l[0] = l[0]`,
        # `l[:] = list(l)`, `l.insert(0, l[1])`) stores the referenced root
        # itself, which the container adopts.  It is then a subtree of the
        # adopting tree and is checked there, not as a root of its own.
        top, seen = v, set()
        while top.sym_parent is not None and id(top) not in seen:
          seen.add(id(top))
          top = top.sym_parent
        if any(top is o for o in named if o is not v):
          continue
      out.append((n, v))
  return out


def _snapshot(env, full=True):
  nodes, vio = {}, {}
  for n, root in _roots(env):
    if full:
      for x in check_tree(root, n, nodes):
        vio[x[1]] = x
    else:
      collect(root, n, nodes)
  return nodes, vio


_INITIAL_VIO = {}


def _initial_violations(kind, setup):
  """[(root name, keys of the node, rest of the violation's ident)] of the
  tree as constructed (normally empty)."""
  k = (kind, setup is _SETUP_CODE[kind])
  if k not in _INITIAL_VIO:
    env = dict(_ENV_BASE)
    out = []
    try:
      exec(setup, env)  # pylint: disable=exec-used
      nodes, vio = _snapshot(env)
      for ident in vio:
        if ident[0] in nodes:
          _, rname, keys = nodes[ident[0]]
          out.append((rname, keys, tuple(ident[1:])))
    except Exception:  # pylint: disable=broad-except
      pass
    _INITIAL_VIO[k] = out
  return _INITIAL_VIO[k]


class Step:
  __slots__ = ('op', 'tree', 'removed', 'raised', 'checked')

  def __init__(self, op, tree, removed, raised, checked=True):
    self.op = op
    self.tree = tree        # (kind, message, tail) or None -- breaks the tree
    self.removed = removed  # list of (kind, message, tail, pre)
    self.raised = raised
    self.checked = checked

  @property
  def bad(self):
    return self.tree is not None or bool(self.removed)


def run_history(kind, ops, wd=None, trusted=0):
  """Runs a history; returns the list of Steps (stops after a tree break).

  The first `trusted` steps are known to be clean (same prefix was checked
  before): only the node inventory is taken after them.
  """
  env = dict(_ENV_BASE)
  setup = _setup(kind, ops)
  exec(setup, env)  # pylint: disable=exec-used
  before_nodes, before_vio = _snapshot(env, full=False)
  # Violations of the freshly constructed tree (reported as construction/...)
  # are not attributed to the operations.
  at = None
  for rname, keys, tag in _initial_violations(kind, setup):
    if at is None:
      at = {(rn, ks): i for i, (_, rn, ks) in before_nodes.items()}
    if (rname, keys) in at:
      before_vio[(at[(rname, keys)],) + tag] = None
  steps = []
  for idx, op in enumerate(ops):
    raised = None
    if wd is not None:
      wd.arm()
    try:
      exec(op.code, env)  # pylint: disable=exec-used
    except _Hang:
      steps.append(Step(op, ('non-terminating',
                             'the call did not return within the time limit',
                             'raise AssertionError("did not terminate")'),
                        [], None))
      return steps
    except Exception as e:  # pylint: disable=broad-except
      raised = e
    finally:
      if wd is not None:
        wd.disarm()
    if idx < trusted:
      before_nodes, before_vio = _snapshot(env, full=False)
      steps.append(Step(op, None, [], raised, False))
      continue
    if wd is not None:
      wd.arm()
    try:
      after_nodes, after_vio = _snapshot(env)
    except _Hang:
      steps.append(Step(op, ('non-terminating-walk',
                             'walking the tree did not terminate',
                             'raise AssertionError("tree walk did not terminate")'),
                        [], raised))
      return steps
    finally:
      if wd is not None:
        wd.disarm()
    tree = None
    new = [x for key, x in after_vio.items() if key not in before_vio]
    if new:
      new.sort(key=lambda x: _PRIORITY.index(x[0]))
      tree = (new[0][0], new[0][2], new[0][3])
    removed = []
    kinds = set()
    before_parent = None
    for i, (node, rname, keys) in before_nodes.items():
      if i in after_nodes:
        continue
      p = node.sym_parent
      if p is not None and id(p) in after_nodes:
        if 'removed-node-keeps-parent' in kinds:
          continue
        kinds.add('removed-node-keeps-parent')
        _, prn, pkeys = after_nodes[id(p)]
        removed.append((
            'removed-node-keeps-parent',
            f'the node formerly at {_nav(rname, keys)} is no longer stored in the tree but its '
            f'sym_parent is still the tree node {_nav(prn, pkeys)}',
            f'assert _x.sym_parent is not {_nav(prn, pkeys)}, "removed node still reports a tree node as its parent"',
            f'_x = {_nav(rname, keys)}', _tname(p)))
      elif p is None and 'detached-node-stale-path' not in kinds:
        v = [x for x in check_tree(node, '_x')
             if x[0] in ('root-path-not-empty', 'stale-path')]
        if v:
          if before_parent is None:
            before_parent = _parents(before_nodes)
          kinds.add('detached-node-stale-path')
          removed.append(('detached-node-stale-path',
                          f'the node formerly at {_nav(rname, keys)} was detached (sym_parent None) but '
                          + v[0][2],
                          v[0][3], f'_x = {_nav(rname, keys)}',
                          _tname(before_nodes[before_parent[i]][0]) if i in before_parent else 'root'))
    steps.append(Step(op, tree, removed, raised))
    if tree is not None:
      break
    before_nodes, before_vio = after_nodes, after_vio
  return steps


def witness_for(kind, ops, steps, upto, tail, pre):
  body = [TREES[kind]]
  for i, op in enumerate(ops[:upto + 1]):
    if i == upto and pre:
      body.append(pre + '\n')
    if steps[i].raised is not None:
      body.append('try:\n' + textwrap.indent(op.src, '  ')
                  + f'\nexcept {type(steps[i].raised).__name__}: pass\n')
    else:
      body.append(op.src + '\n')
  body.append(tail + '\n')
  body = ''.join(body)
  return HEAD + _classes_for(body, kind) + body


def _classes_for(body, kind):
  w = ''
  if kind.startswith('ko/'):
    return CLASS_W + CLASS_C + (CLASS_A if 'A(' in body else '')
  strict = re.search(r'\b[RS]\(', body) is not None
  if 'A(' in body or 'B(' in body or strict:
    w += CLASS_A
  if 'B(' in body:
    w += CLASS_B
  if strict:
    w += CLASS_R + CLASS_S
  if '_boom' in body:
    w += CLASS_BOOM
  if re.search(r'\bF\(', body):
    w += CLASS_F
  return w


def _base(group):
  return group.split('@')[0]


def _case_id(step, vkind, former=None, keyfam=None):
  cid = _case_id0(step, vkind, former)
  if keyfam:
    head, tail = cid.rsplit('/', 1)
    cid = f'{head}[{keyfam}]/{tail}'
  return cid


def _case_id0(step, vkind, former=None):
  """<container>.<operation>[@context][!raised]/<violation kind>.

  * a detached node with a stale path is attributed to the type of the
    container that dropped it (`list.replace/...`), whatever the entry point;
  * for a removed node that keeps its parent, and for violations left behind
    by a call that raised, the context suffix is dropped;
  * `[key:<family>]` is added in front of the violation kind when the history
    runs over a tree of a key class and the same history over identifier-like
    keys does not show the same violation (so the keys are what matters).
  """
  g = step.op.group
  if vkind == 'detached-node-stale-path':
    return f'{former}.replace-or-delete/{vkind}'
  if vkind == 'removed-node-keeps-parent':
    return f'{_base(g)}/{vkind}'
  if step.raised is not None:
    return f'{_base(g)}!raised/{vkind}'
  return f'{g}/{vkind}'


def _control_kinds(kind, ops, upto, wd=None):
  """Violation kinds the control history shows at step `upto` (key trees)."""
  ch = control_history(kind, ops[:upto + 1])
  if ch is None and kind.startswith('nk/'):
    # An earlier step works on a container inside a special node (no
    # counterpart on the control tree): the failing step alone decides.
    ch = control_history(kind, ops[upto:upto + 1])
  if ch is None:
    return set()
  st = run_history(kind.split('/', 1)[0] + '/plain', ch, wd)
  if len(st) != len(ch):
    return set()
  last = st[-1]
  return ({last.tree[0]} if last.tree else set()) | {v[0] for v in last.removed}


def record_history(rec, kind, ops, steps, start=0, wd=None):
  """Records the outcome of steps[start:]."""
  fam = key_family(kind)
  for idx in range(start, len(steps)):
    st = steps[idx]
    if not st.checked:
      continue
    key = (kind,) + tuple(o.src for o in ops[:idx + 1])
    if not st.bad:
      rec.case(st.op.group, key, True)
      continue
    found = []
    if st.tree is not None:
      found.append(st.tree + (None, None))
    found.extend(st.removed)
    plain = _control_kinds(kind, ops, idx, wd) if fam else set()
    for vk, msg, tail, pre, former in found:
      rec.case(_case_id(st, vk, former, None if vk in plain else fam), key, False,
               message=f'[tree {kind}] after `{st.op.src}`'
               + (f' (which raised {type(st.raised).__name__})' if st.raised is not None else '')
               + f': {msg}',
               witness=witness_for(kind, ops, steps, idx, tail, pre))


# --------------------------------------------------------------------------
# Drivers.
# --------------------------------------------------------------------------

def _initial_trees(rec, kinds=BASE_KINDS):
  """Checks the freshly constructed trees; returns the kinds that can be used."""
  usable = []
  for kind in kinds:
    w = HEAD + _classes_for(TREES[kind], kind) + TREES[kind]
    fam = key_family(kind)
    sfx = f'[{fam}]' if fam else ''
    env = dict(_ENV_BASE)
    try:
      exec(_SETUP_CODE[kind], env)  # pylint: disable=exec-used
    except Exception as e:  # pylint: disable=broad-except
      rec.case(f'construction{sfx}/raises', (kind,), False,
               f'building tree {kind} raised {type(e).__name__}: {e}', w)
      continue
    usable.append(kind)
    for n, root in _roots(env):
      v = check_tree(root, n)
      rec.case('construction' + (f'{sfx}/{v[0][0]}' if v else ''), (kind, n), not v,
               message=f'[tree {kind}] ' + v[0][2] if v else '',
               witness=w + (v[0][3] if v else ''))
  return usable


_SINGLE = {}


def _single(kind, op, wd):
  """Cached: does `op` alone break the initial tree of `kind`?"""
  k = (kind, op.src)
  if k not in _SINGLE:
    _SINGLE[k] = run_history(kind, [op], wd)[-1].tree is not None
  return _SINGLE[k]


def _enumerate(rec, kind, firsts, seconds, thirds=None, wd=None,
               record_first=True):
  """All histories a / a,b / a,b,c.  `seconds`/`thirds` may be callables
  taking the index of the first operation."""
  for ia, a in enumerate(firsts):
    if record_first or (kind, a.src) not in _SINGLE:
      steps = run_history(kind, [a], wd)
      _SINGLE[(kind, a.src)] = steps[-1].tree is not None
      if record_first:
        record_history(rec, kind, [a], steps, wd=wd)
    if _SINGLE[(kind, a.src)]:
      continue
    for b in (seconds(ia) if callable(seconds) else seconds):
      h = [a, b]
      steps = run_history(kind, h, wd, trusted=1)
      record_history(rec, kind, h, steps, 1, wd=wd)
      if thirds is None or len(steps) < 2 or steps[-1].tree is not None:
        continue
      for c in thirds:
        h = [a, b, c]
        steps = run_history(kind, h, wd, trusted=2)
        record_history(rec, kind, h, steps, 2, wd=wd)


def drv_histories_exhaustive(tier, seed):
  """Exhaustive short histories over the full operation alphabet."""
  quick = tier == 'quick'
  sizes = '/'.join(f'{k}:{len(alphabet(k))}' for k in BASE_KINDS)
  cores = '/'.join(str(sum(o.core for o in alphabet(k))) for k in BASE_KINDS)
  rec = Recorder(
      'C01', 'tree well-formedness after every step of short histories',
      scope=('6 trees (mixed Dict/List/Object, Object root, List root, typed '
             'Object with value specs; twins: sibling nodes that are equal by '
             'value but distinct objects, in palindromic lists / dicts / objects; '
             'strict: containers that refuse operations before, midway or after '
             'the mutation -- required fields without default, list size bounds, '
             'element types, validation in _on_bound, raising onchange '
             'callbacks); alphabet = every list/dict/object '
             'mutator (incl. position-driven and failing sorts, batches with a '
             'refused element, refusing use_value_spec) x 10 value classes '
             '(incl. a distinct node equal by value to the stored one; 3..5 of '
             'them on the secondary containers of twins/strict) x every '
             'container of the tree '
             f'({sizes} statements, of which core: {cores}); all histories of '
             'length 1; length 2: '
             + ('core x core restricted to pairs with (j - i) % 12 == seed % 12 '
                '(twins: % 24, strict: % 36)'
                if quick else
                'core x core, non-core x core[seed%16::16] and the converse; '
                'length 3: core[seed%8::8]^3 (twins/strict: core x core with '
                '(j - i) % 4 == seed % 4; length 3: core[seed%16::16]^3)')))
  with _Watchdog(10) as wd:
    for kind in _initial_trees(rec):
      ops = alphabet(kind)
      core = [o for o in ops if o.core]
      if quick:
        m = {'twins': 24, 'strict': 36}.get(kind, 12)
        _enumerate(rec, kind, ops, [], wd=wd)
        _enumerate(rec, kind, core,
                   lambda i: core[(i + seed) % m::m],  # pylint: disable=cell-var-from-loop
                   wd=wd, record_first=False)
      elif kind in EXTRA_KINDS:
        _enumerate(rec, kind, ops, [], wd=wd)
        _enumerate(rec, kind, core,
                   lambda i: core[(i + seed) % 4::4],  # pylint: disable=cell-var-from-loop
                   wd=wd, record_first=False)
        small = core[(seed % 16)::16]
        _enumerate(rec, kind, small, small, small, wd=wd, record_first=False)
      else:
        _enumerate(rec, kind, ops, [], wd=wd)
        _enumerate(rec, kind, core, core, wd=wd, record_first=False)
        noncore = [o for o in ops if not o.core]
        _enumerate(rec, kind, noncore, core[(seed % 16)::16], wd=wd,
                   record_first=False)
        _enumerate(rec, kind, core[(seed % 16)::16], noncore, wd=wd,
                   record_first=False)
        small = core[(seed % 8)::8]
        _enumerate(rec, kind, small, small, small, wd=wd, record_first=False)
  return rec.result()


def _quick_key_ops(kind, seed):
  """Quick tier: the core operations on every key class (dealt out within
  the group for plain text keys); the other operations without a context
  manager / flag and with a fresh value (also one built with a root_path of
  its own), a raw value or no value are dealt out
  round-robin to the classes of a group (KEY_GROUPS), so that each runs on at
  least one class of every group (not for the control class)."""
  label = kind.split('/', 1)[1]
  group, core_all, rest = next(g for g in KEY_GROUPS if label in g[0])
  me, n = group.index(label), len(group)
  out = []
  for i, o in enumerate(alphabet(kind)):
    mine = (i + seed) % n == me
    if o.core:
      if core_all or mine:
        out.append(o)
    elif (rest and mine and o.vclass in (None, 'fresh', 'raw', 'fresh-with-root_path')
          and (o.vclass is None or '@' not in o.group)):
      out.append(o)
  return out


def drv_key_classes(tier, seed):
  """The operation alphabet over trees whose keys are not identifier-like."""
  quick = tier == 'quick'
  nk = len(KEY_CLASSES)
  rec = Recorder(
      'C01', 'tree well-formedness when keys contain path syntax, look like '
      'indices, are empty, are ints, ...',
      scope=(f'{nk} key classes (control: identifier-like; path syntax: dots, '
             'brackets, both; digit strings; empty string; blanks, quotes, '
             'backslash/newline, non-ascii; names of members of pg.Dict; ints) '
             'x 2 trees (untyped Dict/List/Object tree; Object with StrKey dict '
             'fields and an Object that takes arbitrary attribute names -- str '
             'keys only): such keys at every level of the constructed tree and in '
             'the inserted values (10 value classes incl. a value built with its '
             'own root_path); alphabet = every list/dict/object mutator on 8 '
             'containers per tree, rebind with KeyPath keys, with plain-string '
             'and with formatted-path keys, clone/copy/JSON round trips; '
             + ('histories of length 1: all core operations for every class '
                '(dealt out among the 5 plain-text classes), the others '
                '(fresh/fresh with root_path/raw/no value, no flags) dealt out round-robin '
                'within 5 groups of classes'
                if quick else
                'all histories of length 1; length 2: core x core[seed%16::16]')
             + '; a violation that the same history shows with identifier-like '
               'keys is recorded under the id without [key:...]'))
  with _Watchdog(10) as wd:
    for kind in _initial_trees(rec, KEY_KINDS):
      if quick:
        for o in _quick_key_ops(kind, seed):
          steps = run_history(kind, [o], wd)
          record_history(rec, kind, [o], steps, wd=wd)
      else:
        ops = alphabet(kind)
        core = [o for o in ops if o.core]
        _enumerate(rec, kind, ops, [], wd=wd)
        _enumerate(rec, kind, core, core[(seed % 16)::16], wd=wd,
                   record_first=False)
  return rec.result()


def _quick_nk_ops(kind, seed):
  """Quick tier: every core operation; the operations without a value (all
  removals, reorderings, refusals) in full on nk/inferential, every other one
  on nk/hyper; of the others those without flag / context manager, one in 3
  (nk/hyper: one in 12, every third operation without a value) in turn."""
  hyper = kind == 'nk/hyper'
  out = []
  for i, o in enumerate(alphabet(kind)):
    if o.core:
      out.append(o)
    elif o.vclass is None:
      if not hyper or (i + seed) % 3 == 0:
        out.append(o)
    elif '@' not in o.group and (i + seed) % (12 if hyper else 3) == 0:
      out.append(o)
  return out


def drv_node_kinds(tier, seed):
  """The operation alphabet over trees that hold inferential nodes (pg.Ref,
  ValueFromParentChain) and pyglove's own hook-overriding pg.Object subclasses
  (hyper primitives, functor objects, DNA, DNASpec)."""
  quick = tier == 'quick'
  sizes = '/'.join(f'{k}:{len(alphabet(k))}' for k in NK_KINDS)
  rec = Recorder(
      'C01', 'tree well-formedness when the tree holds inferential nodes and '
      'hook-overriding pg.Object subclasses',
      scope=('2 trees (+ a control tree of the same shape with plain nodes): '
             'nk/inferential stores pg.Ref nodes (targets: child / list element / '
             'List / object member / root of another tree, parentless node, raw '
             'list) and ValueFromParentChain nodes (resolving to a node of the same '
             'tree, to the target of a Ref, to nothing) in lists, dicts and objects; '
             'nk/hyper stores pg.oneof (symbolic / numeric / nested candidates), '
             'pg.manyof, pg.permutate, pg.floatv, a functor object, pg.DNA and a '
             'geno DNASpec; alphabet = every list / dict / object mutator on 9 '
             'containers of the tree (nk/hyper: and on 6 containers inside the '
             'special nodes) x 15 value classes (4 plain + 11 of the kind: fresh, '
             'parented, targets of every kind, inside objects / raw containers; 5 on '
             'the secondary containers), deep rebinds that replace / insert / delete '
             'special nodes, moves of the stored form, clone / copy / JSON round trips '
             f'({sizes} statements); '
             + ('histories of length 1: all core operations, the operations without '
                'a value (nk/hyper: every third), one in 3 (nk/hyper: 12) of the rest '
                'without flags; length 2: every core operation (nk/hyper: every other one) followed by one core operation chosen by the seed'
                if quick else
                'all histories of length 1; length 2: core x core[seed%8::8]')
             + '; a violation that the same history shows on the control tree is '
               'recorded under the id without [nodes:...]'))
  with _Watchdog(10) as wd:
    for kind in _initial_trees(rec, ['nk/plain'] + NK_KINDS):
      if kind == 'nk/plain':
        continue
      ops = alphabet(kind)
      core = [o for o in ops if o.core]
      if quick:
        m = 2 * len(core) if kind == 'nk/hyper' else len(core)
        _enumerate(rec, kind, _quick_nk_ops(kind, seed), [], wd=wd)
        _enumerate(rec, kind, core, lambda i: core[(i * 7 + seed) % m::m], wd=wd,  # pylint: disable=cell-var-from-loop
                   record_first=False)
      else:
        _enumerate(rec, kind, ops, [], wd=wd)
        _enumerate(rec, kind, core, core[(seed % 8)::8], wd=wd, record_first=False)
  return rec.result()


def _sig(steps):
  s = steps[-1]
  return (s.op.src, s.tree[0] if s.tree else None,
          tuple(sorted(v[0] for v in s.removed)))


def _shrink(kind, hist, steps, wd):
  """Greedy removal of steps that are not needed for the first violation."""
  first = next(i for i, s in enumerate(steps) if s.bad)
  hist = hist[:first + 1]
  steps = steps[:first + 1]
  want = _sig(steps)
  i = 0
  while i < len(hist) - 1:
    cand = hist[:i] + hist[i + 1:]
    st = run_history(kind, cand, wd)
    if (len(st) == len(cand) and st[-1].bad and _sig(st) == want
        and not any(s.bad for s in st[:-1])):
      hist, steps = cand, st
    else:
      i += 1
  return hist, steps


def drv_histories_random(tier, seed):
  """Seeded random longer histories (length 3..7), checked after every step."""
  quick = tier == 'quick'
  n = 180 if quick else 4000
  nx = 60 if quick else 2000      # trees twins / strict
  nkey = 8 if quick else 150
  nnk = 25 if quick else 1000     # trees nk/inferential, nk/hyper
  rec = Recorder(
      'C01', 'tree well-formedness after every step of random histories',
      scope=f'{n} seeded histories per tree (4 trees), {nx} per tree twins / '
            f'strict (see drv_histories_exhaustive) and {nkey} per key-class '
            f'tree ({len(KEY_KINDS)} trees, see drv_key_classes), {nnk} per node-kind tree (see drv_node_kinds), of length 3..7 '
            'over the full alphabet; on the 6 trees a statement that breaks the '
            'tree as a single step on the running code is kept with probability '
            '5% only, so that histories get long; failing histories are shrunk greedily')
  with _Watchdog(10) as wd:
    for kind in _initial_trees(Recorder('C01', '', ''), BASE_KINDS + tuple(KEY_KINDS) + tuple(NK_KINDS)):
      ops = alphabet(kind)
      r = rng(seed, 'c01-random-' + kind)
      for _ in range(nnk if kind in NK_KINDS else nkey if '/' in kind
                     else nx if kind in EXTRA_KINDS else n):
        k = r.randint(3, 7)
        hist = []
        while len(hist) < k:
          o = r.choice(ops)
          if '/' not in kind and _single(kind, o, wd) and r.random() > 0.05:
            continue
          hist.append(o)
        steps = run_history(kind, hist, wd)
        if any(s.bad for s in steps):
          hist, steps = _shrink(kind, hist, steps, wd)
        record_history(rec, kind, hist, steps, wd=wd)
  return rec.result()


_SELF_INSERTION_CASES = [
    ('dict.setattr/self', "d = pg.Dict()\nroot = d", "d.a = d"),
    ('dict.setitem/ancestor-below-descendant',
     "d = pg.Dict(a=pg.Dict(b=pg.Dict()))\nroot = d", "d.a.b['c'] = d"),
    ('dict.update/self', "d = pg.Dict(a=1)\nroot = d", "d.update({'b': d})"),
    ('dict.rebind/ancestor-below-descendant',
     "d = pg.Dict(a=pg.Dict(b=1))\nroot = d", "d.rebind({'a.b': d})"),
    ('list.append/self', "l = pg.List([1])\nroot = l", "l.append(l)"),
    ('list.setitem/ancestor-below-descendant',
     "l = pg.List([pg.Dict(x=pg.List([0]))])\nroot = l", "l[0].x[0] = l"),
    ('list.insert/ancestor-below-descendant',
     "l = pg.List([pg.Dict(x=pg.List([0]))])\nroot = l", "l[0].x.insert(0, l)"),
    ('object.setattr/self', "o = A(x=1)\nroot = o", "o.x = o"),
    ('object.rebind/ancestor-below-descendant',
     "o = A(x=pg.Dict(y=1))\nroot = o", "o.rebind({'x.y': o})"),
]

_SELF_CHECK = '''\
import signal
class _Hang(BaseException): pass
def _h(*a): raise _Hang()
# CPU time of this process (a busy machine must not look like a hang), with a
# generous wall-clock limit behind it; both are disarmed before exiting.
signal.signal(signal.SIGPROF, _h)
signal.signal(signal.SIGALRM, _h)
signal.setitimer(signal.ITIMER_PROF, %(limit)s)
signal.setitimer(signal.ITIMER_REAL, 20 * %(limit)s)
try:
  try:
%(stmt)s
  except Exception: pass
  seen, todo = {id(root)}, [root]
  assert root.sym_parent is None, 'the root got a parent: parent cycle'
  while todo:
    n = todo.pop()
    for k, v in n.sym_items():
      if isinstance(v, pg.Symbolic):
        assert id(v) not in seen, 'a node is stored below itself'
        assert v.sym_parent is n and v.sym_path == n.sym_path + k, 'wrong parent/path at %%s' %% (n.sym_path + k)
        seen.add(id(v)); todo.append(v)
except _Hang:
  raise AssertionError('inserting a node below itself does not terminate')
except RecursionError:
  raise AssertionError('inserting a node below itself overflows the stack')
finally:
  signal.setitimer(signal.ITIMER_PROF, 0)
  signal.setitimer(signal.ITIMER_REAL, 0)
'''


def _self_insertion_script(setup, stmt, limit):
  return (HEAD + (CLASS_A if 'A(' in setup else '') + setup + '\n'
          + _SELF_CHECK % dict(limit=limit, stmt=textwrap.indent(stmt, '    ')))


def drv_self_insertion(tier, seed):
  """Inserting a node below itself must terminate and leave a tree (subprocess)."""
  del seed
  limit = 2 if tier == 'quick' else 5
  rec = Recorder(
      'C01', 'insertion of a node below itself / below its own descendant',
      scope=f'{len(_SELF_INSERTION_CASES)} entry points, each run in a '
            f'subprocess; the call must return or raise within {limit}s of CPU time and '
            'leave a well-formed tree')
  env = dict(os.environ)
  env['PYTHONPATH'] = os.pathsep.join(p for p in sys.path if p)
  procs = []
  for cid, setup, stmt in _SELF_INSERTION_CASES:
    script = _self_insertion_script(setup, stmt, limit)
    p = subprocess.Popen([sys.executable, '-c', script], env=env,
                         stdout=subprocess.DEVNULL, stderr=subprocess.PIPE)
    procs.append((cid, setup, stmt, p))
  for cid, setup, stmt, p in procs:
    try:
      _, err = p.communicate(timeout=90)
      ok = p.returncode == 0
      msg = (err.decode(errors='replace').strip().splitlines() or [''])[-1]
    except subprocess.TimeoutExpired:
      p.kill()
      p.communicate()
      ok, msg = False, 'does not terminate (subprocess killed after 90s)'
    if ok:
      sub = ''
    elif 'terminate' in msg:
      sub = '/non-terminating'
    elif 'overflows' in msg:
      sub = '/stack-overflow'
    else:
      sub = '/malformed-tree'
    rec.case(f'self-insertion/{cid}{sub}', stmt, ok, message=msg,
             witness=_self_insertion_witness(setup, stmt))
  return rec.result()


def _self_insertion_witness(setup, stmt):
  # Runs in a subprocess so that replaying cannot hang the caller.
  src = ('import pyglove as pg\n' + (CLASS_A if 'A(' in setup else '') + setup
         + '\ntry:\n' + textwrap.indent(stmt, '  ') + '\nexcept Exception: pass\n'
         'n, seen = root, set()\n'
         'while n is not None:\n'
         '  assert id(n) not in seen, "parent cycle"\n'
         '  seen.add(id(n)); n = n.sym_parent\n')
  return ('import os, subprocess, sys\n'
          f'src = {src!r}\n'
          'env = dict(os.environ, PYTHONPATH=os.pathsep.join(p for p in sys.path if p))\n'
          'try:\n'
          '  p = subprocess.run([sys.executable, "-c", src], env=env, capture_output=True, timeout=8)\n'
          'except subprocess.TimeoutExpired:\n'
          '  raise AssertionError("inserting a node below itself does not terminate")\n'
          'assert p.returncode == 0, p.stderr.decode()[-200:]\n')


# --------------------------------------------------------------------------
# One call, one node object supplied for several members.
#
# "One node object never appears in two places": a call that is handed the
# SAME node object for two (or three) of the members it stores -- constructor
# arguments, the values of one update / rebind, the elements of one extend /
# slice assignment, the items of a raw container that is being converted --
# must leave every node with exactly one location, whatever the library does
# about the repeated occurrence (copy it, move it).  The occurrences may be
# direct members of the container the call addresses (`siblings`) or sit at
# different depths inside raw containers that the call converts (`nested`).
#
# case_id = one-call-aliasing/<container>.<entry>[@context][!raised]/<siblings|nested>/<kind>
# when the violation needs the aliasing; a violation that the same call shows
# with a distinct node per occurrence is recorded under the id of the history
# drivers (<container>.<entry>[@context][!raised]/<kind>).
# --------------------------------------------------------------------------

CLASS_F = ("@pg.functor([('x', pg.typing.Any(default=None)), ('y', pg.typing.Any(default=None))])\n"
           "def F(x, y): return 0\n")
CLASS_V = ("@pg.members([('args', pg.typing.List(pg.typing.Any()))], init_arg_list=['*args'])\n"
           "class V(pg.Object): allow_symbolic_assignment = True\n")
CLASS_P = ("_D = pg.typing.Dict().noneable()\n"
           "@pg.members([('x', _D), ('y', _D), ('z', pg.typing.List(_D).noneable())])\n"
           "class P(pg.Object): allow_symbolic_assignment = True\n")


@pg.functor([('x', pg.typing.Any(default=None)), ('y', pg.typing.Any(default=None))])
def F(x, y):  # pylint: disable=unused-argument
  return 0


@pg.members([('args', pg.typing.List(pg.typing.Any()))], init_arg_list=['*args'])
class V(pg.Object):
  allow_symbolic_assignment = True


_ENV_BASE['F'] = F
_D = pg.typing.Dict().noneable()


@pg.members([('x', _D), ('y', _D), ('z', pg.typing.List(_D).noneable())])
class P(pg.Object):
  """Members with Dict / List value specs (the supplied node must be a Dict)."""
  allow_symbolic_assignment = True


_ALIAS_EXT = "ext = pg.Dict(k=pg.Dict(v=pg.Dict(w=1)), j=[pg.Dict(e=1)])\n"
# (label, statements that bind `n`)
ALIAS_NODES = [
    ('fresh-dict', "n = pg.Dict(g=pg.Dict(h=1))\n"),
    ('fresh-list', "n = pg.List([pg.Dict(h=1), 2])\n"),
    ('fresh-object', "n = A(x=pg.Dict(h=1))\n"),
    ('empty-dict', "n = pg.Dict()\n"),
    ('detached', _ALIAS_EXT + "n = ext.pop('k')\n"),
    ('parented-elsewhere', _ALIAS_EXT + "n = ext.k\n"),
    ('element-elsewhere', _ALIAS_EXT + "n = ext.j[0]\n"),
    # mutators only: a node of the tree the call works on / a child of the
    # container the call addresses ({IN} / {OWN} of the target).
    ('parented-in-tree', "n = {IN}\n"),
    ('own-child', "n = {OWN}\n"),
]
_DICT_NODES = ('fresh-dict', 'empty-dict', 'detached', 'parented-elsewhere',
               'element-elsewhere')
_CORE_NODES = ('fresh-dict', 'detached', 'parented-elsewhere', 'own-child')

# (label, class that goes to the case id, preparation, expression per slot,
#  the same with a distinct node n / n2 / n3 per occurrence).
ALIAS_PLACEMENTS = [
    ('siblings', 'siblings', '', ('n', 'n'), '', ('n', 'n2')),
    ('direct+nested-dict', 'nested', '', ('n', "{'z': n}"), '', ('n', "{'z': n2}")),
    ('direct+nested-list', 'nested', '', ('n', '[1, n]'), '', ('n', '[1, n2]')),
    ('nested-dict+direct', 'nested', '', ("{'z': n}", 'n'), '', ("{'z': n}", 'n2')),
    ('nested-list+direct', 'nested', '', ('[n]', 'n'), '', ('[n]', 'n2')),
    ('nested+nested', 'nested', '', ('[n]', "{'z': {'zz': n}}"), '',
     ('[n]', "{'z': {'zz': n2}}")),
    ('nested-twice-in-one', 'nested', '', ('[n, n]', '5'), '', ('[n, n2]', '5')),
    ('nested-twice-in-second', 'nested', '', ('5', "{'z': n, 'zz': [n]}"), '',
     ('5', "{'z': n, 'zz': [n2]}")),
    ('thrice', 'nested', '', ('n', '[n, n]'), '', ('n', '[n2, n3]')),
    ('same-raw-dict-twice', 'nested', "c = {'z': n}\n", ('c', 'c'),
     "c = {'z': n}\nc2 = {'z': n2}\n", ('c', 'c2')),
    ('same-raw-list-twice', 'nested', "c = [n]\n", ('c', 'c'),
     "c = [n]\nc2 = [n2]\n", ('c', 'c2')),
    ('symbolic-holder+direct', 'nested', '', ('pg.Dict(z=n)', 'n'), '',
     ('pg.Dict(z=n)', 'n2')),
    ('direct+symbolic-holder', 'nested', "c = pg.List([n])\n", ('n', 'c'),
     "c = pg.List([n2])\n", ('n', 'c')),
    ('direct+object-holder', 'nested', '', ('n', 'A(x=n)'), '', ('n', 'A(x=n2)')),
    ('direct+raw-holding-object', 'nested', '', ('n', '[A(x=[n])]'), '',
     ('n', '[A(x=[n2])]')),
]
_CORE_PLACEMENTS = ('siblings', 'direct+nested-dict', 'nested-list+direct')
_SIBLINGS_ONLY = ('siblings',)

# Constructors: (entry, variant, statement with {V1} {V2}, placements or None,
# the spelling nests an occurrence by itself).  A functor and a partial object
# are pg.Objects: same entry, the variant tells them apart.
ALIAS_CONSTRUCTORS = [
    ('object.construct', 'kwargs', 'r = A(x={V1}, y={V2})', None, False),
    ('object.construct', 'positional', 'r = A({V1}, {V2})', None, False),
    ('object.construct', 'any-keyword', 'r = W(p={V1}, q={V2})', None, False),
    ('object.construct', 'varargs', 'r = V({V1}, {V2})', None, False),
    ('object.construct', 'one-member-list', 'r = A(x=[{V1}, {V2}])', None, True),
    ('object.construct', 'one-member-dict', "r = A(y={{'p': {V1}, 'q': {V2}}})", None, True),
    ('object.construct', 'inside-raw', "r = pg.Dict(o=[A(x={V1}, y={V2})])", None, False),
    ('object.construct', 'typed-members', 'r = P(x={V1}, y={V2})', _SIBLINGS_ONLY, False),
    ('object.construct', 'typed-list-member', 'r = P(z=[{V1}, {V2}])', _SIBLINGS_ONLY, True),
    ('object.construct', 'typed-list+member', 'r = P(x={V1}, z=[{V2}])', _SIBLINGS_ONLY, True),
    ('object.construct', 'typed-tree',
     "r = C(m={{'p': {V1}}}, n={{}}, w=W(q={V2}), x=[{V1}])", None, True),
    ('object.construct', 'partial', 'r = A.partial(x={V1}, y={V2})', None, False),
    ('object.construct', 'partial-typed-members', 'r = P.partial(x={V1}, y={V2})',
     _SIBLINGS_ONLY, False),
    ('object.construct', 'functor-kwargs', 'r = F(x={V1}, y={V2})', None, False),
    ('object.construct', 'functor-positional', 'r = F({V1}, {V2})', None, False),
    ('object.construct', 'functor-partial', 'r = F.partial(x={V1}, y={V2})', None, False),
    ('dict.construct', 'kwargs', 'r = pg.Dict(x={V1}, y={V2})', None, False),
    ('dict.construct', 'raw-dict', "r = pg.Dict({{'x': {V1}, 'y': {V2}}})", None, False),
    ('dict.construct', 'raw-dict+kwargs', "r = pg.Dict({{'x': {V1}}}, y={V2})", None, False),
    ('dict.construct', 'pairs', "r = pg.Dict([('x', {V1}), ('y', {V2})])", None, False),
    ('dict.construct', 'value_spec',
     "r = pg.Dict({{'x': {V1}, 'y': {V2}}}, "
     "value_spec=pg.typing.Dict([(pg.typing.StrKey(), pg.typing.Any())]))", None, False),
    ('dict.construct', 'fromkeys', "r = pg.Dict.fromkeys(['x', 'y'], {V1})", _SIBLINGS_ONLY, False),
    ('list.construct', 'list', 'r = pg.List([{V1}, {V2}])', None, False),
    ('list.construct', 'tuple', 'r = pg.List(({V1}, 7, {V2}))', None, False),
    ('list.construct', 'value_spec',
     'r = pg.List([{V1}, {V2}], value_spec=pg.typing.List(pg.typing.Any()))', None, False),
]

# Mutators.  Targets: (label, tree, target expression, path of the target
# from the root (formatted), a node of the tree outside the target).
ALIAS_DICT_TARGETS = [
    ('root', "r = pg.Dict(x=pg.Dict(old=1), y=2, k=pg.Dict(kk=pg.Dict()))\n", 'r', '', None),
    ('nested', "r = pg.List([A(x=pg.Dict(x=pg.Dict(old=1), y=2, k=pg.Dict(kk=1))), "
               "pg.Dict(g=pg.Dict(h=1))])\n", 'r[0].x', '[0].x', 'r[1]'),
    ('typed', "r = C(m={'x': {'old': 1}, 'y': 2, 'k': {'kk': 1}}, n={'p': {}})\n",
     'r.m', 'm', 'r.n.p'),
]
ALIAS_LIST_TARGETS = [
    ('root', "r = pg.List([pg.Dict(old=1), 2, pg.Dict(old=3)])\n", 'r', '', None),
    ('nested', "r = pg.Dict(a=A(y=[pg.Dict(old=1), 2, pg.Dict(old=3)]), "
               "b=pg.Dict(g=pg.Dict(h=1)))\n", 'r.a.y', 'a.y', 'r.b'),
    ('typed', "r = C(m={}, n={'p': {'g': {}}}, x=[{'old': 1}, 2, {'old': 3}])\n",
     'r.x', 'x', 'r.n.p'),
]
ALIAS_OBJECT_TARGETS = [
    ('root', "r = A(x=pg.Dict(old=1), y=2)\n", 'r', '', None),
    ('nested', "r = pg.Dict(l=[A(x=pg.Dict(old=1), y=2)], b=pg.Dict(g=pg.Dict(h=1)))\n",
     'r.l[0]', 'l[0]', 'r.b'),
    ('any-keyword', "r = C(m={}, n={'p': {'g': {}}}, w=W(x={'old': 1}, y=2))\n",
     'r.w', 'w', 'r.n.p'),
]
_OWN = {'dict': "{T}['x']", 'list': '{T}[0]', 'object': '{T}.x'}

# (entry, variant, statement).  {T}: target, {P}: path prefix of the target
# from the root, {V1} {V2}: the slots.
ALIAS_DICT_MUTATORS = [
    ('dict.update', 'dict', "{T}.update({{'x': {V1}, 'y': {V2}}})"),
    ('dict.update', 'kwargs', "{T}.update(x={V1}, y={V2})"),
    ('dict.update', 'pairs', "{T}.update([('x', {V1}), ('y', {V2})])"),
    ('dict.update', 'new-keys', "{T}.update({{'p': {V1}, 'q': {V2}}})"),
    ('dict.update', 'dict+kwargs', "{T}.update({{'p': {V1}}}, x={V2})"),
    ('dict.ior', 'dict', "_t = {T}\n_t |= {{'x': {V1}, 'q': {V2}}}"),
    ('dict.rebind', 'dict', "{T}.rebind({{'x': {V1}, 'y': {V2}}})"),
    ('dict.rebind', 'kwargs', "{T}.rebind(x={V1}, y={V2})"),
    ('dict.rebind', 'new-keys', "{T}.rebind({{'p': {V1}, 'q': {V2}}})"),
    ('dict.rebind', 'child-paths', "{T}.rebind({{'k.kk': {V1}, 'k.p': {V2}}})"),
    ('dict.rebind', 'own-and-child-path', "{T}.rebind({{'q': {V1}, 'k.p': {V2}}})"),
    ('dict.rebind@skip_notification', 'dict',
     "{T}.rebind({{'x': {V1}, 'q': {V2}}}, skip_notification=True)"),
    ('dict.rebind@notify_parents_off', 'dict',
     "{T}.rebind({{'x': {V1}, 'q': {V2}}}, notify_parents=False)"),
    ('dict.setitem', 'raw-dict', "{T}['p'] = {{'x': {V1}, 'y': {V2}}}"),
    ('dict.setitem', 'raw-list-replacing', "{T}['x'] = [{V1}, {V2}]"),
    ('dict.setattr', 'raw-list', "{T}.p = [{V1}, {V2}]"),
    ('dict.setdefault', 'raw-dict', "{T}.setdefault('p', {{'x': {V1}, 'y': {V2}}})"),
    ('dict.clone-override', 'shallow', "res = {T}.clone(override={{'x': {V1}, 'y': {V2}}})"),
    ('dict.clone-override', 'deep',
     "res = {T}.clone(deep=True, override={{'x': {V1}, 'k.kk': {V2}}})"),
]
ALIAS_LIST_MUTATORS = [
    ('list.extend', 'two', "{T}.extend([{V1}, {V2}])"),
    ('list.extend', 'tuple', "{T}.extend(({V1}, 7, {V2}))"),
    ('list.iadd', 'two', "_t = {T}\n_t += [{V1}, {V2}]"),
    ('list.add', 'two', "res = {T} + [{V1}, {V2}]"),
    ('list.append', 'raw-list', "{T}.append([{V1}, {V2}])"),
    ('list.append', 'raw-dict', "{T}.append({{'x': {V1}, 'y': {V2}}})"),
    ('list.insert', 'raw-list', "{T}.insert(0, [{V1}, {V2}])"),
    ('list.setitem', 'raw-dict', "{T}[0] = {{'x': {V1}, 'y': {V2}}}"),
    ('list.setitem-slice', 'same', "{T}[0:2] = [{V1}, {V2}]"),
    ('list.setitem-slice', 'insert', "{T}[1:1] = [{V1}, {V2}]"),
    ('list.setitem-slice', 'grow', "{T}[0:1] = [{V1}, 7, {V2}]"),
    ('list.setitem-slice', 'shrink', "{T}[:] = [{V1}, {V2}]"),
    ('list.setitem-slice', 'step2', "{T}[0:3:2] = [{V1}, {V2}]"),
    ('list.setitem-slice', 'step-1', "{T}[::-1] = [{V1}, 7, {V2}]"),
    ('list.rebind', 'set+set', "{T}.rebind({{0: {V1}, 1: {V2}}})"),
    ('list.rebind', 'set+append', "{T}.rebind({{0: {V1}, 3: {V2}}})"),
    ('list.rebind', 'insert+set', "{T}.rebind({{0: pg.Insertion({V1}), 1: {V2}}})"),
    ('list.rebind', 'insert+insert',
     "{T}.rebind({{0: pg.Insertion({V1}), 2: pg.Insertion({V2})}})"),
    ('list.rebind', 'child-paths', "{T}.rebind({{'[0].old': {V1}, '[2].p': {V2}}})"),
    ('list.rebind@skip_notification', 'insert+set',
     "{T}.rebind({{0: pg.Insertion({V1}), 1: {V2}}}, skip_notification=True)"),
    ('list.rebind@notify_parents_off', 'set+set',
     "{T}.rebind({{0: {V1}, 1: {V2}}}, notify_parents=False)"),
    ('list.clone-override', 'shallow', "res = {T}.clone(override={{0: {V1}, 1: {V2}}})"),
    ('list.clone-override', 'deep',
     "res = {T}.clone(deep=True, override={{0: {V1}, '[2].old': {V2}}})"),
]
ALIAS_OBJECT_MUTATORS = [
    ('object.rebind', 'kwargs', "{T}.rebind(x={V1}, y={V2})"),
    ('object.rebind', 'dict', "{T}.rebind({{'x': {V1}, 'y': {V2}}})"),
    ('object.rebind', 'child-paths', "{T}.rebind({{'x.old': {V1}, 'x.p': {V2}}})"),
    ('object.rebind', 'own-and-child-path', "{T}.rebind({{'y': {V1}, 'x.p': {V2}}})"),
    ('object.rebind@skip_notification', 'kwargs',
     "{T}.rebind(x={V1}, y={V2}, skip_notification=True)"),
    ('object.rebind@notify_parents_off', 'kwargs',
     "{T}.rebind(x={V1}, y={V2}, notify_parents=False)"),
    ('object.setattr', 'raw-list', "{T}.x = [{V1}, {V2}]"),
    ('object.setattr', 'raw-dict', "{T}.y = {{'p': {V1}, 'q': {V2}}}"),
    ('object.clone-override', 'shallow', "res = {T}.clone(override={{'x': {V1}, 'y': {V2}}})"),
    ('object.clone-override', 'deep',
     "res = {T}.clone(deep=True, override={{'x.old': {V1}, 'y': {V2}}})"),
    ('object.sym_init_args-update', 'dict',
     "{T}.sym_init_args.update({{'x': {V1}, 'y': {V2}}})"),
]
# Issued at the root with the paths of the members of the (nested) target, and
# across several containers of one tree.
ALIAS_DEEP_MUTATORS = {
    'dict': [('rebind-deep', 'dict-members', "r.rebind({{'{P}x': {V1}, '{P}q': {V2}}})"),
             ('rebind-deep', 'dict-member+below',
              "r.rebind({{'{P}x': {V1}, '{P}k.kk': {V2}}})")],
    'list': [('rebind-deep', 'list-elements', "r.rebind({{'{P}[0]': {V1}, '{P}[1]': {V2}}})"),
             ('rebind-deep', 'list-insert+below',
              "r.rebind({{'{P}[0]': pg.Insertion({V1}), '{P}[1].p': {V2}}})")],
    'object': [('rebind-deep', 'object-members', "r.rebind({{'{P}x': {V1}, '{P}y': {V2}}})"),
               ('rebind-deep', 'object-member+below',
                "r.rebind({{'{P}y': {V1}, '{P}x.old': {V2}}})")],
}
_ALIAS_ACROSS_TREE = ("r = pg.Dict(c=pg.Dict(x=pg.Dict(old=1)), l=[pg.Dict(old=1), 2], "
                      "o=A(x=pg.Dict(old=1)), b=pg.Dict(g=pg.Dict(h=1)))\n")
ALIAS_ACROSS_MUTATORS = [
    ('rebind-deep', 'dict+list', "r.rebind({{'c.x': {V1}, 'l[0]': {V2}}})"),
    ('rebind-deep', 'list+object', "r.rebind({{'l[0]': pg.Insertion({V1}), 'o.y': {V2}}})"),
    ('rebind-deep', 'object+dict', "r.rebind({{'o.x': {V1}, 'c.q': {V2}}})"),
    ('rebind-deep', 'object+root', "r.rebind({{'o.x.old': {V1}, 'q': {V2}}})"),
    ('rebind-deep@skip_notification', 'dict+list',
     "r.rebind({{'c.x': {V1}, 'l[0]': pg.Insertion({V2})}}, skip_notification=True)"),
    ('dict.update', 'across-raw', "r.update({{'c': {{'x': {V1}}}, 'l': [{V2}], 'q': {V1}}})"),
]
# Contexts under which the same calls are made (the id carries the context
# only if the violation is not there without it).
ALIAS_CONTEXTS = [
    ('notify_off', 'pg.notify_on_change(False)'),
    ('typecheck_off', 'pg.enable_type_check(False)'),
    ('allow_partial', 'pg.allow_partial(True)'),
    ('writable_accessors', 'pg.allow_writable_accessors(True)'),
]
_ALIAS_ROOTS = ('r', 'res', 'ext')
_ALIAS_HEAD = 'import pyglove as pg\n'


def _alias_classes(body):
  out = ''
  if re.search(r'\bA[.(]|\b[CP][.(]', body):
    out += CLASS_A
  if re.search(r'\b[WC]\(', body):
    out += CLASS_W
  if re.search(r'\bC\(', body):
    out += CLASS_C
  if re.search(r'\bF[.(]', body):
    out += CLASS_F
  if re.search(r'\bV\(', body):
    out += CLASS_V
  if re.search(r'\bP[.(]', body):
    out += CLASS_P
  return out


def _alias_check(env, before):
  """Violations after the call: [(kind, message, assert source[, preparation])],
  the most severe tree violation (at most one) first, then those about single
  nodes."""
  out = []
  roots = []
  for name in _ALIAS_ROOTS:
    v = env.get(name)
    if isinstance(v, Symbolic) and all(v is not o for _, o in roots):
      roots.append((name, v))
  n = env.get('n')
  where, tree_vio = {}, []

  def tree(name, root):
    nodes = {}
    tree_vio.extend(check_tree(root, name, nodes))
    for i, (_, rn, keys) in nodes.items():
      if i in where:          # one node object in two trees
        a, b = _nav(*where[i]), _nav(rn, keys)
        tree_vio.append(('node-in-two-places', (i, 'xdup'),
                         f'the same node object is stored at {a} and at {b}',
                         f'assert {a} is not {b}, "one node object stored in two trees"'))
      else:
        where[i] = (rn, keys)

  for name, root in roots:
    tree(name, root)
  # A supplied node (n; n2, n3 in the control run): stored in one of the trees
  # (checked above), or in / the root of a tree of its own, which its parent
  # chain leads to.  Following the parent chain must never enter a tree at a
  # node that does not store the node the chain came from.
  for nm in ('n', 'n2', 'n3'):
    x = env.get(nm)
    if not isinstance(x, Symbolic) or id(x) in where:
      continue
    top, seen = x, set()
    while (top.sym_parent is not None and id(top) not in seen
           and id(top.sym_parent) not in where):
      seen.add(id(top))
      top = top.sym_parent
    p = top.sym_parent
    if p is not None and id(p) not in where:
      out.append(('parent-cycle', f'the parent chain of {nm} does not end',
                  f'_s, _t = set(), {nm}\nwhile _t is not None:\n'
                  '  assert id(_t) not in _s, "parent cycle"\n  _s.add(id(_t)); _t = _t.sym_parent'))
    elif p is not None:
      up = nm + '.sym_parent' * len(seen)
      out.append(('supplied-node-reports-parent-that-does-not-store-it',
                  f'{up} is stored nowhere in the trees but its sym_parent is the tree node '
                  f'{_nav(*where[id(p)])} (sym_path {str(top.sym_path)!r})',
                  f'_y = {up}\nassert _y.sym_parent is None or any(v is _y for v in _y.sym_parent.sym_values()), '
                  '"a node that was supplied to the call reports a parent that does not store it"'))
    else:
      tree(nm if top is x else nm + '.sym_root', top)
      if id(x) not in where:
        out.append(('supplied-node-reports-parent-that-does-not-store-it',
                    f'{nm}.sym_parent is a {type(x.sym_parent).__name__} at path '
                    f'{str(x.sym_parent.sym_path)!r} but {nm} is not reachable from {nm}.sym_root',
                    f'assert any(v is {nm} for v in {nm}.sym_parent.sym_values()), '
                    '"a node that was supplied to the call reports a parent that does not store it"'))
    if out:
      break
  if tree_vio:
    tree_vio.sort(key=lambda x: _PRIORITY.index(x[0]))
    out.insert(0, (tree_vio[0][0], tree_vio[0][2], tree_vio[0][3]))
  # nodes the call removed / replaced
  for i, (node, rn, keys) in before.items():
    if i in where or node is n:
      continue
    p = node.sym_parent
    if p is not None and id(p) in where and where[id(p)][0] in _ALIAS_ROOTS:
      nav, pnav = _nav(rn, keys), _nav(*where[id(p)])
      out.append(('removed-node-keeps-parent',
                  f'the node formerly at {nav} is no longer stored in the trees but its '
                  f'sym_parent is still the tree node {pnav}',
                  f'assert _x.sym_parent is not {pnav}, '
                  '"removed node still reports a tree node as its parent"',
                  f'_x = {nav}\n'))
      break
  return out


def _alias_run(setup, call, wd):
  """(raised or None, violations)."""
  env = dict(_ENV_BASE)
  env.update(F=F, V=V, P=P)
  exec(setup, env)  # pylint: disable=exec-used
  before = {}
  for name in _ALIAS_ROOTS:
    if isinstance(env.get(name), Symbolic):
      collect(env[name], name, before)
  raised = None
  wd.arm()
  try:
    try:
      exec(call, env)  # pylint: disable=exec-used
    except _Hang:
      return None, [('non-terminating', 'the call did not return within the time limit',
                     'raise AssertionError("did not terminate")')]
    except Exception as e:  # pylint: disable=broad-except
      raised = e
    try:
      return raised, _alias_check(env, before)
    except _Hang:
      return raised, [('non-terminating-walk', 'walking the tree did not terminate',
                       'raise AssertionError("tree walk did not terminate")')]
  finally:
    wd.disarm()


def _alias_cases(quick, seed):
  """Yields (entry, context label, placement label, placement class, node
  label, variant, setup, call, control setup, control call)."""
  r = rng(seed, 'c01-alias')
  ctl_nodes = 'n2 = pg.clone(n, deep=True)\nn3 = pg.clone(n, deep=True)\n'

  def wrap(stmt, ctx):
    return stmt if ctx is None else f'with {ctx}:\n' + textwrap.indent(stmt, '  ')

  turn = [seed]

  def contexts(entry, core):
    yield None, None
    if '@' in entry:
      return
    if not quick:
      yield from ALIAS_CONTEXTS
    elif core:      # every other basic combination under one context, in turn
      turn[0] += 1
      if turn[0] % 8 < 4:
        yield ALIAS_CONTEXTS[turn[0] % 8]
    elif r.random() < 0.02:
      yield r.choice(ALIAS_CONTEXTS)

  def grid(entry, nodes, only=None, constructor=False, typed=False):
    """Quick tier: the basic placements x the basic node classes in full
    (40% of them on a typed target; constructors: the whole grid), a 3% sample
    of the rest."""
    for pl in ALIAS_PLACEMENTS:
      if only is not None and pl[0] not in only:
        continue
      for nl, nsrc in nodes:
        core = pl[0] in _CORE_PLACEMENTS and nl in _CORE_NODES
        if quick and not constructor and r.random() > (
            (0.4 if typed else 1) if core else 0.03):
          continue
        for cl, c in contexts(entry, core):
          yield pl, nl, nsrc, cl, c

  for entry, variant, stmt, only, nests in ALIAS_CONSTRUCTORS:
    nodes = [(nl, ns) for nl, ns in ALIAS_NODES if '{' not in ns
             and (nl in _DICT_NODES or 'typed' not in variant or variant == 'typed-tree')]
    for (pl, pc, prep, (v1, v2), cprep, (c1, c2)), nl, nsrc, cl, c in grid(
        entry, nodes, only, True):
      yield (entry, cl, pl, 'nested' if nests else pc, nl, variant,
             nsrc + prep, wrap(stmt.format(V1=v1, V2=v2), c),
             nsrc + ctl_nodes + cprep, wrap(stmt.format(V1=c1, V2=c2), c))

  groups = [('dict', ALIAS_DICT_TARGETS, ALIAS_DICT_MUTATORS),
            ('list', ALIAS_LIST_TARGETS, ALIAS_LIST_MUTATORS),
            ('object', ALIAS_OBJECT_TARGETS, ALIAS_OBJECT_MUTATORS)]
  for tname, targets, mutators in groups:
    for tl, tree, T, path, intree in targets:
      P = (path + '.') if path else ''
      deep = ALIAS_DEEP_MUTATORS[tname] if path else []
      nodes = [(nl, ns.replace('{IN}', intree or '').replace('{OWN}', _OWN[tname].format(T=T)))
               for nl, ns in ALIAS_NODES if intree is not None or '{IN}' not in ns]
      for entry, variant, stmt in list(mutators) + deep:
        for (pl, pc, prep, (v1, v2), cprep, (c1, c2)), nl, nsrc, cl, c in grid(
            entry, nodes, typed=tl in ('typed', 'any-keyword')):
          body = stmt.format(T=T, P=P, V1=v1, V2=v2).replace('.[', '[')
          cbody = stmt.format(T=T, P=P, V1=c1, V2=c2).replace('.[', '[')
          yield (entry, cl, pl, pc, nl, f'{tl}-target/{variant}',
                 tree + nsrc + prep, wrap(body, c),
                 tree + nsrc + ctl_nodes + cprep, wrap(cbody, c))
  nodes = [(nl, ns.replace('{IN}', 'r.b').replace('{OWN}', 'r.c.x')) for nl, ns in ALIAS_NODES]
  for entry, variant, stmt in ALIAS_ACROSS_MUTATORS:
    for (pl, pc, prep, (v1, v2), cprep, (c1, c2)), nl, nsrc, cl, c in grid(entry, nodes):
      yield (entry, cl, pl, 'nested' if variant == 'across-raw' else pc, nl,
             f'across/{variant}', _ALIAS_ACROSS_TREE + nsrc + prep,
             wrap(stmt.format(V1=v1, V2=v2), c),
             _ALIAS_ACROSS_TREE + nsrc + ctl_nodes + cprep,
             wrap(stmt.format(V1=c1, V2=c2), c))


def drv_one_call_aliasing(tier, seed):
  """The same node object supplied for several members in ONE call."""
  quick = tier == 'quick'
  nmut = len(ALIAS_DICT_MUTATORS) + len(ALIAS_LIST_MUTATORS) + len(ALIAS_OBJECT_MUTATORS)
  rec = Recorder(
      'C01', 'one node object supplied for two or three members in one call '
      'ends in exactly one place',
      scope=(f'{len(ALIAS_CONSTRUCTORS)} constructor spellings (pg.Object: keywords, '
             'positional, any-keyword class, varargs, one raw member, typed members, '
             'partial, functor; pg.Dict: keywords, raw dict, pairs, value_spec, fromkeys; '
             f'pg.List: list, tuple, value_spec) and {nmut} batch mutator spellings '
             '(update / |= / rebind incl. flags and child paths / extend / += / + / '
             'slice assignments / raw containers assigned, appended, inserted / '
             'clone(override=...)) on a root, a nested and a typed target each, rebind '
             'issued at the root for the members of the nested target and across several '
             f'containers; x {len(ALIAS_PLACEMENTS)} placements of the occurrences (both '
             'direct members; direct + inside a raw dict / list in either order; both '
             'nested; twice inside one raw container; three times; the same raw container '
             'passed twice; inside a symbolic / object holder) x 9 classes of the node '
             '(fresh Dict / List / Object with children, empty Dict, detached, child of '
             'another tree (dict value / list element), node of the same tree, child of '
             'the addressed container); the same calls under notify_on_change(False), '
             'enable_type_check(False), allow_partial, allow_writable_accessors; '
             + ('quick: constructors: the whole grid; mutators: the basic combinations '
                '(3 placements x 4 node classes; 40% of them on the typed target) and a '
                '3% sample of the rest; every other basic combination under one of the '
                'contexts in turn, 2% of the rest'
                if quick else 'all combinations')
             + '; after the call every tree (result, target tree, other tree, the tree '
               'the node itself ended in) is well-formed, no node object is met twice '
               'within or across trees, the supplied node reports no parent that does '
               'not store it, a replaced node does not keep a tree node as parent; a '
               'call that raises although it succeeds with a distinct node per '
               'occurrence is a failure'))
  plain_fail = set()
  with _Watchdog(10) as wd:
    for entry, cl, pl, pc, nl, variant, setup, call, csetup, ccall in _alias_cases(quick, seed):
      key = (variant, pl, nl, cl)
      base = (entry, variant, pl, nl)
      ent = f'{entry}@{cl}' if cl else entry
      head = _ALIAS_HEAD + _alias_classes(setup + call)
      try:
        raised, vio = _alias_run(setup, call, wd)
      except Exception as e:  # pylint: disable=broad-except
        rec.case(f'one-call-aliasing/{entry}/setup-raises', key, False,
                 f'building the inputs raised {type(e).__name__}: {e}', head + setup)
        continue
      if not vio and raised is None:
        rec.case(f'one-call-aliasing/{ent}', key, True)
        continue
      # The same call with a distinct node per occurrence: is the input legal,
      # and is the violation a matter of the aliasing at all?
      try:
        craised, cvio = _alias_run(csetup, ccall, wd)
      except Exception:  # pylint: disable=broad-except
        craised, cvio = None, []
      ckinds = {v[0] for v in cvio}
      if raised is not None and craised is None:
        vio = [('raises-although-fine-with-distinct-nodes',
                f'raised {type(raised).__name__}: {raised}',
                'raise AssertionError("the call raised")')] + vio
      if not vio:
        rec.case(f'one-call-aliasing/{ent}', key, True)
        continue
      for v in vio:
        vk, msg, tail = v[0], v[1], v[2]
        pre = v[3] if len(v) > 3 else ''
        if cl is None:
          plain_fail.add(base + (vk,))
        e = entry if cl is None or base + (vk,) in plain_fail else ent
        if vk == 'raises-although-fine-with-distinct-nodes':
          w = head + setup + call + '\n'
        elif raised is not None:
          e = entry + '!raised'
          w = (head + setup + pre + 'try:\n' + textwrap.indent(call, '  ')
               + f'\nexcept {type(raised).__name__}: pass\n' + tail + '\n')
        else:
          w = head + setup + pre + call + '\n' + tail + '\n'
        cid = (f'{e}/{vk}' if vk in ckinds else f'one-call-aliasing/{e}/{pc}/{vk}')
        rec.case(cid, key, False,
                 message=f'[{variant}; node: {nl}; placement: {pl}] after `{call}`'
                 + (f' (which raised {type(raised).__name__})' if raised is not None else '')
                 + f': {msg}',
                 witness=w)
  return rec.result()


DRIVERS = [drv_histories_exhaustive, drv_histories_random, drv_key_classes,
           drv_self_insertion, drv_one_call_aliasing, drv_node_kinds]


def replay(rec):
  """Re-executes rec['witness']; returns (ok, message)."""
  try:
    exec(rec['witness'], {})  # pylint: disable=exec-used
    return True, 'witness passes'
  except Exception as e:  # pylint: disable=broad-except
    return False, f'{type(e).__name__}: {e}'
