"""C01 -- symbolic tree integrity (bounded tier, never counted as proved).

Oracle (from the property statement, not from the code): after every step of a
history of public operations, for every tree that the history can reach

  * every symbolic node reachable from the root (walking the *storage* with
    `sym_items()`) has `sym_parent` equal to the container it was found in (for
    members of a `pg.Object` that is the Object itself), `sym_path` equal to the
    sequence of keys walked, `root.sym_get(path)` returns that very node,
    `sym_root` is the root, and no node object is met twice;
  * a node that the step removed from / replaced in a tree does not keep a node
    of that tree as its `sym_parent` (it is not reported as a child any more);
    a node that was detached (parent None) is the root of a well-formed tree of
    its own (empty path, descendants addressed relative to it).

Histories are Python statements executed with `exec` over a small mixed tree
(`pg.Dict` / `pg.List` / `pg.Object` nodes); the witness of a failure is the
very statement sequence followed by the failing assertion.

A history is not extended past a step that broke the tree itself (later
violations would be consequences); violations that concern only the removed
node do not stop the history.
"""
import itertools
import os
import signal
import subprocess
import sys
import textwrap
import threading

import pyglove as pg
from pyvc.bounded import Recorder, rng

__name__ = __name__  # pylint: disable=self-assigning-variable


@pg.members([
    ('x', pg.typing.Any(default=None)),
    ('y', pg.typing.Any(default=None)),
])
class A(pg.Object):
  pass


@pg.members([
    ('l', pg.typing.List(pg.typing.Dict([('v', pg.typing.Any(default=0))]),
                         default=[])),
    ('d', pg.typing.Dict([('n', pg.typing.Dict([('m', pg.typing.Any(default=0))])),
                          ('k', pg.typing.List(pg.typing.Any(), default=[]))])),
    ('a', pg.typing.Object(A).noneable()),
])
class B(pg.Object):
  pass


PRELUDE = '''\
__name__ = 'c01_witness'
import copy
import pyglove as pg
@pg.members([('x', pg.typing.Any(default=None)), ('y', pg.typing.Any(default=None))])
class A(pg.Object):
  pass
@pg.members([
  ('l', pg.typing.List(pg.typing.Dict([('v', pg.typing.Any(default=0))]), default=[])),
  ('d', pg.typing.Dict([('n', pg.typing.Dict([('m', pg.typing.Any(default=0))])),
                        ('k', pg.typing.List(pg.typing.Any(), default=[]))])),
  ('a', pg.typing.Object(A).noneable())])
class B(pg.Object):
  pass
'''

# --------------------------------------------------------------------------
# Trees.  Every tree binds `r` (the root under test), `ext` (another tree),
# `t` (a node that already has a parent, in `ext`) and `s` (a slot for a node
# popped by an earlier step).
# --------------------------------------------------------------------------

_EXT = ("ext = pg.Dict(k=pg.Dict(v=pg.Dict(w=1)), j=[pg.Dict(e=1)])\n"
        "t = ext.k\n"
        "s = pg.Dict(g=pg.Dict(h=1))\n")

TREES = {
    # mixed tree, untyped
    'mixed': (
        "r = pg.Dict(l=[{'x': {'i': 1}}, A(x=[{'q': 1}]), 7, [{'c': 1}]], "
        "d={'m': {'n': 1}, 'k': [{'z': 1}]}, "
        "o=A(x={'p': {'pp': 1}}, y=[{'u': 1}, 2, {'u': 0}]))\n" + _EXT),
    # list at the root
    'rootlist': (
        "r = pg.List([{'x': {'i': 1}}, [{'c': 1}, 3], A(x={'p': 1}), 7])\n"
        + _EXT),
    # object at the root, typed members (value specs on nested Dict / List)
    'typed': (
        "r = B(l=[{'v': {'i': 1}}, {'v': [{'c': 1}]}], "
        "d={'n': {'m': {'mm': 1}}, 'k': [{'z': 1}, 2]}, a=A(x={'p': 1}))\n"
        + _EXT),
}


class Op:
  __slots__ = ('cls', 'src', 'code', 'core')

  def __init__(self, cls, src, core=False):
    self.cls = cls
    self.src = src
    self.core = core
    self.code = compile(src, '<op>', 'exec')

  def __repr__(self):
    return f'{self.cls}: {self.src}'


# Values to insert: (label, source).  `{IN}` is replaced by an in-tree node
# that is neither the target nor one of its ancestors.
VALUES = [
    ('prim', '5'),
    ('fresh', 'pg.Dict(n=pg.Dict(m=1))'),
    ('raw', "{'n': [{'m': 1}]}"),
    ('freshlist', 'pg.List([pg.Dict(m=1)])'),
    ('obj', 'A(x=pg.Dict(m=1))'),
    ('parented-elsewhere', 't'),
    ('parented-in-tree', '{IN}'),
    ('detached', 's'),
]
CORE_VALUES = ('fresh', 'parented-in-tree', 'detached')


def _vals(intree, core_only=False, typed=None):
  for label, src in VALUES:
    if core_only and label not in CORE_VALUES:
      continue
    yield label, src.replace('{IN}', intree)


def list_ops(L, intree, tag, core_target=False):
  """All mutators of a list reachable through expression `L`."""
  ops = []

  def add(cls, src, core=False):
    ops.append(Op(f'list.{cls}', src, core and core_target))

  for label, v in _vals(intree):
    c = label in CORE_VALUES
    add(f'setitem/{label}', f'{L}[0] = {v}', c)
    add(f'setitem/{label}', f'{L}[-1] = {v}')
    add(f'append/{label}', f'{L}.append({v})', c)
    add(f'insert/{label}', f'{L}.insert(0, {v})', c)
    add(f'insert/{label}', f'{L}.insert(1, {v})')
    add(f'insert/{label}', f'{L}.insert(-1, {v})')
    add(f'insert/{label}', f'{L}.insert(99, {v})')
    add(f'extend/{label}', f'{L}.extend([{v}, {v}])', label == 'fresh')
    add(f'iadd/{label}', f'{L} += [{v}]', label == 'fresh')
    add(f'slice-assign-same/{label}', f'{L}[0:1] = [{v}]', label == 'fresh')
    add(f'slice-assign-grow/{label}', f'{L}[0:1] = [{v}, 6, {v}]')
    add(f'slice-assign-grow/{label}', f'{L}[1:1] = [{v}]', label == 'fresh')
    add(f'slice-assign-shrink/{label}', f'{L}[0:2] = [{v}]', label == 'fresh')
    add(f'slice-assign-step/{label}', f'{L}[0:3:2] = [{v}, {v}]')
    add(f'slice-assign-step/{label}', f'{L}[::-1] = [{v}] * len({L})')
    add(f'rebind-set/{label}', f'{L}.rebind({{0: {v}}})', c)
    add(f'rebind-insert/{label}', f'{L}.rebind({{0: pg.Insertion({v})}})', c)
    add(f'rebind-insert/{label}', f'{L}.rebind({{1: pg.Insertion({v})}})')
    add(f'rebind-multi/{label}',
        f'{L}.rebind({{0: pg.Insertion({v}), 1: pg.MISSING_VALUE, 2: {v}}})',
        label == 'fresh')
    add(f'rebind-append/{label}', f'{L}.rebind({{len({L}): {v}}})')
    add(f'rebind-insert@skip_notification/{label}',
        f'{L}.rebind({{0: pg.Insertion({v})}}, skip_notification=True)')
    add(f'rebind-set@notify_parents_off/{label}',
        f'{L}.rebind({{0: {v}}}, notify_parents=False)')
    add(f'insert@notify_off/{label}',
        f'with pg.notify_on_change(False): {L}.insert(0, {v})')
    add(f'setitem@notify_off/{label}',
        f'with pg.notify_on_change(False): {L}[0] = {v}')
    add(f'append@notify_off/{label}',
        f'with pg.notify_on_change(False): {L}.append({v})')
    add(f'setitem@typecheck_off/{label}',
        f'with pg.enable_type_check(False): {L}[0] = {v}')
    add(f'add-assign/{label}', f'{L} = {L} + [{v}]')
  add('extend/symbolic-list-with-children', f'{L}.extend(ext.j)')
  add('extend/self', f'{L}.extend({L})')
  add('iadd/self', f'{L} += {L}')
  add('imul/2', f'{L} *= 2', True)
  add('imul/0', f'{L} *= 0')
  add('imul/1', f'{L} *= 1')
  add('mul-assign', f'{L} = {L} * 2')
  add('delitem/first', f'del {L}[0]', True)
  add('delitem/last', f'del {L}[-1]')
  add('delitem/middle', f'del {L}[1]')
  add('delitem/slice', f'del {L}[0:2]')
  add('delitem/slice-step', f'del {L}[::2]')
  add('delitem@notify_off', f'with pg.notify_on_change(False): del {L}[0]')
  add('pop/first', f's = {L}.pop(0)', True)
  add('pop/last', f's = {L}.pop()')
  add('pop/middle', f's = {L}.pop(1)')
  add('pop@notify_off', f'with pg.notify_on_change(False): s = {L}.pop(0)')
  add('remove/prim', f'{L}.remove(7)')
  add('remove/symbolic', f'{L}.remove({L}[0])', True)
  add('clear', f'{L}.clear()', True)
  add('sort', f'{L}.sort(key=str)')
  add('sort/reverse', f'{L}.sort(key=str, reverse=True)', True)
  add('reverse', f'{L}.reverse()', True)
  add('slice-assign-empty', f'{L}[0:2] = []', True)
  add('slice-assign-all-empty', f'{L}[:] = []')
  add('slice-assign-self', f'{L}[:] = list({L})')
  add('slice-assign-rotate', f'{L}[:] = list({L})[1:] + list({L})[:1]', True)
  add('setitem/missing-value', f'{L}[0] = pg.MISSING_VALUE')
  add('rebind-delete/first', f'{L}.rebind({{0: pg.MISSING_VALUE}})', True)
  add('rebind-delete/two', f'{L}.rebind({{0: pg.MISSING_VALUE, 1: pg.MISSING_VALUE}})')
  add('rebind-delete@skip_notification',
      f'{L}.rebind({{0: pg.MISSING_VALUE}}, skip_notification=True)')
  add('rebind-fn', f'{L}.rebind(lambda k, v: pg.Dict(rb=pg.Dict(q=1)) if isinstance(v, int) else v, raise_on_no_change=False)')
  add('rebind-swap', f'{L}.rebind({{0: {L}[1], 1: {L}[0]}})', True)
  add('setitem/swap', f'{L}[0], {L}[1] = {L}[1], {L}[0]', True)
  add('setitem/same-node', f'{L}[0] = {L}[0]')
  add('setitem/sibling', f'{L}[0] = {L}[1]')
  add('use_value_spec', f'{L}.use_value_spec(pg.typing.List(pg.typing.Any()))')
  add('seal-then-write', f'{L}.seal()\ntry: {L}.append(pg.Dict(z=1))\nfinally: {L}.seal(False)')
  return ops


def dict_ops(D, intree, tag, core_target=False, keys=('a', 'b')):
  """All mutators of a dict reachable through expression `D`.

  keys[0]: a key that exists and holds a symbolic node; keys[1]: another
  existing key ('' if none).
  """
  ops = []
  k0, k1 = keys

  def add(cls, src, core=False):
    ops.append(Op(f'dict.{cls}', src, core and core_target))

  for label, v in _vals(intree):
    c = label in CORE_VALUES
    add(f'setitem-replace/{label}', f'{D}[{k0!r}] = {v}', c)
    add(f'setitem-new/{label}', f"{D}['z'] = {v}", c)
    add(f'setitem-intkey/{label}', f'{D}[1] = {v}')
    add(f'setattr-replace/{label}', f'{D}.{k0} = {v}')
    add(f'setattr-new/{label}', f'{D}.z = {v}')
    add(f'setdefault-new/{label}', f"{D}.setdefault('z', {v})", label == 'fresh')
    add(f'setdefault-existing/{label}', f'{D}.setdefault({k0!r}, {v})')
    add(f'update-dict/{label}', f"{D}.update({{{k0!r}: {v}, 'z': {v}}})", c)
    add(f'update-kwargs/{label}', f'{D}.update(z={v})')
    add(f'update-pairs/{label}', f"{D}.update([('z', {v}), ({k0!r}, 1)])")
    add(f'ior/{label}', f"{D} |= {{'z': {v}}}", label == 'fresh')
    add(f'ior-replace/{label}', f'{D} |= {{{k0!r}: {v}}}')
    add(f'or-assign/{label}', f"{D} = {D} | {{'z': {v}}}")
    add(f'rebind-replace/{label}', f'{D}.rebind({{{k0!r}: {v}}})', c)
    add(f'rebind-new/{label}', f'{D}.rebind(z={v})')
    add(f'rebind-multi/{label}',
        f"{D}.rebind({{{k0!r}: pg.MISSING_VALUE, 'z': {v}, 'y2': {v}}})",
        label == 'fresh')
    add(f'rebind-replace@skip_notification/{label}',
        f'{D}.rebind({{{k0!r}: {v}}}, skip_notification=True)')
    add(f'rebind-replace@notify_parents_off/{label}',
        f'{D}.rebind({{{k0!r}: {v}}}, notify_parents=False)')
    add(f'setitem-replace@notify_off/{label}',
        f'with pg.notify_on_change(False): {D}[{k0!r}] = {v}')
    add(f'setitem-new@typecheck_off/{label}',
        f"with pg.enable_type_check(False): {D}['z'] = {v}")
  add('delitem', f'del {D}[{k0!r}]', True)
  add('delattr', f'del {D}.{k0}')
  add('delitem@notify_off', f'with pg.notify_on_change(False): del {D}[{k0!r}]')
  add('pop', f's = {D}.pop({k0!r})', True)
  add('pop/missing', f"s0 = {D}.pop('nokey', None)")
  add('popitem', f's = {D}.popitem()[1]', True)
  add('clear', f'{D}.clear()', True)
  add('setitem/missing-value', f'{D}[{k0!r}] = pg.MISSING_VALUE')
  add('rebind-delete', f'{D}.rebind({{{k0!r}: pg.MISSING_VALUE}})', True)
  add('rebind-fn', f'{D}.rebind(lambda k, v: pg.Dict(rb=pg.Dict(q=1)) if isinstance(v, int) else v, raise_on_no_change=False)')
  add('setitem/same-node', f'{D}[{k0!r}] = {D}[{k0!r}]')
  add('update/self', f'{D}.update({D})')
  add('update/symbolic-dict-with-children', f'{D}.update(ext)')
  add('ior/symbolic-dict-with-children', f'{D} |= ext')
  add('use_value_spec', f'{D}.use_value_spec(pg.typing.Dict())')
  add('seal-then-write', f"{D}.seal()\ntry: {D}['z'] = pg.Dict(z=1)\nfinally: {D}.seal(False)")
  if k1:
    add('setitem/sibling', f'{D}[{k0!r}] = {D}[{k1!r}]', True)
    add('setitem/swap', f'{D}[{k0!r}], {D}[{k1!r}] = {D}[{k1!r}], {D}[{k0!r}]', True)
    add('rebind-swap', f'{D}.rebind({{{k0!r}: {D}[{k1!r}], {k1!r}: {D}[{k0!r}]}})')
    add('pop-then-reinsert', f"s = {D}.pop({k0!r})\n{D}[{k1!r}] = s", True)
  return ops


def object_ops(O, intree, tag, core_target=False, fields=('x', 'y')):
  ops = []
  f0, f1 = fields

  def add(cls, src, core=False):
    ops.append(Op(f'object.{cls}', src, core and core_target))

  for label, v in _vals(intree):
    c = label in CORE_VALUES
    add(f'setattr/{label}', f'{O}.{f0} = {v}', c)
    add(f'setattr-other/{label}', f'{O}.{f1} = {v}')
    add(f'rebind-kwargs/{label}', f'{O}.rebind({f0}={v})', c)
    add(f'rebind-both/{label}', f'{O}.rebind({f0}={v}, {f1}={v})')
    add(f'rebind@skip_notification/{label}',
        f'{O}.rebind({f0}={v}, skip_notification=True)')
    add(f'setattr@notify_off/{label}',
        f'with pg.notify_on_change(False): {O}.{f0} = {v}')
    add(f'sym_setattr-absent/{label}',
        f'{O}.rebind({{"nofield": {v}}})')
  add('rebind-reset-default', f'{O}.rebind({f0}=pg.MISSING_VALUE)', True)
  add('rebind-swap', f'{O}.rebind({f0}={O}.{f1}, {f1}={O}.{f0})', True)
  add('setattr/swap', f'{O}.{f0}, {O}.{f1} = {O}.{f1}, {O}.{f0}', True)
  add('setattr/same-node', f'{O}.{f0} = {O}.{f0}')
  add('rebind-fn', f'{O}.rebind(lambda k, v: pg.Dict(rb=pg.Dict(q=1)) if isinstance(v, int) else v, raise_on_no_change=False)')
  add('seal-then-write', f'{O}.seal()\ntry: {O}.{f0} = pg.Dict(z=1)\nfinally: {O}.seal(False)')
  return ops


def whole_tree_ops():
  ops = []

  def add(cls, src, core=False):
    ops.append(Op(cls, src, core))
  add('clone/deep-rebound', 'r0 = r\nr = r.clone(deep=True)', True)
  add('clone/shallow-rebound', 'r0 = r\nr = r.clone()', True)
  add('clone/copy.copy', 'r0 = r\nr = copy.copy(r)')
  add('clone/copy.deepcopy', 'r0 = r\nr = copy.deepcopy(r)')
  add('from_json/roundtrip', 'r0 = r\nr = pg.from_json(pg.to_json(r))', True)
  add('from_json/str-roundtrip',
      'r0 = r\nr = pg.from_json_str(pg.to_json_str(r))')
  add('clone/subtree-into-ext',
      'ext.c = next(v for v in r.sym_values() if isinstance(v, pg.Symbolic))')
  return ops


def deep_rebind_ops(kind):
  """Rebind from the root with one and with several deep paths."""
  ops = []

  def add(cls, src, core=False):
    ops.append(Op(f'rebind-deep.{cls}', src, core))
  V = 'pg.Dict(n=pg.Dict(m=1))'
  if kind == 'mixed':
    add('one-path', f"r.rebind({{'l[0].x': {V}}})", True)
    add('one-path', f"r.rebind({{'o.x.p': {V}}})")
    add('one-path', f"r.rebind({{'o.y[0]': {V}}})")
    add('one-path/parented', "r.rebind({'d.m': t})", True)
    add('one-path/in-tree', "r.rebind({'d.m': r.l[0]})")
    add('several-paths', f"r.rebind({{'l[0]': {V}, 'd.m.n': {V}, 'o.y[1]': {V}, 'o.x': t}})", True)
    add('several-paths/insert-delete',
        f"r.rebind({{'l[0]': pg.Insertion({V}), 'l[2]': pg.MISSING_VALUE, 'o.y[0]': pg.MISSING_VALUE, 'd.k[0]': pg.Insertion(s)}})", True)
    add('several-paths/delete-keys',
        "r.rebind({'d.m': pg.MISSING_VALUE, 'l[0].x': pg.MISSING_VALUE, 'o.y[1]': pg.MISSING_VALUE})")
    add('several-paths/parent-and-child',
        f"r.rebind({{'d': {{'m': {{'n': 2}}}}, 'o.x': {V}, 'o.x.n': 3}})")
    add('several-paths@skip_notification',
        f"r.rebind({{'l[0]': pg.Insertion({V}), 'o.y[0]': pg.MISSING_VALUE}}, skip_notification=True)")
    add('nested-target/several-paths',
        f"r.o.rebind({{'x.p': {V}, 'y[0]': pg.Insertion({V}), 'y[2]': pg.MISSING_VALUE}})", True)
    add('nested-target/list', f"r.l.rebind({{'[0].x': {V}, '[1].x[0]': pg.Insertion({V}), '[3][0]': pg.MISSING_VALUE}})")
  elif kind == 'rootlist':
    add('one-path', f"r.rebind({{'[0].x': {V}}})", True)
    add('one-path', f"r.rebind({{'[1][0]': {V}}})")
    add('one-path/parented', "r.rebind({'[2].x': t})")
    add('several-paths', f"r.rebind({{'[0].x': {V}, '[1][0]': pg.Insertion({V}), '[2].x.p': {V}}})", True)
    add('several-paths/insert-delete',
        f"r.rebind({{'[0]': pg.Insertion({V}), '[1]': pg.MISSING_VALUE, '[1][0]': pg.MISSING_VALUE, '[3]': pg.Insertion(s)}})", True)
    add('several-paths@skip_notification',
        f"r.rebind({{'[0]': pg.Insertion({V}), '[2]': pg.MISSING_VALUE}}, skip_notification=True)")
  else:
    W = "{'v': pg.Dict(n=pg.Dict(m=1))}"
    add('one-path', f"r.rebind({{'l[0].v': {V}}})", True)
    add('one-path', f"r.rebind({{'d.n.m': {V}}})")
    add('one-path/parented', "r.rebind({'a.x': t})")
    add('several-paths', f"r.rebind({{'l[0]': {W}, 'd.n.m': {V}, 'd.k[0]': pg.Insertion({V}), 'a.x': s}})", True)
    add('several-paths/insert-delete',
        f"r.rebind({{'l[0]': pg.Insertion({W}), 'l[1]': pg.MISSING_VALUE, 'd.k[0]': pg.MISSING_VALUE, 'a': pg.MISSING_VALUE}})", True)
    add('several-paths@skip_notification',
        f"r.rebind({{'l[0]': pg.Insertion({W}), 'd.k[0]': pg.MISSING_VALUE}}, skip_notification=True)")
    add('typed-reset', "r.rebind({'d': pg.MISSING_VALUE, 'l': pg.MISSING_VALUE})")
  return ops


_ALPHABETS = {}


def alphabet(kind):
  if kind in _ALPHABETS:
    return _ALPHABETS[kind]
  ops = []
  if kind == 'mixed':
    ops += list_ops('r.l', 'r.d', 'l', True)
    ops += list_ops('r.o.y', 'r.d', 'oy', True)
    ops += list_ops('r.l[1].x', 'r.d.m', 'l1x')
    ops += list_ops('r.l[3]', 'r.d.m', 'l3')
    ops += dict_ops('r', 'r.d.m', 'r', True, keys=('d', 'l'))
    ops += dict_ops('r.d', 'r.l[0]', 'd', True, keys=('m', 'k'))
    ops += dict_ops('r.l[0]', 'r.d', 'l0', False, keys=('x', ''))
    ops += dict_ops('r.o.x', 'r.d', 'ox', True, keys=('p', ''))
    ops += object_ops('r.o', 'r.d', 'o', True)
    ops += object_ops('r.l[1]', 'r.d', 'l1', True)
  elif kind == 'rootlist':
    ops += list_ops('r', 'r[1][0]', 'r', True)
    ops += list_ops('r[1]', 'r[0]', 'r1', True)
    ops += dict_ops('r[0]', 'r[1]', 'r0', True, keys=('x', ''))
    ops += object_ops('r[2]', 'r[0]', 'r2', True)
  elif kind == 'typed':
    ops += list_ops('r.l', 'r.d.n', 'l', True)
    ops += list_ops('r.d.k', 'r.d.n', 'dk', True)
    ops += dict_ops('r.d', 'r.a.x', 'd', True, keys=('n', 'k'))
    ops += dict_ops('r.d.n', 'r.a.x', 'dn', True, keys=('m', ''))
    ops += dict_ops('r.l[0]', 'r.a.x', 'l0', True, keys=('v', ''))
    ops += object_ops('r', 'r.d.n', 'r', True, fields=('a', 'd'))
    ops += object_ops('r.a', 'r.d.n', 'a', True)
    # typed list wants dict elements with key 'v'
    for label, v in _vals('r.d.n'):
      w = "{'v': %s}" % v
      ops.append(Op(f'list.append-typed/{label}', f'r.l.append({w})', label in CORE_VALUES))
      ops.append(Op(f'list.insert-typed/{label}', f'r.l.insert(0, {w})', label in CORE_VALUES))
      ops.append(Op(f'list.setitem-typed/{label}', f'r.l[0] = {w}'))
      ops.append(Op(f'list.rebind-insert-typed/{label}', f'r.l.rebind({{0: pg.Insertion({w})}})'))
      ops.append(Op(f'list.slice-assign-typed/{label}', f'r.l[0:1] = [{w}, {w}]'))
      ops.append(Op(f'list.iadd-typed/{label}', f'r.l += [{w}]'))
      ops.append(Op(f'object.setattr-typed-list/{label}', f'r.l = [{w}, {w}]', label == 'fresh'))
      ops.append(Op(f'object.setattr-typed-dict/{label}', f"r.d = {{'n': {{'m': {v}}}, 'k': [{v}]}}", label == 'fresh'))
    ops.append(Op('list.insert-typed/symbolic-elem-with-parent', 'r.l.insert(0, r.l[1])', True))
    ops.append(Op('object.setattr-typed-list/in-tree-list', 'r.d.k = r.l'))
    ops.append(Op('object.setattr-typed-list/moved-list', 'r.l = ext.j'))
  ops += deep_rebind_ops(kind)
  ops += whole_tree_ops()
  # de-duplicate identical sources
  seen, out = set(), []
  for op in ops:
    if op.src not in seen:
      seen.add(op.src)
      out.append(op)
  _ALPHABETS[kind] = out
  return out


# --------------------------------------------------------------------------
# The oracle.
# --------------------------------------------------------------------------

Symbolic = pg.Symbolic
KeyPath = pg.KeyPath


def _nav(root_name, keys):
  return root_name + ''.join(f'.sym_getattr({k!r})' for k in keys)


def walk(root):
  """Yields (keys, container, node) for every symbolic node below root,
  following storage (sym_items); a node object met twice is yielded twice but
  entered once."""
  seen = {id(root)}
  stack = [((), root)]
  while stack:
    keys, node = stack.pop()
    try:
      items = list(node.sym_items())
    except Exception:  # pylint: disable=broad-except
      continue
    for k, v in items:
      if isinstance(v, Symbolic):
        ck = keys + (k,)
        yield ck, node, v
        if id(v) not in seen:
          seen.add(id(v))
          stack.append((ck, v))


def check_tree(root, name):
  """Returns (violations, nodes).

  violations: list of (kind, ident, message, assert_src)
  nodes: {id: node} of all symbolic nodes of the tree including the root.
  """
  out = []
  nodes = {id(root): root}
  places = {id(root): ()}
  if root.sym_parent is not None:
    out.append(('root-has-parent', (id(root), 'rp'),
                f'{name}.sym_parent is {root.sym_parent!r:.60}',
                f'assert {name}.sym_parent is None'))
  if root.sym_path != KeyPath():
    out.append(('root-path', (id(root), 'rpath'),
                f'{name}.sym_path == {str(root.sym_path)!r}',
                f'assert {name}.sym_path == pg.KeyPath(), {name}.sym_path'))
  parents_ok = not out
  for keys, container, v in walk(root):
    nav = _nav(name, keys)
    pnav = _nav(name, keys[:-1])
    if id(v) in nodes:
      out.append(('node-in-two-places', (id(v), 'dup'),
                  f'the same node object is stored at {_nav(name, places[id(v)])} and at {nav}',
                  f'assert {nav} is not {_nav(name, places[id(v)])}'))
      parents_ok = False
      continue
    nodes[id(v)] = v
    places[id(v)] = keys
    p = v.sym_parent
    if p is not container:
      kind = 'child-has-no-parent' if p is None else 'child-has-wrong-parent'
      out.append((kind, (id(v), 'parent'),
                  f'{nav}.sym_parent is {("None" if p is None else type(p).__name__ + "@" + str(p.sym_path))}, '
                  f'expected the container {pnav}',
                  f'assert {nav}.sym_parent is {pnav}, {nav}.sym_parent'))
      parents_ok = False
    want = KeyPath(list(keys))
    if v.sym_path != want:
      out.append(('stale-path', (id(v), 'path'),
                  f'{nav}.sym_path == {str(v.sym_path)!r}, stored at {str(want)!r}',
                  f'assert str({nav}.sym_path) == {str(want)!r}, {nav}.sym_path'))
    try:
      got = root.sym_get(want)
      ok = got is v
      why = f'returned another object ({got!r:.50})'
    except Exception as e:  # pylint: disable=broad-except
      ok, why = False, f'raised {type(e).__name__}: {e}'
    if not ok:
      out.append(('lookup-misses-node', (id(v), 'lookup'),
                  f'{name}.sym_get({str(want)!r}) {why}',
                  f'assert {name}.sym_get({str(want)!r}) is {nav}'))
  if parents_ok:
    for i, v in nodes.items():
      try:
        sr = v.sym_root
      except Exception:  # pylint: disable=broad-except
        sr = None
      if sr is not root:
        nav = _nav(name, places[i])
        out.append(('sym_root-wrong', (i, 'root'),
                    f'{nav}.sym_root is not {name}',
                    f'assert {nav}.sym_root is {name}'))
        break
  return out, nodes, places


TREE_KINDS = ('root-has-parent', 'root-path', 'node-in-two-places',
              'child-has-no-parent', 'child-has-wrong-parent', 'stale-path',
              'lookup-misses-node', 'sym_root-wrong')


class _Hang(BaseException):
  pass


class _Watchdog:
  """SIGALRM based guard against non-terminating calls (main thread only)."""

  def __init__(self, seconds):
    self.seconds = seconds
    self.active = (threading.current_thread() is threading.main_thread()
                   and hasattr(signal, 'setitimer'))
    self.old = None

  def __enter__(self):
    if self.active:
      def _raise(*_):
        raise _Hang()
      self.old = signal.signal(signal.SIGALRM, _raise)
    return self

  def arm(self):
    if self.active:
      signal.setitimer(signal.ITIMER_REAL, self.seconds)

  def disarm(self):
    if self.active:
      signal.setitimer(signal.ITIMER_REAL, 0)

  def __exit__(self, *a):
    if self.active:
      signal.setitimer(signal.ITIMER_REAL, 0)
      signal.signal(signal.SIGALRM, self.old)
    return False


_ENV_BASE = {'pg': pg, 'A': A, 'B': B, 'copy': __import__('copy')}
_SETUP_CODE = {k: compile(v, f'<tree {k}>', 'exec') for k, v in TREES.items()}
ROOT_NAMES = ('r', 'r0', 'ext')


def _roots(env):
  out = []
  for n in ROOT_NAMES:
    v = env.get(n)
    if isinstance(v, Symbolic) and all(v is not o for _, o in out):
      out.append((n, v))
  return out


def _snapshot(env):
  """{id: (node, root_name, keys)} of all nodes of all roots + violation keys."""
  nodes, vio = {}, {}
  for n, root in _roots(env):
    v, ns, places = check_tree(root, n)
    for x in v:
      vio[x[1]] = x
    for i, node in ns.items():
      nodes.setdefault(i, (node, n, places[i]))
  return nodes, vio


def run_history(kind, ops, wd=None):
  """Runs a history; returns a list per step of (op, new_violations, broke_tree).

  new_violations: list of (kind, message, witness_tail) that appear at that
  step.  Stops after the first step that breaks a tree.
  """
  env = dict(_ENV_BASE)
  exec(_SETUP_CODE[kind], env)  # pylint: disable=exec-used
  before_nodes, before_vio = _snapshot(env)
  steps = []
  for idx, op in enumerate(ops):
    raised = None
    if wd is not None:
      wd.arm()
    try:
      exec(op.code, env)  # pylint: disable=exec-used
    except _Hang:
      steps.append((op, [('non-terminating', 'the call did not return within the time limit', 'raise AssertionError("did not terminate")', None)], True, None))
      return steps
    except RecursionError as e:
      raised = e
    except Exception as e:  # pylint: disable=broad-except
      raised = e
    finally:
      if wd is not None:
        wd.disarm()
    after_nodes, after_vio = _snapshot(env)
    new = []
    broke = False
    for key, x in after_vio.items():
      if key not in before_vio:
        new.append((x[0], x[2], x[3], None))
        broke = True
    # Removed / replaced nodes.
    removed = [(i, rec) for i, rec in before_nodes.items() if i not in after_nodes]
    for i, (node, rname, keys) in removed:
      p = node.sym_parent
      if p is not None and id(p) in after_nodes:
        _, prn, pkeys = after_nodes[id(p)]
        new.append(('removed-node-keeps-parent',
                    f'node formerly at {_nav(rname, keys)} is no longer stored in the tree but its '
                    f'sym_parent is still the tree node {_nav(prn, pkeys)}',
                    f'assert _x.sym_parent is not {_nav(prn, pkeys)}, "removed node still reports a tree node as parent"',
                    f'_x = {_nav(rname, keys)}'))
      elif p is None:
        v, _, _ = check_tree(node, '_x')
        v = [x for x in v if x[0] in ('root-path', 'stale-path')]
        if v:
          new.append(('detached-node-stale-path', v[0][2], v[0][3],
                      f'_x = {_nav(rname, keys)}'))
    steps.append((op, new, broke, raised))
    if broke:
      break
    before_nodes, before_vio = after_nodes, after_vio
  return steps


def witness_for(kind, ops, upto, tail, pre):
  lines = [PRELUDE, TREES[kind]]
  for i, op in enumerate(ops[:upto + 1]):
    if i == upto and pre:
      lines.append(pre + '\n')
    # Operations may legitimately raise (bad index, type error, sealed...).
    if i == upto:
      lines.append('try:\n' + textwrap.indent(op.src, '  ') + '\nexcept Exception: pass\n')
    else:
      lines.append('try:\n' + textwrap.indent(op.src, '  ') + '\nexcept Exception: pass\n')
  lines.append(tail + '\n')
  return ''.join(lines)


def _compact_witness(kind, ops, upto, tail, pre):
  """Same as witness_for but without the classes that are not needed."""
  w = witness_for(kind, ops, upto, tail, pre)
  if 'B(' not in w:
    a = w.index('@pg.members([\n  (\'l\'')
    b = w.index('class B(pg.Object):\n  pass\n') + len('class B(pg.Object):\n  pass\n')
    w = w[:a] + w[b:]
  return w


def record_history(rec, kind, ops, steps, seen_prefix_len=0):
  """Records the outcome of steps[seen_prefix_len:]."""
  for idx in range(seen_prefix_len, len(steps)):
    op, new, broke, raised = steps[idx]
    key = (kind,) + tuple(o.src for o in ops[:idx + 1])
    if not new:
      rec.case(f'{op.cls}', key, True)
      continue
    kinds_done = set()
    for vk, msg, tail, pre in new:
      if vk in kinds_done:
        continue
      kinds_done.add(vk)
      rec.case(f'{op.cls}/{vk}', key, False,
               message=f'[{kind}] after `{op.src}`: {msg}',
               witness=_compact_witness(kind, ops, idx, tail, pre))


# --------------------------------------------------------------------------
# Drivers.
# --------------------------------------------------------------------------

def _enumerate(rec, kind, firsts, seconds, thirds=None, wd=None):
  """All histories a / a,b / a,b,c with shared first-step bookkeeping."""
  for a in firsts:
    steps = run_history(kind, [a], wd)
    record_history(rec, kind, [a], steps)
    if steps[-1][2]:
      continue
    for b in seconds:
      steps = run_history(kind, [a, b], wd)
      record_history(rec, kind, [a, b], steps, 1)
      if thirds is None or len(steps) < 2 or steps[-1][2]:
        continue
      for c in thirds:
        steps = run_history(kind, [a, b, c], wd)
        record_history(rec, kind, [a, b, c], steps, 2)


def drv_histories_exhaustive(tier, seed):
  """Exhaustive short histories over the full operation alphabet."""
  del seed
  quick = tier == 'quick'
  rec = Recorder(
      'C01', 'tree well-formedness after every step of short histories',
      scope=('trees: mixed Dict/List/Object, root List, typed Object; '
             'alphabet = every list/dict/object mutator x 8 value classes x '
             'up to 4 targets per tree (%s ops); all histories of length 1; '
             'length 2: %s; length 3: %s' % (
                 '/'.join(str(len(alphabet(k))) for k in TREES),
                 'all x core' if quick else 'all x all (mixed: all x core + core x all)',
                 'none' if quick else 'core-small^3')))
  with _Watchdog(10) as wd:
    for kind in TREES:
      ops = alphabet(kind)
      core = [o for o in ops if o.core]
      if quick:
        # length 1: all; length 2: core x core.
        _enumerate(rec, kind, ops, [], wd=wd)
        small = core[::3] if kind == 'mixed' else core[::2]
        _enumerate(rec, kind, core, small, wd=wd)
      else:
        _enumerate(rec, kind, ops, core, wd=wd)
        _enumerate(rec, kind, core, [o for o in ops if not o.core], wd=wd)
  return rec.result()


def drv_histories_random(tier, seed):
  """Seeded random longer histories (length 3..7), checked after every step."""
  quick = tier == 'quick'
  n = 500 if quick else 12000
  rec = Recorder(
      'C01', 'tree well-formedness after every step of random histories',
      scope=f'{n} seeded histories per tree of length 3..7 over the full alphabet '
            '(ops known to break the tree on the unchanged code are drawn with low weight)')
  with _Watchdog(10) as wd:
    for kind in TREES:
      ops = alphabet(kind)
      r = rng(seed, 'c01-random-' + kind)
      # Down-weight operations that break the tree at step one, so that
      # histories get long; they are still drawn.
      breaking = set()
      for o in ops:
        st = run_history(kind, [o], wd)
        if st[-1][2]:
          breaking.add(o.src)
      good = [o for o in ops if o.src not in breaking]
      bad = [o for o in ops if o.src in breaking]
      for _ in range(n):
        k = r.randint(3, 7)
        hist = [r.choice(bad) if (bad and r.random() < 0.03) else r.choice(good)
                for _ in range(k)]
        steps = run_history(kind, hist, wd)
        if any(s[1] for s in steps):
          hist, steps = _shrink(kind, hist, steps, wd)
        record_history(rec, kind, hist, steps)
  return rec.result()


def _sig(steps):
  s = steps[-1]
  return (s[0].src, tuple(sorted({v[0] for v in s[1]})))


def _shrink(kind, hist, steps, wd):
  """Greedy removal of steps that are not needed for the last violation."""
  # Cut at the first violating step.
  first = next(i for i, s in enumerate(steps) if s[1])
  hist = hist[:first + 1]
  steps = steps[:first + 1]
  want = _sig(steps)
  i = 0
  while i < len(hist) - 1:
    cand = hist[:i] + hist[i + 1:]
    st = run_history(kind, cand, wd)
    if len(st) == len(cand) and st[-1][1] and _sig(st) == want and not any(s[1] for s in st[:-1]):
      hist, steps = cand, st
    else:
      i += 1
  return hist, steps


_SELF_INSERTION_CASES = [
    ('dict.setattr/self', "d = pg.Dict()\nroot = d", "d.a = d"),
    ('dict.setitem/ancestor-below-descendant', "d = pg.Dict(a=pg.Dict(b=pg.Dict()))\nroot = d", "d.a.b['c'] = d"),
    ('list.append/self', "l = pg.List([1])\nroot = l", "l.append(l)"),
    ('list.setitem/ancestor-below-descendant', "l = pg.List([pg.Dict(x=pg.List([0]))])\nroot = l", "l[0].x[0] = l"),
    ('list.insert/ancestor-below-descendant', "l = pg.List([pg.Dict(x=pg.List([0]))])\nroot = l", "l[0].x.insert(0, l)"),
    ('object.setattr/self', "o = A(x=1)\nroot = o", "o.x = o"),
    ('object.rebind/ancestor-below-descendant', "o = A(x=pg.Dict(y=1))\nroot = o", "o.rebind({'x.y': o})"),
    ('dict.update/self', "d = pg.Dict(a=1)\nroot = d", "d.update({'b': d})"),
    ('dict.rebind/detached-subtree-root-below-itself', "d = pg.Dict(a=pg.Dict(b=pg.Dict()))\nroot = d.pop('a')\nroot.sym_setparent(None)", "root.b.c = root"),
]

_SELF_INSERTION_CHECK = '''
import signal, sys
class _Hang(BaseException): pass
def _h(*a): raise _Hang()
signal.signal(signal.SIGALRM, _h)
def _nodes(root):
  seen, stack, out = {id(root)}, [((), root)], []
  while stack:
    keys, n = stack.pop()
    for k, v in n.sym_items():
      if isinstance(v, pg.Symbolic):
        out.append((keys + (k,), n, v))
        if id(v) not in seen:
          seen.add(id(v)); stack.append((keys + (k,), v))
  return out
def _wellformed(root):
  ids = {id(root)}
  assert root.sym_parent is None, 'root got a parent'
  for keys, c, v in _nodes(root):
    assert id(v) not in ids, 'node stored below itself / in two places at %r' % (keys,)
    ids.add(id(v))
    assert v.sym_parent is c, 'wrong parent at %r' % (keys,)
    assert v.sym_path == pg.KeyPath(list(keys)), 'wrong path at %r' % (keys,)
    assert root.sym_get(pg.KeyPath(list(keys))) is v
'''


def _self_insertion_script(setup, stmt, limit):
  return (PRELUDE + _SELF_INSERTION_CHECK + setup + '\n'
          + f'signal.setitimer(signal.ITIMER_REAL, {limit})\n'
          + 'try:\n' + textwrap.indent(stmt, '  ') + '\n'
          + 'except _Hang:\n  raise AssertionError("inserting a node below itself does not terminate")\n'
          + 'except RecursionError:\n  raise AssertionError("inserting a node below itself overflows the stack")\n'
          + 'except Exception: pass\n'
          + 'finally:\n  signal.setitimer(signal.ITIMER_REAL, 0)\n'
          + f'signal.setitimer(signal.ITIMER_REAL, {limit})\n'
          + 'try:\n  _wellformed(root)\n'
          + 'except _Hang:\n  raise AssertionError("tree walk does not terminate: parent cycle")\n'
          + 'finally:\n  signal.setitimer(signal.ITIMER_REAL, 0)\n')


def drv_self_insertion(tier, seed):
  """Inserting a node below itself: must terminate and leave a tree (subprocess)."""
  del seed
  limit = 2 if tier == 'quick' else 5
  rec = Recorder(
      'C01', 'insertion of a node below itself / below its own descendant',
      scope=f'{len(_SELF_INSERTION_CASES)} cases, each in a subprocess; the call must return or '
            f'raise within {limit}s and leave a well-formed tree')
  env = dict(os.environ)
  env['PYTHONPATH'] = os.pathsep.join(p for p in sys.path if p)
  procs = []
  for cid, setup, stmt in _SELF_INSERTION_CASES:
    script = _self_insertion_script(setup, stmt, limit)
    p = subprocess.Popen([sys.executable, '-c', script], env=env,
                         stdout=subprocess.PIPE, stderr=subprocess.PIPE)
    procs.append((cid, stmt, script, p))
  for cid, stmt, script, p in procs:
    try:
      _, err = p.communicate(timeout=60)
      ok = p.returncode == 0
      msg = err.decode(errors='replace').strip().splitlines()[-1:] or ['']
      msg = msg[0]
    except subprocess.TimeoutExpired:
      p.kill()
      p.communicate()
      ok, msg = False, 'subprocess did not finish within 60s'
    kindmsg = 'non-terminating' if 'terminate' in msg else (
        'stack-overflow' if 'overflows' in msg else 'malformed-tree')
    rec.case(f'self-insertion/{cid}' + ('' if ok else '/' + kindmsg), stmt, ok,
             message=msg, witness=_self_insertion_witness(script))
  return rec.result()


def _self_insertion_witness(script):
  # The witness runs the script in a subprocess so that replaying it cannot
  # hang the caller.
  return ('import subprocess, sys\n'
          f'p = subprocess.run([sys.executable, "-c", {script!r}], capture_output=True, timeout=120)\n'
          'assert p.returncode == 0, p.stderr.decode()[-300:]\n')


DRIVERS = [drv_histories_exhaustive, drv_histories_random, drv_self_insertion]


def replay(rec):
  """Re-executes rec['witness']; returns (ok, message)."""
  try:
    exec(rec['witness'], {})  # pylint: disable=exec-used
    return True, 'witness passes'
  except Exception as e:  # pylint: disable=broad-except
    return False, f'{type(e).__name__}: {e}'
