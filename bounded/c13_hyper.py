"""C13 bounded drivers: hyper values -- decode/encode inverse, side-effect free.

The oracle is an independent reference model of search-space templates: a
template is described by a small descriptor tree (`N`), from which we build
(a) the pyglove hyper value, (b) all DNAs that are valid per the documented DNA
layout, and (c) for every DNA the concrete value the template prescribes.  The
real `decode` / `encode` / `pg.iter` / `pg.materialize` are compared with it.

Value specs bound to placeholders are modelled as well (`S`, `norm`): a spec
may normalise the candidate it accepts (built-in converters int->float,
str<->KeyPath, int<->datetime; defaults of dict / object fields), so the value
the template prescribes is the normalised candidate and encoding it must give
back the DNA (drv_typed_roundtrip).

drv_candidate_kinds covers the kinds of candidates / constants for which a
shortcut in encode's structural comparison goes wrong (empty containers and
containers that are a sub-container of a sibling candidate; symbolic objects
whose Python `==` is not the symbolic comparison).  check_template also
encodes values that differ from a decoded value at one place and checks that
the template is untouched whether or not encode refuses them.  drv_binding
offers the same placeholder object to fields repeatedly (after a refusal, after
an acceptance, to another field) and changes placeholders after binding: a
template that exists afterwards must decode every DNA to an accepted value.

drv_partial_and_refs covers template members that are neither constants nor
placeholders: partial objects (unfilled required fields hold typed missing
values), pg.Ref members (the referenced object is neither copied into nor moved
under the decoded value) and values inferred from the parent chain.
"""
import datetime
import itertools
import json
import random
import re
import warnings

import pyglove as pg
from pyvc.bounded import Recorder, rng, outcome

# ---------------------------------------------------------------------------
# Classes used inside templates (typed fields = bound value specs).
# ---------------------------------------------------------------------------


class A(pg.Object):
  x: pg.typing.Int(min_value=0, max_value=9)
  y: pg.typing.Any(default=None)


class A2(A):
  pass


class B(pg.Object):
  p: pg.typing.List(pg.typing.Int(), max_size=3)
  q: pg.typing.Float(min_value=0.0, max_value=1.0)
  r: pg.typing.Union([pg.typing.Str(), pg.typing.Int()])
  s: pg.typing.Dict([('k', pg.typing.Int()), ('l', pg.typing.Str())])


class IntSeq(pg.hyper.CustomHyper):
  """Custom hyper: genome 'i,j,..' <-> [i, j, ..]; sweeps '0'..'n-1'."""
  n: int = 3

  def custom_decode(self, dna):
    return [int(v) for v in dna.value.split(',') if v != '']

  def custom_encode(self, value):
    if (not isinstance(value, list)
        or not all(type(v) is int for v in value)):  # pylint: disable=unidiomatic-typecheck
      raise ValueError('IntSeq encodes lists of int only.')
    return pg.DNA(','.join(str(v) for v in value))

  def next_dna(self, dna=None):
    if dna is None:
      return pg.DNA('0')
    i = int(dna.value) + 1
    return pg.DNA(str(i)) if i < self.n else None

  def random_dna(self, random_generator=None, previous_dna=None):
    return pg.DNA(str((random_generator or random).randint(0, self.n - 1)))


def nt(k, v, p):  # node transform for evolvables (module level => serializable)
  del k, v, p
  return 5


# Symbolic classes whose Python `==` is NOT the symbolic (structural)
# comparison.  Their instances are ordinary symbolic values: pg.eq compares
# them field by field, so candidates made of them are distinguishable exactly
# when their fields differ.


@pg.symbolize
class SC:
  """pg.symbolize-d plain class: `==` is object identity."""

  def __init__(self, k, m=0):
    self.k = k
    self.m = m


class NE(pg.Object):
  """pg.Object that opts out of symbolic comparison: `==` is identity."""
  use_symbolic_comparison = False
  k: pg.typing.Any()
  m: pg.typing.Any(default=None)


class WE(pg.Object):
  """pg.Object whose own `==` is broader than pg.eq (same class => equal)."""
  use_symbolic_comparison = False
  k: pg.typing.Any()

  def __eq__(self, other):
    return isinstance(other, WE)

  def __ne__(self, other):
    return not self.__eq__(other)

  def __hash__(self):
    return 0


# Classes with REQUIRED fields, used to build PARTIAL objects (Cls.partial(..)):
# an unfilled required field holds a typed missing value.  Partial objects are
# ordinary members of templates (placeholders in their filled fields, constant
# siblings, candidates).


class PP(pg.Object):
  f: pg.typing.Int()
  k: pg.typing.Any()
  d: pg.typing.Int(default=3)


class PN(pg.Object):
  """Required fields of three kinds: Any, nested dict schema, object."""
  k: pg.typing.Any()
  n: pg.typing.Dict([('u', pg.typing.Int()), ('w', pg.typing.Int(default=1))])
  o: pg.typing.Object(PP)


@pg.functor()
def PF(a, b, c=1):
  """Functor: partially bound by construction."""
  return (a, b, c)


class RO(pg.Object):
  """Typed field that may hold a pg.Ref to an `A`."""
  o: pg.typing.Object(A)
  k: pg.typing.Any(default=None)


# Required fields (dotted: key of a nested dict schema) by class: the model's
# own statement of which fields a partial object may leave unfilled.
REQ = {PP: ('f', 'k'), PN: ('k', 'n.u', 'o'), PF: ('a', 'b'), SC: ('k',)}
# Defaults the schema fills in for fields not given (see fill_defaults).
P_DEFAULTS = {PP: {'d': 3}, PN: {'n': {'w': 1}}, PF: {'c': 1}}

# Targets of pg.Ref members.  SH(i) is memoised so that the template and the
# expected values of one witness refer to the SAME object (two pg.Ref are equal
# only if they reference the same object); sh_reset() gives every template
# fresh targets.
_SH = {}
_SH_MAKERS = [
    lambda: A(x=1, y='s0'),
    lambda: pg.Dict(q=1),
    lambda: pg.List([7, 8]),
]


def SH(i):
  if i not in _SH:
    _SH[i] = _SH_MAKERS[i]()
  return _SH[i]


def sh_reset():
  _SH.clear()


IMPORT = ('from bounded.c13_hyper import A, A2, B, IntSeq, nt, SC, NE, WE, PP, '
          'PN, PF, RO, SH\n')
IMPORT_SV = 'from bounded.c13_hyper import spec_violation\n'
_O_DEFAULTS = [(A, {'y': None}), (SC, {'m': 0}), (NE, {'m': None}),
               (RO, {'k': None})]

# ---------------------------------------------------------------------------
# Value-spec descriptors: a small independent model of what a bound value spec
# prescribes for a (candidate) value -- which values it converts (documented
# built-in converters int->float, int<->datetime, str<->KeyPath), which
# defaults it fills in.  `norm(sd, model_value)` is the value the template
# prescribes after the spec has accepted the candidate.
# ---------------------------------------------------------------------------

NODEF = ('<no default>',)


class S:
  """Value-spec descriptor."""

  def __init__(self, kind, *args, default=NODEF):
    self.kind = kind
    self.args = args
    self.default = default


_S_SCALAR = {
    'int': 'pg.typing.Int(%s)', 'float': 'pg.typing.Float(%s)',
    'str': 'pg.typing.Str(%s)', 'bool': 'pg.typing.Bool(%s)',
    'any': 'pg.typing.Any(%s)',
}


def lit(v):
  """Source text of a leaf value."""
  if isinstance(v, pg.KeyPath):
    return f'pg.KeyPath.parse({str(v)!r})'
  if isinstance(v, tuple):
    return '(%s)' % ''.join(lit(x) + ', ' for x in v)
  return repr(v)


def s_src(sd):
  k = sd.kind
  if k in _S_SCALAR:
    return _S_SCALAR[k] % ('' if sd.default is NODEF else f'default={lit(sd.default)}')
  if k == 'keypath':
    return 'pg.typing.Object(pg.KeyPath)'
  if k == 'datetime':
    return 'pg.typing.Object(datetime.datetime)'
  if k == 'none':
    return s_src(sd.args[0]) + '.noneable()'
  if k == 'union':
    return 'pg.typing.Union([%s])' % ', '.join(s_src(x) for x in sd.args)
  if k == 'list':
    return f'pg.typing.List({s_src(sd.args[0])})'
  if k == 'tuple':
    return 'pg.typing.Tuple([%s])' % ', '.join(s_src(x) for x in sd.args)
  if k == 'dict':
    return 'pg.typing.Dict([%s])' % ', '.join(
        f'({key!r}, {s_src(x)})' for key, x in sd.args)
  if k == 'obj':
    return f'pg.typing.Object({sd.args[0].__name__})'
  raise AssertionError(k)


def s_pg(sd):
  env = dict(pg=pg, datetime=datetime)
  env.update(HOSTS)
  return eval(s_src(sd), env)  # pylint: disable=eval-used


def _tagged(mv):
  return isinstance(mv, tuple) and bool(mv) and mv[0] in (
      'O', 'H', 'R', 'PR', 'INF')


def s_accepts_exactly(sd, mv):
  """Does the spec take the value as it is (no conversion)?"""
  k = sd.kind
  if k == 'any':
    return True
  if k == 'none':
    return mv is None or s_accepts_exactly(sd.args[0], mv)
  if k == 'union':
    return any(s_accepts_exactly(x, mv) for x in sd.args)
  t = {'int': int, 'float': float, 'str': str, 'bool': bool,
       'keypath': pg.KeyPath, 'datetime': datetime.datetime, 'list': list,
       'tuple': tuple, 'dict': dict}.get(k)
  if k == 'obj':
    return _tagged(mv) and mv[0] == 'O' and issubclass(mv[1], sd.args[0])
  if _tagged(mv):
    return False
  return type(mv) is t  # pylint: disable=unidiomatic-typecheck


def norm(sd, mv):
  """The value a field of spec `sd` holds after it accepted `mv`."""
  if _tagged(mv):
    if mv[0] != 'O':
      return mv                      # placeholders / references stay
    fields = CLS_FIELDS.get(mv[1])
    if fields is None:               # classes A, A2, B: nothing is converted
      return ('O', mv[1], {k: norm(S('any'), x) for k, x in mv[2].items()})
    out = {}
    for key, fsd in fields:
      if key in mv[2]:
        out[key] = norm(fsd, mv[2][key])
      else:
        assert fsd.default is not NODEF, key
        out[key] = fsd.default
    return ('O', mv[1], out)
  k = sd.kind
  if k == 'none':
    return None if mv is None else norm(sd.args[0], mv)
  if k == 'union':
    # Unambiguous unions only: a member that takes the value as it is wins,
    # otherwise exactly one member can convert it.
    for x in sd.args:
      if s_accepts_exactly(x, mv):
        return norm(x, mv)
    conv = [x for x in sd.args if not strict_eq(norm(x, mv), mv)]
    assert len(conv) == 1, (s_src(sd), mv)
    return norm(conv[0], mv)
  if k == 'float':
    return float(mv) if type(mv) is int else mv  # pylint: disable=unidiomatic-typecheck
  if k == 'int':
    if isinstance(mv, datetime.datetime):      # documented: UTC timestamp
      return int((mv - datetime.datetime(1970, 1, 1)).total_seconds())
    return mv
  if k == 'datetime':
    if type(mv) is int:  # pylint: disable=unidiomatic-typecheck
      return datetime.datetime(1970, 1, 1) + datetime.timedelta(seconds=mv)
    return mv
  if k == 'keypath':
    return pg.KeyPath.parse(mv) if isinstance(mv, str) else mv
  if k == 'str':
    return str(mv) if isinstance(mv, pg.KeyPath) else mv
  if k in ('bool',):
    return mv
  if k == 'any':
    if isinstance(mv, dict):
      return {key: norm(sd, x) for key, x in mv.items()}
    if isinstance(mv, list):
      return [norm(sd, x) for x in mv]
    return mv
  if k == 'list':
    assert isinstance(mv, list), mv
    return [norm(sd.args[0], x) for x in mv]
  if k == 'tuple':
    assert isinstance(mv, tuple) and len(mv) == len(sd.args), mv
    return tuple(norm(x, y) for x, y in zip(sd.args, mv))
  if k == 'dict':
    assert isinstance(mv, dict), mv
    out = {}
    for key, fsd in sd.args:
      if key in mv:
        out[key] = norm(fsd, mv[key])
      elif fsd.default is not NODEF:
        out[key] = fsd.default
      # else: a required key left unfilled (partial dict): stays missing.
    assert set(mv) <= set(out), mv
    return out
  raise AssertionError(k)


# Host classes: TH_<name>(v: <spec>, w: Int = 7), one per converting spec.
HOSTS = {}
CLS_FIELDS = {}


def _host(name, sd):
  cname = 'TH_' + name
  cls = pg.members([('v', s_pg(sd)), ('w', pg.typing.Int(default=7))])(
      type(cname, (pg.Object,), {'__module__': __name__}))
  HOSTS[cname] = cls
  CLS_FIELDS[cls] = [('v', sd), ('w', S('int', default=7))]
  globals()[cname] = cls
  return cls


S_ANY = S('any')
S_FLOAT = S('float')
S_DFL = lambda e: S('dict', ('k', e), ('l', S('str', default='q')))  # pylint: disable=unnecessary-lambda-assignment

# ---------------------------------------------------------------------------
# Descriptor tree.
# ---------------------------------------------------------------------------


class N:
  """Descriptor node."""

  def __init__(self, kind, **kw):
    self.kind = kind
    self.name = None
    self.__dict__.update(kw)


def C(v):
  return N('c', v=v)


def _n(x):
  if isinstance(x, N):
    return x
  if isinstance(x, dict):
    return D(**x)
  if isinstance(x, list):
    return L(x)
  return C(x)


def D(**kw):
  return N('d', items=[(k, _n(v)) for k, v in kw.items()], spec=None,
           plain=False, partial=False)


def Dplain(**kw):
  """A built-in dict (for a dict-typed field of a partial object)."""
  n = D(**kw)
  n.plain = True
  return n


def Dpartial(sd, **kw):
  """pg.Dict.partial(.., value_spec=sd): required keys may be left out."""
  n = with_spec(D(**kw), sd)
  n.partial = True
  return n


def L(xs):
  return N('l', items=[_n(x) for x in xs], spec=None)


def with_spec(n, sd):
  """Binds the value-spec descriptor `sd` (see S below) to a D / L node."""
  n.spec = sd
  return n


def O(cls, **kw):
  # Fields in schema order (the order pyglove stores/traverses them).
  order = [str(k) for k in cls.__schema__.fields.keys()]
  for base, dflt in _O_DEFAULTS:
    if issubclass(cls, base):
      for k, d in dflt.items():
        kw.setdefault(k, d)
  return N('o', cls=cls, items=[(k, _n(kw[k])) for k in order if k in kw])


def One(cands):
  return N('one', cands=[_n(c) for c in cands])


def Many(k, cands, distinct=True, sorted=False):  # pylint: disable=redefined-builtin
  return N('many', k=k, cands=[_n(c) for c in cands], distinct=distinct,
           sorted=sorted)


def F(lo, hi, scale=None):
  return N('f', lo=float(lo), hi=float(hi), scale=scale)


def Cu(n=3):
  return N('cu', n=n)


EVO_INIT = {'a': 1, 'b': [1, 2]}
EVO_GENOMES = [
    {'a': 1, 'b': [1, 2]}, {'a': 5, 'b': [1]}, {'a': 1, 'b': []},
    [1, {'z': 'q'}],
]


def Ev():
  return N('ev')


def Ref(*path):
  return N('ref', path=list(path))


def PR(i):
  """pg.Ref(SH(i)): a reference to a shared object outside the template."""
  return N('pr', target=i)


def Inf():
  """pg.symbolic.ValueFromParentChain(): value inferred from the parents."""
  return N('inf')


_ABSENT = ('<absent>',)


def _req_missing(cls, get):
  """Is a required field of `cls` unfilled?  get(key) -> child, a lookup
  function (nested dict) or _ABSENT."""
  for path in REQ.get(cls, ()):
    keys = path.split('.')
    cur = get(keys[0])
    if cur is _ABSENT:
      return True
    for k in keys[1:]:
      cur = cur(k) if callable(cur) else _ABSENT
      if cur is _ABSENT:
        return True
  return False


def node_partial(n):
  """Does the 'o' node (or an object below it) leave a required field out?"""
  if n.kind == 'o':
    items = dict(n.items)
    def get(key):
      c = items.get(key, _ABSENT)
      if c is not _ABSENT and c.kind == 'd':
        sub = dict(c.items)
        return lambda k: sub.get(k, _ABSENT)
      return c
    if _req_missing(n.cls, get):
      return True
  return any(node_partial(c) for c in children(n))


HYPER = ('one', 'many', 'f', 'cu', 'ev')


def children(n):
  if n.kind in ('d', 'o'):
    return [c for _, c in n.items]
  if n.kind == 'l':
    return n.items
  if n.kind in ('one', 'many'):
    return n.cands
  return []


def walk(n):
  yield n
  for c in children(n):
    yield from walk(c)


def assign_names(root):
  i = 0
  for n in walk(root):
    if n.kind in HYPER:
      n.name = f'h{i}'
      i += 1
  return root


def hyper_names(root):
  return [n.name for n in walk(root) if n.kind in HYPER]


def many_mode(n):
  return 'manyof-' + ('D' if n.distinct else 'd') + ('S' if n.sorted else 's')


def signature(root, sel):
  kinds = set()
  cond = False
  for n in walk(root):
    if n.kind == 'one':
      kinds.add('oneof')
    elif n.kind == 'many':
      kinds.add(many_mode(n))
    elif n.kind == 'f':
      kinds.add('float')
    elif n.kind == 'cu':
      kinds.add('custom')
    elif n.kind == 'ev':
      kinds.add('evolvable')
    elif n.kind == 'ref':
      kinds.add('ref')
    elif n.kind == 'pr':
      kinds.add('pgref')
    elif n.kind == 'inf':
      kinds.add('inferred')
    if n.kind in ('one', 'many'):
      for c in n.cands:
        if any(m.kind in HYPER for m in walk(c)):
          cond = True
  s = '+'.join(sorted(kinds)) if len(kinds) <= 2 else 'mixed'
  if not kinds:
    s = 'constant'
  if cond:
    s += '.cond'
  if sel is not None:
    s += '.where'
  return s


# ---------------------------------------------------------------------------
# Build pyglove value / source text.
# ---------------------------------------------------------------------------


def build(n):
  k = n.kind
  if k == 'c':
    return n.v
  if k == 'd':
    kw = {} if n.spec is None else {'value_spec': s_pg(n.spec)}
    if n.plain:
      return {key: build(c) for key, c in n.items}
    if n.partial:
      return pg.Dict.partial({key: build(c) for key, c in n.items}, **kw)
    return pg.Dict({key: build(c) for key, c in n.items}, **kw)
  if k == 'l':
    kw = {} if n.spec is None else {'value_spec': s_pg(n.spec)}
    return pg.List([build(c) for c in n.items], **kw)
  if k == 'o':
    if n.cls in REQ and node_partial(n):
      return n.cls.partial(**{key: build(c) for key, c in n.items})
    return n.cls(**{key: build(c) for key, c in n.items})
  if k == 'pr':
    return pg.Ref(SH(n.target))
  if k == 'inf':
    return pg.symbolic.ValueFromParentChain()
  if k == 'one':
    return pg.oneof([build(c) for c in n.cands], name=n.name)
  if k == 'many':
    return pg.manyof(n.k, [build(c) for c in n.cands], distinct=n.distinct,
                     sorted=n.sorted, name=n.name)
  if k == 'f':
    return pg.floatv(n.lo, n.hi, scale=n.scale, name=n.name)
  if k == 'cu':
    return IntSeq(n=n.n, name=n.name)
  if k == 'ev':
    return pg.evolve(pg.Dict(EVO_INIT), nt, name=n.name)
  if k == 'ref':
    return pg.hyper.ValueReference(reference_paths=[pg.KeyPath(n.path)])
  raise AssertionError(k)


def src(n, root=True):
  k = n.kind
  if k == 'c':
    return lit(n.v)
  if k == 'd':
    args = [f'{key}={src(c, False)}' for key, c in n.items]
    if n.plain:
      return 'dict(%s)' % ', '.join(args)
    if n.spec is not None:
      args.append(f'value_spec={s_src(n.spec)}')
    if n.partial:
      return 'pg.Dict.partial(%s)' % ', '.join(args)
    return 'pg.Dict(%s)' % ', '.join(args)
  if k == 'l':
    body = '[%s]' % ', '.join(src(c, False) for c in n.items)
    if n.spec is not None:
      return f'pg.List({body}, value_spec={s_src(n.spec)})'
    return f'pg.List({body})' if root else body
  if k == 'o':
    ctor = n.cls.__name__ + (
        '.partial' if n.cls in REQ and node_partial(n) else '')
    return '%s(%s)' % (ctor, ', '.join(
        f'{key}={src(c, False)}' for key, c in n.items))
  if k == 'pr':
    return f'pg.Ref(SH({n.target}))'
  if k == 'inf':
    return 'pg.symbolic.ValueFromParentChain()'
  nm = f', name={n.name!r}' if n.name else ''
  if k == 'one':
    return 'pg.oneof([%s]%s)' % (', '.join(src(c, False) for c in n.cands), nm)
  if k == 'many':
    return 'pg.manyof(%d, [%s], distinct=%r, sorted=%r%s)' % (
        n.k, ', '.join(src(c, False) for c in n.cands), n.distinct, n.sorted, nm)
  if k == 'f':
    sc = f', scale={n.scale!r}' if n.scale else ''
    return f'pg.floatv({n.lo!r}, {n.hi!r}{sc}{nm})'
  if k == 'cu':
    return f'IntSeq(n={n.n}{nm})'
  if k == 'ev':
    return f'pg.evolve(pg.Dict({EVO_INIT!r}), nt{nm})'
  if k == 'ref':
    return f'pg.hyper.ValueReference(reference_paths=[pg.KeyPath({n.path!r})])'
  raise AssertionError(k)


def where_src(sel):
  if sel is None:
    return ''
  return ', where=lambda x: x.name in %r' % (sorted(sel),)


def where_fn(sel):
  if sel is None:
    return None
  s = frozenset(sel)
  return lambda x: x.name in s


def header(root):
  s = src(root)
  needs = any(t in s for t in ('A(', 'A2(', 'B(', 'IntSeq(', 'nt', 'SC(',
                               'NE(', 'WE(', 'SC.', 'PP', 'PN', 'PF', 'RO(',
                               'SH('))
  out = 'import pyglove as pg\n'
  if 'datetime.' in s:
    out += 'import datetime\n'
  if 'TH_' in s:
    out += 'from bounded.c13_hyper import %s\n' % ', '.join(
        sorted(set(re.findall(r'TH_\w+', s))))
  return out + (IMPORT if needs else '')


# ---------------------------------------------------------------------------
# Model values.
#   leaf python value | dict | list | ('O', cls, dict) | ('H', node, cands|None)
#   | ('R', path)
# DNA structs: (value, (children...)).
# ---------------------------------------------------------------------------


def is_sel(n, sel):
  return sel is None or n.name in sel


def tmpl(dl):
  return (None, tuple(dl))


def float_reps(n):
  reps = [n.lo, n.hi, (n.lo + n.hi) / 2.0]
  out = []
  for r in reps:
    if r not in out:
      out.append(r)
  return out


def cu_genomes(n):
  return [(str(i), [i]) for i in range(n.n)]


def ev_genomes():
  return [(json.dumps(x), x) for x in EVO_GENOMES]


def index_tuples(n):
  m = len(n.cands)
  r = range(m)
  if n.distinct and n.sorted:
    return list(itertools.combinations(r, n.k))
  if n.distinct:
    return list(itertools.permutations(r, n.k))
  if n.sorted:
    return list(itertools.combinations_with_replacement(r, n.k))
  return list(itertools.product(r, repeat=n.k))


def msize(n, sel, exact=False):
  """Number of (dna, value) pairs enum() yields.  exact: None if infinite."""
  k = n.kind
  if k in ('c', 'ref', 'pr', 'inf'):
    return 1
  if k in ('d', 'l', 'o'):
    t = 1
    for c in children(n):
      s = msize(c, sel, exact)
      if s is None:
        return None
      t *= s
    return t
  if not is_sel(n, sel):
    t = 1
    for c in children(n):
      s = msize(c, sel, exact)
      if s is None:
        return None
      t *= s
    return t
  if k == 'one':
    t = 0
    for c in n.cands:
      s = msize(c, sel, exact)
      if s is None:
        return None
      t += s
    return t
  if k == 'many':
    sizes = [msize(c, sel, exact) for c in n.cands]
    if any(s is None for s in sizes):
      return None
    t = 0
    for idx in index_tuples(n):
      p = 1
      for i in idx:
        p *= sizes[i]
      t += p
    return t
  if k == 'f':
    return None if exact else len(float_reps(n))
  if k == 'cu':
    return None if exact else n.n
  if k == 'ev':
    return None if exact else len(EVO_GENOMES)
  raise AssertionError(k)


def _prod(lists):
  for combo in itertools.product(*lists):
    dl = []
    for d, _ in combo:
      dl.extend(d)
    yield dl, [v for _, v in combo]


def enum(n, sel):
  """All (dna-struct list, model value) pairs of a node."""
  k = n.kind
  if k == 'c':
    return [([], n.v)]
  if k == 'ref':
    return [([], ('R', n.path))]
  if k == 'pr':
    return [([], ('PR', n.target))]
  if k == 'inf':
    return [([], ('INF',))]
  if k == 'd':
    keys = [key for key, _ in n.items]
    return [(dl, dict(zip(keys, vs)))
            for dl, vs in _prod([enum(c, sel) for _, c in n.items])]
  if k == 'l':
    return [(dl, list(vs)) for dl, vs in _prod([enum(c, sel) for c in n.items])]
  if k == 'o':
    keys = [key for key, _ in n.items]
    return [(dl, ('O', n.cls, dict(zip(keys, vs))))
            for dl, vs in _prod([enum(c, sel) for _, c in n.items])]
  if not is_sel(n, sel):
    if k in ('one', 'many'):
      return [(dl, ('H', n, list(vs)))
              for dl, vs in _prod([enum(c, sel) for c in n.cands])]
    return [([], ('H', n, None))]
  if k == 'one':
    out = []
    for i, c in enumerate(n.cands):
      for dl, v in enum(c, sel):
        out.append(([(i, (tmpl(dl),))], v))
    return out
  if k == 'many':
    subs = [enum(c, sel) for c in n.cands]
    out = []
    for idx in index_tuples(n):
      for combo in itertools.product(*[subs[i] for i in idx]):
        ch = tuple((i, (tmpl(dl),)) for i, (dl, _) in zip(idx, combo))
        out.append(([(None, ch)], [v for _, v in combo]))
    return out
  if k == 'f':
    return [([(x, ())], x) for x in float_reps(n)]
  if k == 'cu':
    return [([(g, ())], v) for g, v in cu_genomes(n)]
  if k == 'ev':
    return [([(g, ())], v) for g, v in ev_genomes()]
  raise AssertionError(k)


def sample(n, sel, rnd):
  """One random (dna-struct list, model value) pair."""
  k = n.kind
  if k == 'c':
    return [], n.v
  if k == 'ref':
    return [], ('R', n.path)
  if k == 'pr':
    return [], ('PR', n.target)
  if k == 'inf':
    return [], ('INF',)
  if k in ('d', 'l', 'o') or (k in ('one', 'many') and not is_sel(n, sel)):
    dl, vs = [], []
    for c in children(n):
      d, v = sample(c, sel, rnd)
      dl.extend(d)
      vs.append(v)
    if k == 'd':
      return dl, dict(zip([key for key, _ in n.items], vs))
    if k == 'l':
      return dl, vs
    if k == 'o':
      return dl, ('O', n.cls, dict(zip([key for key, _ in n.items], vs)))
    return dl, ('H', n, vs)
  if not is_sel(n, sel):
    return [], ('H', n, None)
  if k == 'one':
    i = rnd.randrange(len(n.cands))
    dl, v = sample(n.cands[i], sel, rnd)
    return [(i, (tmpl(dl),))], v
  if k == 'many':
    m = len(n.cands)
    if n.distinct:
      idx = rnd.sample(range(m), n.k)
    else:
      idx = [rnd.randrange(m) for _ in range(n.k)]
    if n.sorted:
      idx = sorted(idx)
    ch, vs = [], []
    for i in idx:
      dl, v = sample(n.cands[i], sel, rnd)
      ch.append((i, (tmpl(dl),)))
      vs.append(v)
    return [(None, tuple(ch))], vs
  if k == 'f':
    x = rnd.choice(float_reps(n) + [rnd.uniform(n.lo, n.hi)])
    return [(x, ())], x
  if k == 'cu':
    g, v = rnd.choice(cu_genomes(n))
    return [(g, ())], v
  if k == 'ev':
    g, v = rnd.choice(ev_genomes())
    return [(g, ())], v
  raise AssertionError(k)


def prim_paths(n, sel, path=''):
  """Paths of the immediate primitives a node contributes to its template."""
  def sub(p, key):
    if isinstance(key, int):
      return f'{p}[{key}]'
    return f'{p}.{key}' if p else key
  k = n.kind
  if k in ('c', 'ref', 'pr', 'inf'):
    return []
  if k in ('d', 'o'):
    out = []
    for key, c in n.items:
      out.extend(prim_paths(c, sel, sub(path, key)))
    return out
  if k == 'l':
    out = []
    for i, c in enumerate(n.items):
      out.extend(prim_paths(c, sel, sub(path, i)))
    return out
  if is_sel(n, sel):
    return [path]
  out = []
  if k in ('one', 'many'):
    for i, c in enumerate(n.cands):
      out.extend(prim_paths(c, sel, sub(sub(path, 'candidates'), i)))
  return out


def dna_eq(a, b):
  try:
    return bool(a == b)
  except Exception:  # pylint: disable=broad-except
    return False   # DNA.__eq__ raises on structurally different trees


def to_dna(dn):
  v, ch = dn
  return pg.DNA(v, [to_dna(c) for c in ch])


def dna_src(dn):
  v, ch = dn
  if not ch:
    return f'pg.DNA({v!r})'
  return 'pg.DNA(%r, [%s])' % (v, ', '.join(dna_src(c) for c in ch))


# ---------------------------------------------------------------------------
# Reference resolution of derived values in model values.
# ---------------------------------------------------------------------------


def _mquery(container, path):
  cur = container
  for key in path:
    if isinstance(cur, tuple) and cur and cur[0] == 'O':
      cur = cur[2]
    if isinstance(cur, dict):
      if key not in cur:
        return False, None
      cur = cur[key]
    elif isinstance(cur, list):
      if not isinstance(key, int) or key >= len(cur):
        return False, None
      cur = cur[key]
    else:
      return False, None
  return True, cur


def _copy_mv(v):
  if isinstance(v, dict):
    return {k: _copy_mv(x) for k, x in v.items()}
  if isinstance(v, list):
    return [_copy_mv(x) for x in v]
  if isinstance(v, tuple) and v and v[0] == 'O':
    return ('O', v[1], _copy_mv(v[2]))
  return v


def resolve_refs(v, ancestors=()):
  """Replaces ('R', path) by the referenced model value (nearest ancestor)."""
  if isinstance(v, tuple) and v and v[0] == 'R':
    for anc in reversed(ancestors):
      ok, got = _mquery(anc, v[1])
      if ok:
        return _copy_mv(got)
    raise AssertionError('unresolvable ref in model')
  if isinstance(v, dict):
    anc = ancestors + (v,)
    for k in list(v):
      v[k] = resolve_refs(v[k], anc)
    return v
  if isinstance(v, list):
    anc = ancestors + (v,)
    for i in range(len(v)):
      v[i] = resolve_refs(v[i], anc)
    return v
  if isinstance(v, tuple) and v and v[0] == 'O':
    anc = ancestors + (v,)
    d = v[2]
    for k in list(d):
      d[k] = resolve_refs(d[k], anc)
    return v
  return v


def has_ref(root):
  return any(n.kind == 'ref' for n in walk(root))


# ---------------------------------------------------------------------------
# Comparing a decoded pyglove value with a model value (strict on shape/type).
# ---------------------------------------------------------------------------


def is_missing(x):
  """An unfilled field (typed or untyped missing value)."""
  return isinstance(x, pg.typing.MissingValue) or x is pg.MISSING_VALUE


def present_keys(got):
  """Keys of a pg.Dict / pg.Object that are filled in."""
  return [k for k in got.sym_keys() if not is_missing(got.sym_getattr(k))]


def same(mv, got, path='$'):
  """Returns None if `got` is exactly the value `mv` prescribes, else text."""
  if isinstance(mv, dict):
    if not isinstance(got, pg.Dict):
      return f'{path}: expected a dict, got {type(got).__name__}'
    if set(present_keys(got)) != set(mv.keys()):
      return f'{path}: keys {present_keys(got)} != {list(mv.keys())}'
    for k, x in mv.items():
      r = same(x, got.sym_getattr(k), f'{path}.{k}')
      if r:
        return r
    return None
  if isinstance(mv, list):
    # (a root-level manyof decodes to a plain python list.)
    if not isinstance(got, list):
      return f'{path}: expected a list, got {type(got).__name__}'
    if len(got) != len(mv):
      return f'{path}: len {len(got)} != {len(mv)}'
    for i, x in enumerate(mv):
      r = same(x, list.__getitem__(got, i), f'{path}[{i}]')
      if r:
        return r
    return None
  if isinstance(mv, tuple) and mv and mv[0] == 'O':
    if type(got) is not mv[1]:  # pylint: disable=unidiomatic-typecheck
      return f'{path}: expected {mv[1].__name__}, got {type(got).__name__}'
    for k, x in mv[2].items():
      if not got.sym_hasattr(k):
        return f'{path}.{k}: field absent'
      r = same(x, got.sym_getattr(k), f'{path}.{k}')
      if r:
        return r
    if mv[1] in REQ:
      # Fields the (partial) template leaves unfilled stay unfilled.
      extra = [k for k in present_keys(got) if k not in mv[2]]
      if extra:
        return f'{path}: fields {extra} are filled, the template leaves them out'
    return None
  if isinstance(mv, tuple) and mv and mv[0] == 'PR':
    # A member referencing a shared object: the decoded value holds that
    # object (by reference, or -- where decode hands out the candidate
    # itself -- an equal object of the same type).
    tgt = SH(mv[1])
    if isinstance(got, (pg.hyper.HyperValue, pg.hyper.DerivedValue)):
      return f'{path}: placeholder left in decoded value: {got!r}'
    val = got.value if isinstance(got, pg.Ref) else got
    if val is tgt:
      return None
    if type(val) is not type(tgt) or not pg.eq(val, tgt):  # pylint: disable=unidiomatic-typecheck
      return f'{path}: {got!r} is not (a reference to) {tgt!r}'
    return None
  if isinstance(mv, tuple) and mv and mv[0] == 'INF':
    if not isinstance(got, pg.symbolic.ValueFromParentChain):
      return f'{path}: expected the inferred value kept, got {got!r}'
    return None
  if isinstance(mv, tuple) and mv and mv[0] == 'H':
    n = mv[1]
    if not isinstance(got, pg.hyper.HyperPrimitive):
      return f'{path}: filtered-out placeholder {n.name} was replaced by {got!r}'
    if got.name != n.name:
      return f'{path}: placeholder name {got.name} != {n.name}'
    if n.kind in ('one', 'many'):
      want_t = pg.hyper.OneOf if n.kind == 'one' else pg.hyper.ManyOf
      if type(got) is not want_t:  # pylint: disable=unidiomatic-typecheck
        return f'{path}: placeholder type {type(got).__name__}'
      if n.kind == 'many' and (got.num_choices != n.k
                               or got.choices_distinct != n.distinct
                               or got.choices_sorted != n.sorted):
        return f'{path}: manyof parameters changed'
      if len(got.candidates) != len(mv[2]):
        return f'{path}: #candidates changed'
      for i, x in enumerate(mv[2]):
        r = same(x, got.candidates.sym_getattr(i), f'{path}.candidates[{i}]')
        if r:
          return r
      return None
    if n.kind == 'f':
      if (type(got) is not pg.hyper.Float or got.min_value != n.lo  # pylint: disable=unidiomatic-typecheck
          or got.max_value != n.hi or got.scale != n.scale):
        return f'{path}: float placeholder changed: {got!r}'
      return None
    if n.kind == 'cu':
      if type(got) is not IntSeq or got.n != n.n:  # pylint: disable=unidiomatic-typecheck
        return f'{path}: custom placeholder changed: {got!r}'
      return None
    if n.kind == 'ev':
      if type(got) is not pg.hyper.Evolvable:  # pylint: disable=unidiomatic-typecheck
        return f'{path}: evolvable placeholder changed: {got!r}'
      return None
  # Leaf.
  if isinstance(got, (pg.hyper.HyperValue, pg.hyper.DerivedValue)):
    return f'{path}: placeholder left in decoded value: {got!r}'
  if not strict_eq(got, mv):
    return f'{path}: {got!r} != {mv!r}'
  return None


def strict_eq(a, b):
  """Equal and of the same Python type (also element-wise inside tuples)."""
  if type(a) is not type(b):  # pylint: disable=unidiomatic-typecheck
    return False
  if isinstance(a, tuple):
    return len(a) == len(b) and all(strict_eq(x, y) for x, y in zip(a, b))
  return bool(a == b)


def mv_key(mv):
  """Hashable canonical key of a model value."""
  if isinstance(mv, dict):
    return ('d',) + tuple((k, mv_key(v)) for k, v in sorted(mv.items()))
  if isinstance(mv, list):
    return ('l',) + tuple(mv_key(v) for v in mv)
  if isinstance(mv, tuple) and mv and mv[0] == 'O':
    return ('o', mv[1].__name__) + tuple(
        (k, mv_key(v)) for k, v in sorted(mv[2].items()))
  if isinstance(mv, tuple) and mv and mv[0] == 'H':
    return ('h', mv[1].name) + (
        tuple(mv_key(v) for v in mv[2]) if mv[2] is not None else ())
  if isinstance(mv, tuple) and mv and mv[0] == 'PR':
    return pg_key(SH(mv[1]))         # references are transparent
  if isinstance(mv, tuple) and mv and mv[0] == 'INF':
    return ('inf',)
  if isinstance(mv, tuple):
    return ('t',) + tuple(mv_key(v) for v in mv)
  return (type(mv).__name__, mv)


def pg_key(v):
  """Hashable canonical key of a decoded pyglove value (own traversal)."""
  if isinstance(v, pg.hyper.HyperPrimitive):
    if isinstance(v, pg.hyper.Choices):
      return ('h', v.name) + tuple(pg_key(c) for c in v.candidates)
    return ('h', v.name)
  if isinstance(v, pg.Ref):
    return pg_key(v.value)
  if isinstance(v, pg.symbolic.ValueFromParentChain):
    return ('inf',)
  if isinstance(v, pg.Dict):
    return ('d',) + tuple((k, pg_key(x)) for k, x in sorted(v.sym_items())
                          if not is_missing(x))
  if isinstance(v, list):
    return ('l',) + tuple(pg_key(x) for x in list.__iter__(v))
  if isinstance(v, pg.Object):
    items = [(k, pg_key(x)) for k, x in v.sym_items() if not is_missing(x)]
    return ('o', type(v).__name__) + tuple(sorted(items))
  if isinstance(v, tuple):
    return ('t',) + tuple(pg_key(x) for x in v)
  return (type(v).__name__, v)


def mv_has_hyper(mv):
  if isinstance(mv, dict):
    return any(mv_has_hyper(v) for v in mv.values())
  if isinstance(mv, list):
    return any(mv_has_hyper(v) for v in mv)
  if isinstance(mv, tuple) and mv and mv[0] == 'O':
    return mv_has_hyper(mv[2])
  return isinstance(mv, tuple) and bool(mv) and mv[0] == 'H'


# ---------------------------------------------------------------------------
# Distinguishability of candidates (conservative: True = may be confused).
# ---------------------------------------------------------------------------


def _num(v):
  return isinstance(v, (int, float)) and not isinstance(v, bool)


def may_overlap(a, b, sel):
  """May a value produced by `b` also be encodable by `a` (or vice versa)?"""
  ka, kb = a.kind, b.kind
  sa = ka in HYPER and is_sel(a, sel)
  sb = kb in HYPER and is_sel(b, sel)
  # Evolvable.custom_encode accepts everything.
  if (ka == 'ev' and sa) or (kb == 'ev' and sb):
    return True
  if ka == 'ref' or kb == 'ref':
    return True
  if ka == 'inf' or kb == 'inf':
    return True
  if ka == 'pr' and kb == 'pr':
    return a.target == b.target      # the shared targets differ pairwise
  if ka == 'one' and sa:
    return any(may_overlap(c, b, sel) for c in a.cands)
  if kb == 'one' and sb:
    return any(may_overlap(a, c, sel) for c in b.cands)
  # Unselected placeholders stay verbatim: equal only to themselves.
  ua = ka in HYPER and not sa
  ub = kb in HYPER and not sb
  if ua or ub:
    return ua and ub and ka == kb
  if ka == 'pr' or kb == 'pr':
    o = b if ka == 'pr' else a
    # The targets are symbolic containers / objects: never equal to a leaf
    # constant or a float; conservatively confusable with anything else.
    if o.kind == 'f':
      return False
    if o.kind == 'c':
      return isinstance(o.v, (dict, list, pg.Symbolic))
    return True
  if ka == 'c' and kb == 'c':
    try:
      return bool(a.v == b.v)
    except Exception:  # pylint: disable=broad-except
      return True
  if ka == 'f' and kb == 'f':
    return not (a.hi < b.lo or b.hi < a.lo)
  if ka == 'f' or kb == 'f':
    f, o = (a, b) if ka == 'f' else (b, a)
    if o.kind == 'c':
      return _num(o.v) and f.lo <= o.v <= f.hi
    return False
  listy = ('l', 'many', 'cu')
  if ka in listy and kb in listy:
    def length(n):
      return len(n.items) if n.kind == 'l' else (n.k if n.kind == 'many' else None)
    la, lb = length(a), length(b)
    if la is not None and lb is not None and la != lb:
      return False
    if ka == 'l' and kb == 'l':
      return all(may_overlap(x, y, sel) for x, y in zip(a.items, b.items))
    return True
  if ka == 'd' and kb == 'd':
    da, db = dict(a.items), dict(b.items)
    if set(da) != set(db):
      return False
    return all(may_overlap(da[k], db[k], sel) for k in da)
  if ka == 'o' and kb == 'o':
    if a.cls is not b.cls:
      return False
    da, db = dict(a.items), dict(b.items)
    if set(da) != set(db):
      # A required field that one side fills and the other leaves unfilled
      # tells partial objects apart; otherwise defaults may make them equal.
      req = {p.split('.')[0] for p in REQ.get(a.cls, ())}
      return not ((set(da) ^ set(db)) & req)
    return all(may_overlap(da[k], db[k], sel) for k in da)
  if ka == 'c' or kb == 'c':
    c, o = (a, b) if ka == 'c' else (b, a)
    if o.kind == 'd':
      return isinstance(c.v, dict)
    if o.kind in listy:
      return isinstance(c.v, list)
    return False
  return False


def unselected_below_selected_choice(root, sel):
  """A selected oneof/manyof has a filtered-out placeholder in a candidate."""
  if sel is None:
    return False
  for n in walk(root):
    if n.kind in ('one', 'many') and is_sel(n, sel):
      for c in n.cands:
        if any(m.kind in HYPER and not is_sel(m, sel) for m in walk(c)):
          return True
  return False


def distinguishable(root, sel):
  for n in walk(root):
    if n.kind in ('one', 'many') and is_sel(n, sel):
      for i in range(len(n.cands)):
        for j in range(i + 1, len(n.cands)):
          if may_overlap(n.cands[i], n.cands[j], sel):
            return False
    if n.kind == 'many' and is_sel(n, sel) and n.k == 1:
      pass
  return True


# ---------------------------------------------------------------------------
# Template snapshots (non-interference).
# ---------------------------------------------------------------------------


def sym_nodes(v, out=None):
  """(path, id(node), id(parent)) for every symbolic node below v."""
  if out is None:
    out = []
  if isinstance(v, pg.Symbolic):
    out.append((str(v.sym_path), id(v), id(v.sym_parent)))
    for _, x in v.sym_items():
      sym_nodes(x, out)
  return out


def ref_targets(v, out=None):
  """Objects referenced by pg.Ref members below v (raw traversal)."""
  if out is None:
    out = []
  if isinstance(v, pg.Ref):
    if isinstance(v.value, pg.Symbolic) and not any(v.value is t for t in out):
      out.append(v.value)
  elif isinstance(v, pg.Symbolic):
    for _, x in v.sym_items():
      ref_targets(x, out)
  return out


def snap_text(v):
  """Serialised content of a template value (values holding pg.Ref members
  have no JSON form: their full symbolic format is used instead)."""
  if not isinstance(v, pg.Symbolic):
    return repr(v)
  try:
    return pg.to_json_str(v)
  except TypeError:
    return pg.format(v, compact=True, verbose=True, hide_default_values=False)


class _WitnessRec:
  """Recorder proxy: witnesses of templates without a JSON form compare the
  symbolic format instead."""

  def __init__(self, rec):
    self._rec = rec

  def case(self, case_id, key, ok, message='', witness='', nontrivial=True):
    if witness:
      witness = witness.replace('pg.to_json_str(v)', 'snap_text(v)')
      if 'snap_text' in witness:
        witness = 'from bounded.c13_hyper import snap_text\n' + witness
    return self._rec.case(case_id, key, ok, message, witness, nontrivial)


class Snapshot:
  """Snapshot of a template value taken before any decode/encode."""

  def __init__(self, value):
    self.value = value
    self.json = snap_text(value)
    self.clone = pg.clone(value, deep=True)
    self.text = pg.format(value, compact=True)
    self.nodes = sym_nodes(value)
    # Objects the template references through pg.Ref members.
    self.targets = [(t, pg.to_json_str(t), id(t.sym_parent), str(t.sym_path))
                    for t in ref_targets(value)]

  def diff_targets(self):
    for t, j, par, path in self.targets:
      if pg.to_json_str(t) != j:
        return f'referenced object changed: {j[:120]} -> {pg.to_json_str(t)[:120]}'
      if id(t.sym_parent) != par or str(t.sym_path) != path:
        return (f'referenced object {t!r} was re-parented: sym_path '
                f'{path!r} -> {str(t.sym_path)!r}')
    return None

  def diff_content(self):
    v = self.value
    try:
      j = snap_text(v)
    except Exception as e:  # pylint: disable=broad-except
      return f'pg.to_json(template) now raises {type(e).__name__}: {e}'
    if j != self.json:
      return f'pg.to_json(template) changed: {self.json[:150]} -> {j[:150]}'
    return None

  def diff(self, links=True):
    v = self.value
    r = self.diff_content()
    if r:
      return r
    if not pg.eq(v, self.clone):
      return 'pg.eq(template, clone taken before) is False'
    if pg.format(v, compact=True) != self.text:
      return 'pg.format(template) changed'
    if links and sym_nodes(v) != self.nodes:
      return 'symbolic nodes / parent links of the template changed'
    return None


# ---------------------------------------------------------------------------
# Value-spec acceptance of a decoded value.
# ---------------------------------------------------------------------------


def spec_violation(v, path='$', partial=None):
  """Re-applies every field spec of every pg.Object inside v to its value.

  Unfilled fields of partial objects have no value to accept.
  """
  if partial is None:
    partial = bool(pg.is_partial(v)) if isinstance(v, pg.Symbolic) else False
  if isinstance(v, pg.hyper.HyperPrimitive):
    if isinstance(v, pg.hyper.Choices):
      for i, c in enumerate(v.candidates):
        r = spec_violation(c, f'{path}.candidates[{i}]')
        if r:
          return r
    return None
  if isinstance(v, pg.Object):
    for k, x in v.sym_items():
      if is_missing(x):
        continue
      f = v.sym_attr_field(k)
      if f is not None:
        try:
          f.value.apply(pg.clone(x, deep=True) if isinstance(x, pg.Symbolic) else x,
                        allow_partial=partial)
        except Exception as e:  # pylint: disable=broad-except
          return f'{path}.{k}: {type(e).__name__}: {str(e)[:160]}'
      r = spec_violation(x, f'{path}.{k}', partial)
      if r:
        return r
  elif isinstance(v, pg.Dict):
    for k, x in v.sym_items():
      r = spec_violation(x, f'{path}.{k}', partial)
      if r:
        return r
  elif isinstance(v, pg.List):
    for i, x in enumerate(v.sym_values()):
      r = spec_violation(x, f'{path}[{i}]', partial)
      if r:
        return r
  return None


# ---------------------------------------------------------------------------
# Model value -> pyglove value / source.
# ---------------------------------------------------------------------------


def mv_partial(mv):
  """Does the model value leave a required field of an object unfilled?"""
  if isinstance(mv, dict):
    return any(mv_partial(v) for v in mv.values())
  if isinstance(mv, list):
    return any(mv_partial(v) for v in mv)
  if isinstance(mv, tuple) and mv and mv[0] == 'O':
    def get(key):
      c = mv[2].get(key, _ABSENT)
      if isinstance(c, dict):
        return lambda k: c.get(k, _ABSENT)
      return c
    return _req_missing(mv[1], get) or mv_partial(mv[2])
  return False


def _mk_obj(mv, conv):
  """Object of a model value; a partial one takes built-in dicts for its
  dict-typed fields (a pg.Dict made beforehand cannot take unfilled keys)."""
  if mv[1] in REQ and mv_partial(mv):
    return mv[1].partial(**{
        k: (to_plain(v) if isinstance(v, dict) else conv(v))
        for k, v in mv[2].items()})
  return mv[1](**{k: conv(v) for k, v in mv[2].items()})


def fill_defaults(mv):
  """Model value after the schemas of the classes in P_DEFAULTS filled in
  the defaults of fields that were not given."""
  if isinstance(mv, dict):
    return {k: fill_defaults(v) for k, v in mv.items()}
  if isinstance(mv, list):
    return [fill_defaults(v) for v in mv]
  if isinstance(mv, tuple) and mv and mv[0] == 'O':
    d = {k: fill_defaults(v) for k, v in mv[2].items()}
    for k, dv in P_DEFAULTS.get(mv[1], {}).items():
      if k not in d:
        d[k] = _copy_mv(dv)
      elif isinstance(dv, dict) and isinstance(d[k], dict):
        d[k] = dict(_copy_mv(dv), **d[k])
    order = [str(k) for k in mv[1].__schema__.fields.keys()]
    return ('O', mv[1], {k: d[k] for k in order if k in d})
  if isinstance(mv, tuple) and mv and mv[0] == 'H' and mv[2] is not None:
    return ('H', mv[1], [fill_defaults(v) for v in mv[2]])
  return mv


def to_pg(mv):
  if isinstance(mv, dict):
    return pg.Dict({k: to_pg(v) for k, v in mv.items()})
  if isinstance(mv, list):
    return pg.List([to_pg(v) for v in mv])
  if isinstance(mv, tuple) and mv and mv[0] == 'O':
    return _mk_obj(mv, to_pg)
  if isinstance(mv, tuple) and mv and mv[0] == 'PR':
    return pg.Ref(SH(mv[1]))
  if isinstance(mv, tuple) and mv and mv[0] == 'INF':
    return pg.symbolic.ValueFromParentChain()
  if isinstance(mv, tuple) and mv and mv[0] == 'H':
    n = mv[1]
    if n.kind == 'one':
      return pg.oneof([to_pg(c) for c in mv[2]], name=n.name)
    if n.kind == 'many':
      return pg.manyof(n.k, [to_pg(c) for c in mv[2]], distinct=n.distinct,
                       sorted=n.sorted, name=n.name)
    return build(n)
  return mv


def to_plain(mv):
  """Like to_pg, with built-in dict / list instead of pg.Dict / pg.List."""
  if isinstance(mv, dict):
    return {k: to_plain(v) for k, v in mv.items()}
  if isinstance(mv, list):
    return [to_plain(v) for v in mv]
  if isinstance(mv, tuple) and mv and mv[0] == 'O':
    return _mk_obj(mv, to_plain)
  return to_pg(mv)


def mv_has_container(mv):
  if isinstance(mv, (dict, list)):
    return True
  if isinstance(mv, tuple) and mv and mv[0] == 'O':
    return any(mv_has_container(v) for v in mv[2].values())
  return False


def mv_src(mv, root=True, plain=False):
  if isinstance(mv, dict):
    if plain:
      return 'dict(%s)' % ', '.join(f'{k}={mv_src(v, False, True)}' for k, v in mv.items())
    return 'pg.Dict(%s)' % ', '.join(f'{k}={mv_src(v, False)}' for k, v in mv.items())
  if isinstance(mv, list):
    body = '[%s]' % ', '.join(mv_src(v, False, plain) for v in mv)
    return f'pg.List({body})' if root and not plain else body
  if isinstance(mv, tuple) and mv and mv[0] == 'O':
    if mv[1] in REQ and mv_partial(mv):
      return '%s.partial(%s)' % (mv[1].__name__, ', '.join(
          f'{k}={mv_src(v, False, plain or isinstance(v, dict))}'
          for k, v in mv[2].items()))
    return '%s(%s)' % (mv[1].__name__, ', '.join(
        f'{k}={mv_src(v, False, plain)}' for k, v in mv[2].items()))
  if isinstance(mv, tuple) and mv and mv[0] == 'PR':
    return f'pg.Ref(SH({mv[1]}))'
  if isinstance(mv, tuple) and mv and mv[0] == 'INF':
    return 'pg.symbolic.ValueFromParentChain()'
  if isinstance(mv, tuple) and mv and mv[0] == 'H':
    n = mv[1]
    if n.kind == 'one':
      return 'pg.oneof([%s], name=%r)' % (
          ', '.join(mv_src(c, False) for c in mv[2]), n.name)
    if n.kind == 'many':
      return 'pg.manyof(%d, [%s], distinct=%r, sorted=%r, name=%r)' % (
          n.k, ', '.join(mv_src(c, False) for c in mv[2]), n.distinct,
          n.sorted, n.name)
    return src(n, False)
  return lit(mv)


# ---------------------------------------------------------------------------
# Foreign values: model values changed at one place, so that they differ from
# the value they were derived from.  The statement does not say whether
# `encode` refuses them (members of the space are all checked by the main
# loop), but "encoding never modifies the template" holds for every input,
# also on the refusing path.
# ---------------------------------------------------------------------------

_ZZ = 'zz9'
_SWAP_CLS = None


def _swap_cls(cls):
  global _SWAP_CLS
  if _SWAP_CLS is None:
    _SWAP_CLS = {A: A2, A2: A, SC: NE, NE: SC}
  return _SWAP_CLS.get(cls)


def _mv_sites(mv, path=()):
  """(path, node) of every dict / list / object / leaf node (not placeholders)."""
  if isinstance(mv, tuple) and mv and mv[0] in ('H', 'R', 'PR', 'INF'):
    return
  yield path, mv
  if isinstance(mv, dict):
    for k, v in mv.items():
      yield from _mv_sites(v, path + (k,))
  elif isinstance(mv, list):
    for i, v in enumerate(mv):
      yield from _mv_sites(v, path + (i,))
  elif isinstance(mv, tuple) and mv and mv[0] == 'O':
    for k, v in mv[2].items():
      yield from _mv_sites(v, path + (k,))


def _mv_replace(mv, path, new):
  if not path:
    return new
  k, rest = path[0], path[1:]
  if isinstance(mv, dict):
    return {a: (_mv_replace(b, rest, new) if a == k else b) for a, b in mv.items()}
  if isinstance(mv, list):
    return [(_mv_replace(b, rest, new) if i == k else b) for i, b in enumerate(mv)]
  assert mv[0] == 'O'
  return ('O', mv[1], {a: (_mv_replace(b, rest, new) if a == k else b)
                       for a, b in mv[2].items()})


def mutants(mv, rnd, per_class=1):
  """(mutation class, changed model value), a few per class."""
  out = {}
  def add(cls, path, new):
    out.setdefault(cls, []).append(_mv_replace(mv, path, new))
  for path, n in _mv_sites(mv):
    if isinstance(n, dict):
      add('extra-key' + ('-in-empty-dict' if not n else ''), path,
          dict(n, **{_ZZ: 1}))
      if n:
        add('missing-key', path, {k: v for k, v in list(n.items())[1:]})
      else:
        add('empty-list-for-empty-dict', path, [])
    elif isinstance(n, list):
      add('extra-element' + ('-in-empty-list' if not n else ''), path, n + [_ZZ])
      if n:
        add('missing-element', path, n[:-1])
      else:
        add('empty-dict-for-empty-list', path, {})
    elif isinstance(n, tuple) and n and n[0] == 'O':
      other = _swap_cls(n[1])
      if other is not None:
        add('other-class', path, ('O', other, n[2]))
    elif not isinstance(n, tuple):
      add('other-leaf', path, _ZZ)
  res = []
  for cls in sorted(out):
    ms = out[cls]
    rnd.shuffle(ms)
    res.extend((cls, m) for m in ms[:per_class])
  return res


# ---------------------------------------------------------------------------
# The per-template check.
# ---------------------------------------------------------------------------


def check_template(rec, root, sel, rnd, cap, deep_checks=6, post=None,
                   sig=None, foreign_checks=1, esig=None, labels=None):
  """Checks every clause of C13 on one template (+ optional where filter).

  post: model value -> model value prescribed after the bound value specs
  accepted it (see `norm`); sig: input-class part of the case ids; esig: the
  id of the encode cases, if the template belongs to an input class of encode
  of its own; labels: which values are encoded (default: all of 'decoded',
  'built', 'plain').
  """
  sig = sig or signature(root, sel)
  vsrc = src(root)
  if any(n.kind == 'pr' for n in walk(root)):
    sh_reset()                        # fresh reference targets
    rec = _WitnessRec(rec)
  pre = header(root) + f'v = {vsrc}\nt = pg.template(v{where_src(sel)})\n'
  key0 = (vsrc, None if sel is None else tuple(sorted(sel)))

  try:
    v = build(root)
    snap = Snapshot(v)
    t = pg.template(v, where_fn(sel))
    spec = t.dna_spec()
  except Exception as e:  # pylint: disable=broad-except
    rec.case(f'template.build/{sig}', key0, False,
             f'unexpected {type(e).__name__}: {e}', pre + 't.dna_spec()')
    return

  # DNA layout: element order/locations of the spec.
  want_paths = prim_paths(root, sel)
  got_paths = [str(e.location) for e in spec.elements]
  rec.case(f'dna_spec.locations/{sig}', key0, got_paths == want_paths,
           f'spec element locations {got_paths} != placeholders {want_paths}',
           pre + f'assert [str(e.location) for e in t.dna_spec().elements] == {want_paths!r}')
  if got_paths != want_paths:
    return
  rec.case(f'template.is_constant/{sig}', key0,
           t.is_constant == (not want_paths),
           f'is_constant={t.is_constant}, placeholders={want_paths}',
           pre + f'assert t.is_constant == {not want_paths}')

  exact = msize(root, sel, exact=True)
  want_size = -1 if exact is None else exact
  if want_paths:
    rec.case(f'dna_spec.space_size/{sig}', key0, spec.space_size == want_size,
             f'space_size {spec.space_size} != {want_size}',
             pre + f'assert t.dna_spec().space_size == {want_size}')

  total = msize(root, sel)
  if total <= cap:
    pairs = enum(root, sel)
    assert len(pairs) == total, (len(pairs), total)
  else:
    pairs = [sample(root, sel, rnd) for _ in range(cap)]
  dist = distinguishable(root, sel)
  refs = has_ref(root)
  has_obj = any(n.kind == 'o' for n in walk(root))
  # Own id for: `where` keeps a placeholder that sits inside a candidate of a
  # selected choice (encode consults the unfiltered template there).
  esig = 'where-unselected-inside-selected-choice' if (
      unselected_below_selected_choice(root, sel)) else (esig or sig)
  # Evolvables encode any value; the known `where` defect has its own id.
  foreign_ok = esig is sig and not any(
      n.kind == 'ev' and is_sel(n, sel) for n in walk(root))

  seen = {}
  tgt_ok = True
  for idx, (dl, mv) in enumerate(pairs):
    dn = tmpl(dl)
    dsrc = dna_src(dn)
    key = key0 + (dsrc,)
    wpre = pre + f'd = {dsrc}\n'
    deep = idx < deep_checks or idx == len(pairs) - 1
    if refs:
      mv = resolve_refs(_copy_mv(mv))
    if post:
      mv = post(mv)
    try:
      dna = to_dna(dn)
      before = pg.to_json_str(dna)
    except Exception as e:  # pylint: disable=broad-except
      rec.case(f'dna.construct/{sig}', key, False,
               f'unexpected {type(e).__name__}: {e}', wpre)
      continue

    # The model DNA is valid for the template's specification.
    try:
      valid = spec.validate(dna)
      msg = ''
    except Exception as e:  # pylint: disable=broad-except
      valid, msg = False, f'{type(e).__name__}: {e}'
    rec.case(f'dna_spec.accepts-valid-dna/{sig}', key, valid is not False and not msg,
             f'spec rejects a DNA of the documented layout: {msg}',
             wpre + 'assert t.dna_spec().validate(d)')

    # decode
    try:
      got = t.decode(dna)
    except Exception as e:  # pylint: disable=broad-except
      rec.case(f'decode.value/{sig}', key, False,
               f'decode raised {type(e).__name__}: {str(e)[:300]}',
               wpre + 't.decode(d)')
      continue
    r = same(mv, got)
    rec.case(f'decode.value/{sig}', key, r is None, r,
             wpre + f'assert pg.eq(t.decode(d), {mv_src(mv)}), t.decode(d)')
    want_det = not mv_has_hyper(mv)
    try:
      det = pg.is_deterministic(got)
      left = pg.contains(got, type=pg.hyper.HyperValue) or pg.contains(
          got, type=pg.hyper.DerivedValue)
    except Exception as e:  # pylint: disable=broad-except
      det, left = None, f'{type(e).__name__}: {e}'
    rec.case(f'decode.no-placeholder-left/{sig}', key,
             det == want_det and bool(left) == (not want_det),
             f'is_deterministic={det}, contains placeholder={left}, expected '
             f'deterministic={want_det}',
             wpre + f'assert pg.is_deterministic(t.decode(d)) == {want_det}')
    sv = spec_violation(got) if has_obj else None
    rec.case(f'decode.spec-accepted/{sig}', key, sv is None,
             f'decoded value violates a bound value spec: {sv}',
             wpre + 'x = t.decode(d)\n' + IMPORT_SV
             + 'assert spec_violation(x) is None, spec_violation(x)')
    if pg.to_json_str(dna) != before:
      rec.case(f'decode.dna-unchanged/{sig}', key, False,
               'decode modified the DNA passed in',
               wpre + 'j = pg.to_json_str(d); t.decode(d); assert pg.to_json_str(d) == j')
    if deep:
      df = snap.diff()
      rec.case(f'decode.template-unchanged/{sig}', key, df is None, df,
               wpre + 'j = pg.to_json_str(v); t.decode(d); assert pg.to_json_str(v) == j')
    if snap.targets:
      # The objects the template references stay as they are (content and
      # place: a referenced object is not moved into the decoded value).
      df = snap.diff_targets()
      tgt_ok = df is None
      rec.case(f'decode.ref-target-unchanged/{sig}', key, df is None, df,
               wpre + 'from bounded.c13_hyper import ref_targets\n'
               'ts = [(x, x.sym_parent, str(x.sym_path)) for x in ref_targets(v)]\n'
               't.decode(d)\n'
               'assert all(x.sym_parent is p and str(x.sym_path) == q '
               'for x, p, q in ts), [x.sym_path for x, _, _ in ts]')

    # decode twice
    try:
      if not deep and idx % 3:
        raise StopIteration
      got2 = t.decode(dna)
      r2 = same(mv, got2)
      ok2 = r2 is None and pg.eq(got, got2)
      m2 = r2 or 'pg.eq(first, second) is False'
    except StopIteration:
      ok2 = None
    except Exception as e:  # pylint: disable=broad-except
      ok2, m2 = False, f'second decode raised {type(e).__name__}: {e}'
    if ok2 is not None:
      rec.case(f'decode.twice-equal/{sig}', key, ok2, m2,
               wpre + 'assert pg.eq(t.decode(d), t.decode(d))')

    # pairwise difference bookkeeping (own canonical keys).
    try:
      seen.setdefault(pg_key(got), []).append(idx)
    except Exception:  # pylint: disable=broad-except
      pass

    # encode(decode(dna)) and encode(independently built value)
    for label, val_fn, vs_ in (
        ('decoded', lambda: got, 't.decode(d)'),
        ('built', lambda: to_pg(mv), mv_src(mv)),
        # an equal value made of built-in dict / list containers.
        ('plain', lambda: to_plain(mv), mv_src(mv, plain=True))):
      if label == 'built' and not deep and idx % 5:
        continue
      if label == 'plain' and not (deep and mv_has_container(mv)):
        continue
      if labels is not None and label not in labels:
        continue
      try:
        val = val_fn()
        enc = t.encode(val)
      except Exception as e:  # pylint: disable=broad-except
        rec.case(f'encode.{label}/{sig}' if esig is sig else f'encode/{esig}', key, False,
                 f'encode raised {type(e).__name__}: {str(e)[:300]}',
                 wpre + f't.encode({vs_})')
        continue
      if dist:
        rec.case(f'encode.{label}/{sig}' if esig is sig else f'encode/{esig}', key,
                 dna_eq(enc, dna) and dna_eq(dna, enc),
                 f'encode gave {enc!r}, expected {dna!r}',
                 wpre + f'assert t.encode({vs_}) == d, t.encode({vs_})')
      else:
        # Candidates can be confused: the statement only promises that the
        # value is encodable; if the DNA decodes, it must decode to the value.
        try:
          back = t.decode(enc)
          okb = pg.eq(back, got)
          mb = f'decode(encode(x)) = {back!r} != x = {got!r}'
        except Exception:  # pylint: disable=broad-except
          okb, mb = True, ''
        rec.case(f'encode.{label}-redecode/{esig}', key, okb, mb,
                 wpre + f'x = t.decode(d); assert pg.eq(t.decode(t.encode({vs_})), x)',
                 nontrivial=False)
      if deep:
        df = snap.diff()
        rec.case(f'encode.template-unchanged/{sig}', key, df is None, df,
                 wpre + f'x = {vs_}; j = pg.to_json_str(v); t.encode(x); '
                 'assert pg.to_json_str(v) == j')
      if snap.targets and tgt_ok:
        df = snap.diff_targets()
        tgt_ok = df is None
        rec.case(f'encode.ref-target-unchanged/{sig}', key, df is None, df,
                 wpre + 'from bounded.c13_hyper import ref_targets\n'
                 f'x = {vs_}\n'
                 'ts = [(y, y.sym_parent, str(y.sym_path)) for y in ref_targets(v)]\n'
                 't.encode(x)\n'
                 'assert all(y.sym_parent is p and str(y.sym_path) == q '
                 'for y, p, q in ts), [y.sym_path for y, _, _ in ts]')

    if deep:
      # __call__ path and pg.materialize agree with decode.
      try:
        t.set_dna(dna)
        c1 = t()
        okc = same(mv, c1) is None
        mc = same(mv, c1)
      except Exception as e:  # pylint: disable=broad-except
        okc, mc = False, f'{type(e).__name__}: {e}'
      rec.case(f'call.value/{sig}', key, okc, mc,
               wpre + f't.set_dna(d); assert pg.eq(t(), {mv_src(mv)})')
      try:
        m1 = pg.materialize(v, dna, where=where_fn(sel))
        okm = same(mv, m1) is None
        mm = same(mv, m1)
      except Exception as e:  # pylint: disable=broad-except
        okm, mm = False, f'{type(e).__name__}: {e}'
      rec.case(f'materialize.value/{sig}', key, okm, mm,
               header(root) + f'v = {vsrc}\nd = {dsrc}\nassert pg.eq(pg.materialize('
               f'v, d{where_src(sel)}), {mv_src(mv)})')

    if idx < foreign_checks and foreign_ok:
      # encode of values that differ from the decoded one at one place.
      for mcls, mut in mutants(mv, rnd):
        msrc = mv_src(mut)
        fkey = key + (mcls, msrc)
        fid = f'{mcls}/{sig}'
        try:
          t.encode(to_pg(mut))
        except Exception:  # pylint: disable=broad-except
          pass   # refused (or not): the statement only protects the template.
        # (cheap content comparison here; the full comparison incl. parent
        # links follows under template-unchanged-after-all.)
        df = snap.diff_content()
        rec.case(f'encode.foreign-value.template-unchanged/{fid}', fkey,
                 df is None, df,
                 wpre + f'x = {msrc}\nj = pg.to_json_str(v)\ntry:\n  t.encode(x)\n'
                 'except Exception:\n  pass\nassert pg.to_json_str(v) == j, v')
        if df is not None:
          break

  df = snap.diff()
  rec.case(f'template-unchanged-after-all/{sig}', key0, df is None, df,
           pre + 'j = pg.to_json_str(v)\nfor d in t.dna_spec().iter_dna():\n'
           '  t.encode(t.decode(d))\nassert pg.to_json_str(v) == j')

  # Different DNAs of distinguishable templates give pairwise different values.
  if dist and total <= cap:
    dup = [ix for ix in seen.values() if len(ix) > 1]
    rec.case(f'decode.injective/{sig}', key0, not dup,
             f'different DNAs decoded to the same value: pair indices {dup[:2]}',
             pre + 'xs = [t.decode(d) for d in t.dna_spec().iter_dna()]\n'
             'assert all(not pg.eq(a, b) for i, a in enumerate(xs) for b in xs[:i])')
  return t, spec, pairs, dist


# ---------------------------------------------------------------------------
# Template catalogue (systematic) and random templates.
# ---------------------------------------------------------------------------


def primitives(tier):
  """Factories of placeholder descriptors (fresh nodes on every call)."""
  P = []
  add = P.append
  add(lambda: One([1]))
  add(lambda: One([1, 2]))
  add(lambda: One([1, 'a', None]))
  add(lambda: One([D(p=1), D(p=2)]))
  add(lambda: One([L([1]), L([1, 2]), L([])]))
  add(lambda: One([O(A, x=1), O(A2, x=1), O(A, x=2, y='u')]))
  add(lambda: One([1, 1]))                      # indistinguishable
  kmax = 2 if tier == 'quick' else 3
  for distinct in (True, False):
    for srt in (False, True):
      for k in range(1, kmax + 1):
        for m in range(1, 4 if tier == 'quick' else 5):
          if distinct and k > m:
            continue
          if not distinct and m ** k > 27:
            continue
          add(lambda k=k, m=m, d=distinct, s=srt: Many(
              k, [10 + i for i in range(m)], d, s))
  add(lambda: Many(3, ['a', 'b', 'c']))         # permutation
  add(lambda: F(0.0, 1.0))
  add(lambda: F(-1.5, -1.5))
  add(lambda: F(1e-3, 10.0, 'log'))
  add(lambda: F(1.0, 2.0, 'rlog'))
  add(lambda: F(-2.0, 2.0, 'linear'))
  add(lambda: Cu(3))
  add(lambda: Ev())
  # Conditional spaces.
  add(lambda: One([One([1, 2]), 3]))
  add(lambda: One([3, One([1, 2])]))
  add(lambda: One([One([One([1, 2]), 3]), 4]))
  add(lambda: One([D(p=One([1, 2]), q=F(0.0, 1.0)), 'z']))
  add(lambda: One([D(p=One([1, 2])), D(p=One([3, 4]), q=One([5, 6]))]))
  add(lambda: One([L([Many(2, [1, 2, 3]), One(['u', 'v'])]),
                   Many(2, [One([5, 6]), 7, 8])]))
  add(lambda: One([One([One([1, 2]), One([3, 4])]),
                   Many(2, [One([4, 5]), 6, 7]), 'bar']))
  add(lambda: One([O(A, x=One([1, 2]),
                     y=One([O(A, x=One([3, 4]), y=None), 'z']))]))
  for distinct in (True, False):
    for srt in (False, True):
      add(lambda d=distinct, s=srt: Many(
          2, [One([1, 2]), 3, F(0.0, 1.0), D(w=One(['x', 'y']), z=One([0, 1]))],
          d, s))
      add(lambda d=distinct, s=srt: Many(
          2, [Many(2, [1, 2, 3], d, s), 'k', One([L([One([7, 8])]), 9])], d, s))
  add(lambda: Many(1, [One([1, 2]), 3]))
  add(lambda: One([Cu(2), 'n', D(e=Cu(3))]))
  add(lambda: One([1, D(e=Ev())]))
  add(lambda: Many(2, [Cu(2), D(f=F(0.0, 1.0)), 5], False, True))
  # Distinguishable only thanks to encode's constraint checks.
  add(lambda: One([F(0.0, 1.0), F(2.0, 3.0)]))
  add(lambda: One([F(0.0, 1.0), 2, 'x', None]))
  add(lambda: One([Many(1, [1, 2]), Many(2, [1, 2])]))
  add(lambda: One([L([One([1, 2])]), L([One([1, 2]), 3])]))
  add(lambda: One([D(a=One([1, 2])), D(a=One([1, 2]), b=1)]))
  add(lambda: One([D(a=One([1, 2]), b=1), D(a=One([1, 2]))]))
  add(lambda: One([O(A, x=One([1, 2])), O(A2, x=One([1, 2]))]))
  add(lambda: One([O(A2, x=One([1, 2])), O(A, x=One([1, 2]))]))
  add(lambda: One([1, One([2, 3])]))
  add(lambda: One([D(a=1), L([1]), 1, '1', None, 1.5, True]))
  add(lambda: One([D(a=One([1, 2]), b=Ref('a')), 0]))
  # Overlapping candidates (indistinguishable): only the weaker law applies.
  add(lambda: One([One([1, 2]), One([2, 3])]))
  add(lambda: One([F(0.0, 1.0), F(0.5, 1.5)]))
  add(lambda: Many(2, [1, 1, 2], False, False))
  return P


def contexts():
  """Functions embedding one placeholder h (plus fresh siblings) in a value."""
  return [
      ('root', lambda h, P: h),
      ('dict', lambda h, P: D(a=h)),
      ('list', lambda h, P: L([h])),
      ('nested', lambda h, P: D(a=0, b=L([1, h]), c='s')),
      ('object', lambda h, P: O(A, x=1, y=h)),
      ('deep', lambda h, P: D(a=O(A, x=2, y=D(z=L([h]))))),
      ('two', lambda h, P: D(a=h, b=One(['m', 'n']))),
      ('two-rev', lambda h, P: L([Many(2, [1, 2, 3], True, True), h])),
      ('three', lambda h, P: L([F(0.0, 1.0), h, O(A, x=One([1, 2]))])),
      ('ref', lambda h, P: D(a=h, b=Ref('a'), c=D(d=Ref('a'), e=L([Ref('a')])))),
  ]


def typed_templates():
  return [
      O(B, p=Many(2, [1, 2, 3]), q=F(0.0, 1.0), r=One(['a', 5]),
        s=D(k=One([1, 2]), l='l')),
      O(B, p=One([L([1]), L([2, 3]), L([])]), q=One([0.0, 0.5, F(0.25, 0.75)]),
        r=One([One(['a', 'b']), 7]), s=One([D(k=1, l='a'), D(k=2, l=One(['b', 'c']))])),
      O(B, p=L([One([1, 2]), 3]), q=1.0, r='r', s=D(k=0, l=One(['x', 'y']))),
      O(B, p=Many(3, [1, 2, One([3, 4])], False, True), q=F(1.0, 1.0), r=0,
        s=D(k=1, l='l')),
      O(A, x=One([0, 9, One([4, 5])]), y=O(A, x=One([1, 2]), y=O(A2, x=One([3])))),
      D(u=O(A, x=3, y=Many(2, [O(A, x=1), O(A, x=One([2, 3]))]))),
      L([O(B, p=Cu(3), q=One([0.0, 1.0]), r=One([1, 'b']), s=D(k=1, l='l')),
         O(A, x=3, y=Ev())]),
  ]


def where_variants(root, rnd, limit):
  names = hyper_names(root)
  if not names:
    return []
  out = [frozenset()]                       # nothing selected: constant
  for n in names:
    out.append(frozenset(names) - {n})      # all but one
    out.append(frozenset([n]))              # just one
  for _ in range(3):
    out.append(frozenset(n for n in names if rnd.random() < 0.5))
  uniq = []
  for s in out:
    if s not in uniq and s != frozenset(names):
      uniq.append(s)
  if len(uniq) > limit:
    head = uniq[:1]
    rest = uniq[1:]
    rnd.shuffle(rest)
    uniq = head + rest[:limit - 1]
  return uniq


def random_node(rnd, depth, anyfield=True):
  """Random descriptor (depth-limited)."""
  r = rnd.random()
  if depth <= 0 or r < 0.22:
    return C(rnd.choice([0, 1, 2, 3, 'a', 'b', None, 2.5, True]))
  if r < 0.32:
    keys = rnd.sample(['a', 'b', 'c', 'd'], rnd.randint(0, 3))
    return D(**{k: random_node(rnd, depth - 1) for k in keys})
  if r < 0.40:
    return L([random_node(rnd, depth - 1) for _ in range(rnd.randint(0, 3))])
  if r < 0.48:
    cls = rnd.choice([A, A2, SC, NE, WE])
    if cls in (A, A2):
      return O(cls, x=random_int_node(rnd, depth - 1), y=random_node(rnd, depth - 1))
    if cls is WE:
      return O(cls, k=random_node(rnd, depth - 1))
    return O(cls, k=random_node(rnd, depth - 1), m=random_node(rnd, depth - 1))
  if r < 0.68:
    return One([random_node(rnd, depth - 1) for _ in range(rnd.randint(1, 3))])
  if r < 0.86:
    m = rnd.randint(1, 3)
    distinct = rnd.random() < 0.5
    k = rnd.randint(1, m if distinct else 2)
    return Many(k, [random_node(rnd, depth - 1) for _ in range(m)], distinct,
                rnd.random() < 0.5)
  if r < 0.94:
    lo = rnd.choice([-1.0, 0.0, 0.5])
    return F(lo, lo + rnd.choice([0.0, 0.5, 2.0]))
  if r < 0.97:
    return Cu(rnd.randint(1, 3))
  return Ev()


def random_int_node(rnd, depth):
  if depth <= 0 or rnd.random() < 0.5:
    return C(rnd.randint(0, 9))
  return One([random_int_node(rnd, depth - 1) for _ in range(rnd.randint(1, 3))])


def random_root(rnd, depth):
  while True:
    k = rnd.random()
    if k < 0.5:
      keys = rnd.sample(['a', 'b', 'c', 'd'], rnd.randint(1, 3))
      root = D(**{key: random_node(rnd, depth) for key in keys})
    elif k < 0.75:
      root = L([random_node(rnd, depth) for _ in range(rnd.randint(1, 3))])
    else:
      root = O(A, x=random_int_node(rnd, depth), y=random_node(rnd, depth))
    if any(n.kind in HYPER for n in walk(root)):
      return root


# ---------------------------------------------------------------------------
# Driver 1: decode / encode / non-interference over template shapes x DNAs.
# ---------------------------------------------------------------------------


def all_templates(tier, seed, with_where=True):
  """Yields (root, sel) for the systematic catalogue + random templates."""
  rnd = rng(seed, 'c13-templates')
  quick = tier == 'quick'
  P = primitives(tier)
  ctxs = contexts()
  for pi, p in enumerate(P):
    for ci, (cname, ctx) in enumerate(ctxs):
      if quick:
        if not ((cname == 'root' and (pi + seed) % 5 != 4)
                or ci == 1 + (pi + seed) % (len(ctxs) - 1)):
          continue
      elif cname not in ('root', 'two', 'three') and (pi + ci + seed) % 3:
        continue
      prim = p()
      if cname == 'ref' and has_ref(prim):
        continue   # references to values holding references are unsupported
      root = assign_names(ctx(prim, P))
      yield root, None
      if not with_where or has_ref(root):
        continue
      if quick:
        if (pi + seed) % 5 == 0 and (cname != 'root' or len(hyper_names(root)) > 1):
          for sel in where_variants(root, rnd, 2):
            yield root, sel
      elif cname in ('root', 'two', 'deep', 'three') and (pi + ci) % 2 == 0:
        for sel in where_variants(root, rnd, 3):
          yield root, sel
  for root in typed_templates():
    root = assign_names(root)
    yield root, None
    if with_where:
      for sel in where_variants(root, rnd, 2 if quick else 4):
        yield root, sel
  n_rand = 6 if quick else 110
  for i in range(n_rand):
    root = assign_names(random_root(rnd, rnd.choice([1, 2, 2, 3])))
    yield root, None
    if with_where and i % 2 == 0:
      for sel in where_variants(root, rnd, 2):
        yield root, sel


def drv_decode_encode(tier, seed):
  cap = 9 if tier == 'quick' else 40
  rec = Recorder(
      'C13', 'decode/encode vs reference model over template shapes x DNAs',
      scope='catalogue: ~70 placeholder shapes (oneof; manyof 4 modes, k<=3, '
      'n<=4; floatv; custom; evolvable; conditional depth<=3) x 10 contexts '
      '(root/dict/list/object/siblings/ref) + typed-field objects + seeded '
      f'random templates; `where` subsets; all DNAs if <= {cap} else {cap} '
      'random; floats at lo/mid/hi; encode of the decoded value, of an '
      'independently built equal value, and of an equal value made of '
      'built-in dict / list containers; encode of values changed at one '
      'place (extra / missing key or element, other leaf, other class, '
      '{} <-> []) leaves the template unchanged')
  rnd = rng(seed, 'c13-decode')
  for ti, (root, sel) in enumerate(all_templates(tier, seed)):
    try:
      check_template(rec, root, sel, rnd, cap,
                     deep_checks=2 if tier == 'quick' else 4,
                     foreign_checks=(ti % 3 == 0) if tier == 'quick' else 3)
    except Exception as e:  # pylint: disable=broad-except
      rec.case('harness/' + signature(root, sel), (src(root), sel), False,
               f'harness error {type(e).__name__}: {e}', src(root))
  return rec.result()


# ---------------------------------------------------------------------------
# Driver 2: pg.iter / pg.random_sample enumerate exactly the space.
# ---------------------------------------------------------------------------


def only_custom_infinite(root, sel):
  return not any(n.kind in ('f', 'ev') and is_sel(n, sel) for n in walk(root))


def check_iter(rec, root, sel, total, seed, sample, post=None, sig=None,
               quick=False):
  """pg.iter over one finite template vs the model's enumeration."""
  sig = sig or signature(root, sel)
  vsrc = src(root)
  key0 = (vsrc, None if sel is None else tuple(sorted(sel)))
  pre = header(root) + f'v = {vsrc}\n'
  wsrc = where_src(sel)
  try:
    if any(n.kind == 'pr' for n in walk(root)):
      sh_reset()
      rec = _WitnessRec(rec)
    v = build(root)
    snap = Snapshot(v)
    pairs = enum(root, sel)
    refs = has_ref(root)
    want = [resolve_refs(_copy_mv(mv)) if refs else mv for _, mv in pairs]
    want = [mv_key(post(mv) if post else mv) for mv in want]
    xs = list(pg.iter(v, where=where_fn(sel)))
    got = [pg_key(x) for x in xs]
  except Exception as e:  # pylint: disable=broad-except
    rec.case(f'iter.run/{sig}', key0, False,
             f'unexpected {type(e).__name__}: {str(e)[:300]}',
             pre + f'list(pg.iter(v{wsrc}))')
    return
  rec.case(f'iter.count/{sig}', key0, len(xs) == total,
           f'pg.iter yielded {len(xs)} values, space has {total}',
           pre + f'assert len(list(pg.iter(v{wsrc}))) == {total}')
  exact = msize(root, sel, exact=True)
  if exact is not None:
    sz = pg.dna_spec(v, where=where_fn(sel)).space_size
    rec.case(f'iter.count-vs-space_size/{sig}', key0, len(xs) == sz,
             f'pg.iter yielded {len(xs)} values, space_size is {sz}',
             pre + f'assert len(list(pg.iter(v{wsrc}))) == pg.dna_spec(v{wsrc}).space_size')
  rec.case(f'iter.values/{sig}', key0, set(got) == set(want),
           f'values not in the space: {list(set(got) - set(want))[:2]}; '
           f'missing: {list(set(want) - set(got))[:2]}',
           pre + f'print(list(pg.iter(v{wsrc})))  # differs from the space of v')
  if distinguishable(root, sel):
    rec.case(f'iter.pairwise-different/{sig}', key0, len(set(got)) == len(got),
             f'{len(got) - len(set(got))} repeated values',
             pre + f'xs = list(pg.iter(v{wsrc}))\n'
             'assert all(not pg.eq(a, b) for i, a in enumerate(xs) for b in xs[:i])')
  df = snap.diff()
  rec.case(f'iter.template-unchanged/{sig}', key0, df is None, df,
           pre + f'j = pg.to_json_str(v); list(pg.iter(v{wsrc})); assert pg.to_json_str(v) == j')
  ks = {1, max(total - 1, 1), total + 2}
  if quick and total > 2:
    ks.discard(1 if len(vsrc) % 2 else total + 2)
  for k in sorted(ks):
    try:
      ys = list(pg.iter(v, k, where=where_fn(sel)))
      ok = [pg_key(y) for y in ys] == got[:k]
      msg = f'pg.iter(v, {k}) gave {len(ys)} values / other values than the first {k}'
    except Exception as e:  # pylint: disable=broad-except
      ok, msg = False, f'{type(e).__name__}: {e}'
    rec.case(f'iter.num_examples/{sig}', key0 + (k,), ok, msg,
             pre + f'assert len(list(pg.iter(v, {k}{wsrc}))) == {min(k, total)}')
  if sample:
    try:
      zs = list(pg.random_sample(v, 6, where=where_fn(sel), seed=seed))
      bad = [z for z in zs if pg_key(z) not in set(want)]
      ok, msg = len(zs) == 6 and not bad, f'{len(zs)} samples; outside space: {bad[:1]}'
    except Exception as e:  # pylint: disable=broad-except
      ok, msg = False, f'{type(e).__name__}: {e}'
    rec.case(f'random_sample.member/{sig}', key0, ok, msg,
             pre + f'print(list(pg.random_sample(v, 6{wsrc}, seed={seed})))')


def drv_iter(tier, seed):
  cap = 40 if tier == 'quick' else 130
  rec = Recorder(
      'C13', 'pg.iter yields space_size pairwise different values (vs model)',
      scope='catalogue + random templates (as in drv_decode_encode) without '
      f'float/evolvable, model space size <= {cap}; with and without `where`; '
      'num_examples in {1, size-1, size+2}; pg.random_sample membership')
  rnd = rng(seed, 'c13-iter')
  n_done = 0
  limit = 70 if tier == 'quick' else 900
  for ti, (root, sel) in enumerate(all_templates(tier, seed + 101)):
    if n_done >= limit:
      break
    if not only_custom_infinite(root, sel):
      continue
    total = msize(root, sel)
    if total > cap or not prim_paths(root, sel):
      continue
    if unselected_below_selected_choice(root, sel) and has_ref(root):
      continue
    n_done += 1
    check_iter(rec, root, sel, total, seed, n_done % 3 == 0,
               quick=tier == 'quick')
  return rec.result()


# ---------------------------------------------------------------------------
# Driver 2b: placeholders bound to value specs that *normalise* the accepted
# candidate (built-in converters, defaults of dict / object fields): the
# decoded value is the normalised one, and encoding it gives back the DNA.
# ---------------------------------------------------------------------------

_KP = pg.KeyPath.parse
_DT = datetime.datetime(2020, 1, 1)

# (name, element spec, three pairwise different candidates, conversion class)
TYPED_ELEMS = [
    ('float', S_FLOAT, [1, 2, 3], 'int->float'),
    ('float', S_FLOAT, [1, 2.5, -3], 'int->float'),
    ('float', S_FLOAT, [0.5, 1.5, 2.5], 'no-conversion'),
    ('nfloat', S('none', S_FLOAT), [1, None, 2.5], 'int->float'),
    ('ufs', S('union', S_FLOAT, S('str')), [1, 'a', 2], 'int->float'),
    ('usf', S('union', S('str'), S_FLOAT), ['a', 2, 3.5], 'int->float'),
    ('keypath', S('keypath'), ['a.b', 'c', 'd[0]'], 'str->keypath'),
    ('keypath', S('keypath'), ['a.b', _KP('c'), 'd[0]'], 'str->keypath'),
    ('str', S('str'), [_KP('a.b'), 'c', _KP('d[0]')], 'keypath->str'),
    ('datetime', S('datetime'), [0, 86400, _DT], 'int->datetime'),
    ('int', S('int'), [_DT, 5, 6], 'datetime->int'),
    ('any', S_ANY, [1, 2.5, 'x'], 'no-conversion'),
    ('int', S('int'), [4, 5, 6], 'no-conversion'),
]

# Field spec built around the element spec E, by field kind.
FIELD_KINDS = {
    'e': lambda e: e,
    'l': lambda e: S('list', e),
    'd': S_DFL,
    'ld': lambda e: S('list', S_DFL(e)),
    't': lambda e: S('tuple', e, S('str')),
}

for _nm, _e in sorted({(x[0], x[1]) for x in TYPED_ELEMS}, key=lambda x: x[0]):
  if 'TH_e_' + _nm not in HOSTS:
    for _fk, _mk in FIELD_KINDS.items():
      _host(f'{_fk}_{_nm}', _mk(_e))
    _host(f'o_{_nm}', S('obj', HOSTS['TH_e_' + _nm]))
    _host(f'lo_{_nm}', S('list', S('obj', HOSTS['TH_e_' + _nm])))


def field_spec(fk, nm, e):
  if fk == 'o':
    return S('obj', HOSTS['TH_e_' + nm])
  if fk == 'lo':
    return S('list', S('obj', HOSTS['TH_e_' + nm]))
  return FIELD_KINDS[fk](e)


def typed_shapes(nm, cs):
  """(shape class, field kind, factory of the placeholder subtree)."""
  c0, c1, c2 = cs
  E = HOSTS['TH_e_' + nm]
  out = []
  add = lambda c, fk, f: out.append((c, fk, f))
  add('const-candidates', 'e', lambda: One(cs))
  add('const-candidates', 'e', lambda: One([c2, c0]))
  add('nested-oneof', 'e', lambda: One([c0, One([c1, c2])]))
  add('nested-oneof', 'e', lambda: One([One([One([c1, c2])]), c0]))
  for distinct in (True, False):
    for srt in (False, True):
      add('manyof', 'l', lambda d=distinct, s_=srt: Many(2, cs, d, s_))
  add('manyof', 'l', lambda: Many(1, cs))
  add('manyof', 'l', lambda: Many(3, cs))
  add('manyof-nested', 'l', lambda: Many(2, [One([c0, c1]), c2], False, False))
  add('const-list-candidates', 'l', lambda: One([L([c0]), L([c0, c1]), L([])]))
  add('list-literal', 'l', lambda: L([One(cs), c0]))
  add('nonconst-list-candidates', 'l',
      lambda: One([L([One(cs)]), L([c0, One([c1, c2])])]))
  add('const-dict-candidates+default', 'd', lambda: One([D(k=c0), D(k=c1, l='z')]))
  add('dict-literal+default', 'd', lambda: D(k=One(cs)))
  add('nonconst-dict-candidates+default', 'd',
      lambda: One([D(k=One(cs)), D(k=c0, l=One(['y', 'z']))]))
  add('manyof-dict-candidates+default', 'ld',
      lambda: Many(2, [D(k=c0), D(k=c1, l='z'), D(k=One([c1, c2]))]))
  add('const-tuple-candidates', 't', lambda: One([C((c0, 'a')), C((c1, 'b'))]))
  add('const-object-candidates+default', 'o',
      lambda: One([O(E, v=c0), O(E, v=c1, w=8)]))
  add('nonconst-object-candidates+default', 'o',
      lambda: One([O(E, v=One(cs), w=7), O(E, v=c0, w=One([8, 9]))]))
  add('manyof-object-candidates+default', 'lo',
      lambda: Many(2, [O(E, v=c0), O(E, v=c1, w=8), O(E, v=One([c1, c2]), w=9)],
                   True, True))
  if nm == 'float':
    add('const-candidates-and-floatv', 'e', lambda: One([F(0.25, 0.75), c0, c2]))
    add('const-candidates-and-floatv', 'l',
        lambda: Many(2, [F(0.25, 0.75), c0, c2], False, False))
  return out


TYPED_HOSTS = [
    # (name, placeholder subtree h, host class, field spec) -> root
    ('object-field', lambda h, cls, fs: O(cls, v=h)),
    ('dict-field', lambda h, cls, fs: with_spec(D(a=h), S('dict', ('a', fs)))),
    ('list-element', lambda h, cls, fs: with_spec(L([h]), S('list', fs))),
    ('object-in-candidate', lambda h, cls, fs: One([O(cls, v=h), 'z'])),
    ('object-field+sibling', lambda h, cls, fs: O(cls, v=h, w=One([1, 2]))),
]


def _typed_root(nm, e, fk, mk, hi):
  fs = field_spec(fk, nm, e)
  cls = HOSTS[f'TH_{fk}_{nm}']
  root = assign_names(TYPED_HOSTS[hi % len(TYPED_HOSTS)][1](mk(), cls, fs))
  rsd = root.spec if root.kind in ('d', 'l') and root.spec else S_ANY
  return root, (lambda mv, rsd=rsd: norm(rsd, mv))


def typed_templates_conv(tier, seed):
  """Yields (root, post, sig) of the value-spec normalisation catalogue.

  quick: every element spec with constant oneof candidates in one host; every
  placement with the int->float element and with one other element (rotating
  with the seed), each in one host (rotating).  thorough: every element x
  every placement in two hosts, constant candidates in all hosts.
  """
  quick = tier == 'quick'
  nh = len(TYPED_HOSTS)
  # Converters whose result is not == their input are one input class of their
  # own, checked on a fixed small set of placements.
  uneq = [x for x in TYPED_ELEMS if 'datetime' in x[3]]
  elems = [x for x in TYPED_ELEMS if x not in uneq]
  for nm, e, cs, conv in uneq:
    shapes = typed_shapes(nm, cs)
    for si, hi in ((0, 0), (0, 1), (4, 1)):
      _, fk, mk = shapes[si]
      root, post = _typed_root(nm, e, fk, mk, hi)
      yield root, post, 'typed[int<->datetime]'
  for ei, (nm, e, cs, conv) in enumerate(elems):
    shapes = typed_shapes(nm, cs)
    for si, (shape, fk, mk) in enumerate(shapes):
      if not quick:
        his = range(nh) if si == 0 else [(ei + si + seed) % nh, (ei + si + seed + 2) % nh]
      elif si == 0 or ei == 0 or ei == 1 + (si + seed) % (len(elems) - 1):
        his = [(ei + si + seed) % nh]
      else:
        continue
      for hi in his:
        root, post = _typed_root(nm, e, fk, mk, hi)
        yield root, post, f'typed[{conv}].{shape}'


def drv_typed_roundtrip(tier, seed):
  cap = 7 if tier == 'quick' else 30
  rec = Recorder(
      'C13', 'decode/encode/iter of placeholders bound to value specs that '
      'normalise their candidates (vs reference model of the spec)',
      scope='element specs Float / noneable Float / Union(Float,Str) / '
      'Object(KeyPath) / Str / Object(datetime) / Int / Any with candidates '
      'needing the built-in converters int->float, str<->KeyPath, '
      'int<->datetime (and controls without conversion) x 24 placements '
      '(constant / nested / non-constant candidates of oneof; manyof 4 modes; '
      'list, dict(+default), tuple, object(+default) candidates and literals) '
      'x 5 hosts (object field, pg.Dict / pg.List value_spec, object inside a '
      f'candidate, with sibling); all DNAs if <= {cap} else {cap} random; '
      'quick: one host per placement')
  rnd = rng(seed, 'c13-typed')
  with warnings.catch_warnings():
    warnings.simplefilter('ignore')
    for n, (root, post, sig) in enumerate(typed_templates_conv(tier, seed)):
      try:
        check_template(rec, root, None, rnd, cap,
                       deep_checks=2 if tier == 'quick' else 4, post=post,
                       sig=sig)
        total = msize(root, None)
        if (tier != 'quick' or n % 3 == 0) and total <= 40 and (
            only_custom_infinite(root, None)):
          check_iter(rec, root, None, total, seed, n % 6 == 0, post=post,
                     sig=sig, quick=tier == 'quick')
      except Exception as e:  # pylint: disable=broad-except
        rec.case('harness/' + sig, src(root), False,
                 f'harness error {type(e).__name__}: {e}', src(root))
  return rec.result()


# ---------------------------------------------------------------------------
# Driver 2c: candidate / constant kinds for which a shortcut in the structural
# comparison of encode is wrong:
#   * containers that are empty, or a key-subset / prefix of a sibling
#     candidate (an empty template node "matches" everything only if the walk
#     forgets to look at what the input has in addition), in both orders;
#   * symbolic objects whose Python `==` is not the symbolic comparison
#     (identity for pg.symbolize-d classes and use_symbolic_comparison=False,
#     or a user-defined broader `==`): decode hands out copies, so only the
#     structural comparison can recognise the candidate.
# All these candidates are pairwise distinguishable (pg.eq is False).
# ---------------------------------------------------------------------------


LIST_VS_EMPTY_DICT = 'list-and-empty-dict-candidates'
REF_NONSYM = 'ref-to-nonsymbolic-eq-object'


def kind_families():
  """name -> three factories of pairwise distinguishable constant candidates."""
  sc = lambda **kw: (lambda: O(SC, **kw))
  ne = lambda **kw: (lambda: O(NE, **kw))
  we = lambda **kw: (lambda: O(WE, **kw))
  return [
      ('dict-key-subsets', [lambda: D(), lambda: D(p=1), lambda: D(p=1, q=2)]),
      ('list-prefixes', [lambda: L([]), lambda: L([1]), lambda: L([1, 2])]),
      ('nested-empty-dict', [lambda: D(a=D()), lambda: D(a=D(x=1)),
                             lambda: D(a=D(x=1, y=D()))]),
      ('nested-empty-list', [lambda: L([L([])]), lambda: L([L([0])]),
                             lambda: D(a=L([]))]),
      ('object-with-empty-dict-field',
       [lambda: O(A, x=1, y=D()), lambda: O(A, x=1, y=D(k=1)),
        lambda: O(A, x=1, y=D(k=1, l=D()))]),
      ('object-with-empty-list-field',
       [lambda: O(A, x=1, y=L([])), lambda: O(A, x=1, y=L([0])),
        lambda: O(A, x=1, y=L([0, L([])]))]),
      ('empty-dict-and-leaves', [lambda: D(), lambda: C(None), lambda: C('')]),
      ('empty-list-and-leaves', [lambda: L([]), lambda: C(None), lambda: C(0)]),
      # A list node of the template meets an empty dict value (one input class
      # whatever the placement: see LIST_VS_EMPTY_DICT).
      (LIST_VS_EMPTY_DICT, [lambda: L([]), lambda: D(), lambda: L([1])]),
      (LIST_VS_EMPTY_DICT, [lambda: O(A, x=1, y=L([])), lambda: O(A, x=1, y=D()),
                            lambda: O(A, x=2, y=L([0]))]),
      ('symbolized-class-object', [sc(k=3), sc(k=5), sc(k=3, m=1)]),
      ('object-with-identity-eq', [ne(k=3), ne(k=5), ne(k=D(p=3))]),
      ('object-with-broad-eq', [we(k=3), we(k=5), we(k='x')]),
      ('container-of-nonsymbolic-eq-objects',
       [lambda: D(p=O(SC, k=3)), lambda: D(p=O(SC, k=5)),
        lambda: L([O(NE, k=3), O(WE, k=1)])]),
      ('nested-nonsymbolic-eq-objects',
       [lambda: O(NE, k=O(SC, k=1), m=L([O(WE, k=1)])),
        lambda: O(NE, k=O(SC, k=2), m=L([O(WE, k=1)])),
        lambda: O(NE, k=O(SC, k=1), m=L([O(WE, k=2)]))]),
  ]


def kind_shapes(cs):
  """(shape class, factory of a root) around three candidate factories."""
  c0, c1, c2 = cs
  out = []
  add = lambda c, f: out.append((c, f))
  # Constant candidates, in both orders, at the root (decode returns the
  # candidate) and inside a container (decode returns a copy).
  add('oneof-const-candidates', lambda: One([c0(), c1(), c2()]))
  add('oneof-const-candidates', lambda: D(z=One([c2(), c1(), c0()])))
  add('oneof-const-candidates', lambda: D(z=One([c0(), c1(), c2()])))
  add('oneof-const-candidates', lambda: L([One([c1(), c0()]), One([c0(), c2()])]))
  add('nested-oneof', lambda: D(z=One([c0(), One([c1(), c2()])])))
  add('nested-oneof', lambda: L([One([One([One([c2(), c1()])]), c0()])]))
  for distinct in (True, False):
    for srt in (False, True):
      add('manyof', lambda d=distinct, s_=srt: D(z=Many(2, [c0(), c1(), c2()], d, s_)))
  add('manyof', lambda: Many(3, [c2(), c0(), c1()]))
  add('manyof', lambda: Many(1, [c0(), c1()]))
  # The same kinds as constant parts of the template itself.
  add('constant-siblings', lambda: D(u=One([c2(), c0()]), v=c1(), w=c0()))
  add('constant-siblings', lambda: L([c0(), One([1, 2]), c1(), c2()]))
  add('constant-siblings', lambda: O(NE, k=One([c0(), c1(), c2()]), m=c0()))
  add('constant-siblings-in-candidates',
      lambda: D(z=One([D(r=c0(), s=One([1, 2])), D(r=c1(), s=One([1, 2]))])))
  add('constant-siblings-in-candidates',
      lambda: D(z=One([L([c1(), One([1, 2])]), L([c0(), One([1, 2])])])))
  add('nonconst-candidates',
      lambda: D(z=One([D(r=c0(), s=One([c1(), c2()])), D(r=One([c0(), c2()]))])))
  add('nonconst-candidates',
      lambda: One([L([One([c0(), c1()])]), L([c2(), One([c0(), c1()])])]))
  add('object-field', lambda: O(A, x=One([1, 2]), y=One([c0(), c1(), c2()])))
  add('object-field', lambda: O(SC, k=One([c2(), c1(), c0()]), m=One([0, 1])))
  add('manyof-nested', lambda: D(z=Many(2, [One([c0(), c1()]), c2()], False, False)))
  return out


def _has_nonsym(root):
  return any(n.kind == 'o' and n.cls in (SC, NE, WE) for n in walk(root))


def kind_templates(tier, seed):
  """Yields (root, sig).  quick: per family the constant-candidate shapes plus
  a rotating third of the others; thorough: everything."""
  quick = tier == 'quick'
  for fi, (fam, cs) in enumerate(kind_families()):
    shapes = kind_shapes(cs)
    for si, (shape, mk) in enumerate(shapes):
      if quick and not (si in (0, 1) or (si + 3 * fi + seed) % 10 == 0):
        continue
      yield (assign_names(mk()),
             fam if fam == LIST_VS_EMPTY_DICT else f'{fam}.{shape}')
    if fam == LIST_VS_EMPTY_DICT:
      continue
    # A reference to the chosen candidate (derived values are compared too).
    nonsym = any(_has_nonsym(c()) for c in cs)
    c0, c1, c2 = cs
    yield (assign_names(D(a=One([c0(), c1(), c2()]), b=Ref('a'),
                          c=L([Ref('a')]))),
           REF_NONSYM if nonsym else f'{fam}.ref')


def drv_candidate_kinds(tier, seed):
  cap = 9 if tier == 'quick' else 30
  rec = Recorder(
      'C13', 'decode/encode/iter with candidates and constants that are empty '
      'or sub-containers of each other, or symbolic objects without symbolic '
      '`==` (vs reference model)',
      scope='16 candidate families (dict key-subsets incl. {}, list prefixes '
      'incl. [], nested empty dict/list, object field holding {} / [], '
      '{} or [] next to None / 0 / \'\', [] next to {}; pg.symbolize-d class, pg.Object with '
      'use_symbolic_comparison=False, pg.Object with a broader __eq__, and '
      'containers / nestings of those) x 22 placements (oneof constant '
      'candidates in both orders at the root and inside containers, nested '
      'oneof, manyof 4 modes, constant siblings of the template and of '
      'candidates, non-constant candidates, object fields, value reference); '
      f'all DNAs if <= {cap} else {cap} random; encode of foreign values; '
      'quick: a rotating third of the placements')
  rnd = rng(seed, 'c13-kinds')
  for n, (root, sig) in enumerate(kind_templates(tier, seed)):
    try:
      check_template(rec, root, None, rnd, cap,
                     deep_checks=2 if tier == 'quick' else 4, sig=sig,
                     foreign_checks=1 if tier == 'quick' else 3)
      total = msize(root, None)
      if (tier != 'quick' or n % 6 == 0) and total <= 40:
        check_iter(rec, root, None, total, seed, n % 10 == 0, sig=sig,
                   quick=tier == 'quick')
    except Exception as e:  # pylint: disable=broad-except
      rec.case('harness/' + sig, src(root), False,
               f'harness error {type(e).__name__}: {e}', src(root))
  return rec.result()


# ---------------------------------------------------------------------------
# Driver 2d: members of templates that are neither constants nor placeholders:
#   * PARTIAL objects -- Cls.partial(..), partially bound functors,
#     pg.Dict.partial(value_spec=..), a dict-typed field with an unfilled key:
#     their unfilled required fields hold (typed) missing values.  They are
#     ordinary template members (a placeholder in a filled field, constant
#     siblings of placeholders, oneof / manyof candidates), and candidates that
#     fill different required fields are distinguishable;
#   * pg.Ref members -- references to objects outside the template, in dict
#     fields, object fields, list items, as candidates and inside candidates:
#     the decoded value holds the referenced object, which itself is neither
#     changed nor moved;
#   * values inferred from the parent chain (pg.symbolic.ValueFromParentChain)
#     next to placeholders: they are not placeholders of the space.
# ---------------------------------------------------------------------------

S_TD = S('dict', ('a', S('int')), ('b', S_ANY), ('e', S_ANY))


def partial_kinds():
  """kind -> holes: (factory of the partial object around a placeholder h, h
  must be int-valued); const: constant partial object c(i); cands: five
  pairwise distinguishable constant candidates; labels: see check_template."""
  K = {}
  K['object'] = dict(
      holes=[(lambda h: O(PP, k=h), False), (lambda h: O(PP, f=h), True),
             (lambda h: O(PP, k=h, d=4), False)],
      const=lambda i: O(PP, k=i),
      cands=[lambda: O(PP, k=1), lambda: O(PP, f=1), lambda: O(PP, f=1, k=1),
             lambda: O(PP, k=2), lambda: O(PP)],
      labels=None)
  K['object-nested'] = dict(
      holes=[(lambda h: O(PN, k=h), False),
             (lambda h: O(PN, k=1, n=Dplain(w=h)), True),
             (lambda h: O(PN, k=0, o=O(PP, k=h)), False),
             (lambda h: O(PN, n=Dplain(u=h), o=O(PP, f=2, k=3)), True)],
      const=lambda i: O(PN, k=i),
      cands=[lambda: O(PN, k=1), lambda: O(PN, k=1, n=Dplain(u=5)),
             lambda: O(PN, k=1, o=O(PP, k=1)), lambda: O(PN, k=2),
             lambda: O(PN, o=O(PP, f=1, k=1))],
      labels=None)
  K['functor'] = dict(
      holes=[(lambda h: O(PF, a=h), False), (lambda h: O(PF, b=h, c=2), False)],
      const=lambda i: O(PF, a=i),
      cands=[lambda: O(PF, a=1), lambda: O(PF, b=1), lambda: O(PF, a=1, b=1),
             lambda: O(PF, a=2), lambda: O(PF)],
      labels=None)
  K['symbolized-class'] = dict(
      holes=[(lambda h: O(SC, m=h), False)],
      const=lambda i: O(SC, m=i),
      cands=[lambda: O(SC, m=1), lambda: O(SC, k=1, m=1), lambda: O(SC, m=2),
             lambda: O(SC, k=2, m=1), lambda: O(SC, k=1, m=2)],
      labels=None)
  # An untyped dict without the unfilled key is not equal to the typed partial
  # dict: only the decoded value itself is encoded.
  K['typed-dict'] = dict(
      holes=[(lambda h: Dpartial(S_TD, b=h), False),
             (lambda h: Dpartial(S_TD, a=h, e=0), True)],
      const=lambda i: Dpartial(S_TD, b=i),
      cands=[lambda: Dpartial(S_TD, b=1), lambda: Dpartial(S_TD, a=1),
             lambda: Dpartial(S_TD, a=1, b=1), lambda: Dpartial(S_TD, b=2),
             lambda: Dpartial(S_TD, a=1, b=1, e=1)],
      labels=('decoded',),
      # A partial pg.Dict is refused by Any-typed fields (object fields,
      # candidate lists): it can only sit in untyped dicts / lists.
      containers_only=True)
  return K


def partial_templates(tier, seed):
  """Yields (root factory, sig, labels, with_where)."""
  quick = tier == 'quick'
  ctxs = [c for c in contexts() if c[0] != 'ref']
  for ki, (kind, K) in enumerate(partial_kinds().items()):
    sig = lambda placement, kind=kind: f'partial-{kind}.{placement}'
    lab = K['labels']
    c = K['const']
    cs = K['cands']
    n = seed + ki
    conly = K.get('containers_only', False)
    # (1) a placeholder in a filled field of the partial object.
    hs_any = [lambda: One([1, 2]), lambda: One([1, One([2, 3])]),
              lambda: Many(2, [1, 2, 3]), lambda: F(0.0, 1.0), lambda: Cu(2),
              lambda: Many(2, [4, 5], False, True)]
    hs_int = [lambda: One([1, 2]), lambda: One([1, One([2, 3])])]
    for hi, (hole, int_only) in enumerate(K['holes']):
      hs = hs_int if int_only else hs_any
      for ci, (cname, ctx) in enumerate(ctxs):
        if conly and cname in ('object', 'deep'):
          continue
        for pi, h in enumerate(hs):
          # quick: per hole the plain oneof at the root, and a rotating
          # quarter of the contexts with one (rotating) placeholder kind each.
          if quick and not (pi == 0 and cname == 'root') and (
              (ci + hi + n) % 4 or (pi + ci // 4 + hi + n) % len(hs)):
            continue
          if not quick and (pi + ci + hi + n) % 2 and cname not in ('root', 'dict'):
            continue
          yield ((lambda ctx=ctx, hole=hole, h=h: ctx(hole(h()), None)),
                 sig('placeholder-in-filled-field'), lab,
                 cname in ('two', 'three'))
    # (2) partial objects as constant siblings of placeholders.
    yield (lambda c=c: D(u=One([1, 2]), v=c(1)), sig('constant-sibling'), lab, False)
    yield (lambda c=c: L([c(1), F(0.0, 1.0), c(2)]), sig('constant-sibling'), lab, False)
    if conly:
      yield (lambda c=c: D(u=One([D(p=1, q=One([1, 2])), 3]), w=L([c(1)])),
             sig('constant-sibling'), lab, True)
      continue
    yield (lambda c=c: O(A, x=One([1, 2]), y=c(1)), sig('constant-sibling'), lab, False)
    yield (lambda c=c: D(u=One([D(p=c(1), q=One([1, 2])), 3])),
           sig('constant-sibling'), lab, False)
    # (3) constant candidates: same / different sets of unfilled fields, in
    # both orders, next to non-object candidates.
    cc = sig('const-candidates')
    yield (lambda cs=cs: One([cs[0](), cs[3]()]), cc, lab, False)
    yield (lambda cs=cs: D(z=One([cs[3](), cs[0]()])), cc, lab, False)
    yield (lambda cs=cs: D(z=One([cs[0](), cs[1](), cs[2]()])), cc, lab, False)
    if not quick or n % 2:
      yield (lambda cs=cs: L([One([cs[2](), cs[1](), cs[0]()])]), cc, lab, False)
      yield (lambda cs=cs: D(z=One([cs[4](), cs[0](), cs[2]()])), cc, lab, False)
    if not quick or n % 2 == 0:
      yield (lambda cs=cs: D(z=One([cs[0](), 'z', None, cs[4]()])), cc, lab, False)
      yield (lambda cs=cs: D(z=One([One([cs[1](), cs[0]()]), cs[2]()])), cc, lab, False)
    for distinct in (True, False):
      for srt in (False, True):
        if quick and (distinct + 2 * srt + n) % 2:
          continue
        yield ((lambda d=distinct, s_=srt, cs=cs: D(z=Many(
            2, [cs[0](), cs[1](), cs[2]()], d, s_))),
               sig('manyof-candidates'), lab, False)
    yield (lambda cs=cs: Many(2, [cs[3](), cs[0](), cs[4]()]),
           sig('manyof-candidates'), lab, False)
    # (4) candidates that are partial and hold placeholders themselves.
    hole = K['holes'][0][0]
    nc = sig('nonconst-candidates')
    yield (lambda hole=hole, cs=cs: D(z=One([hole(One([1, 2])), cs[1]()])), nc, lab, True)
    yield (lambda hole=hole, cs=cs: One([cs[2](), hole(One([1, One([2, 3])]))]), nc, lab, False)
    yield (lambda hole=hole, cs=cs: D(z=Many(2, [hole(One([1, 2])), cs[1](), 'q'], False, False)),
           nc, lab, True)


def ref_templates(tier, seed):
  """Yields (root factory, sig, esig, with_where)."""
  del tier, seed
  IN_DICT = 'pgref-in-dict-field'
  # (1) a reference held by a dict field (own input class of encode).
  yield (lambda: D(x=One([1, 2]), r=PR(0)), 'pgref.in-dict-field', IN_DICT, False)
  yield (lambda: D(x=One([1, 2]), r=PR(1)), 'pgref.in-dict-field', IN_DICT, False)
  yield (lambda: L([D(r=PR(0), x=F(0.0, 1.0))]), 'pgref.in-dict-field', IN_DICT, False)
  yield (lambda: O(A, x=1, y=D(x=Many(2, [1, 2, 3]), r=PR(2))),
         'pgref.in-dict-field', IN_DICT, False)
  yield (lambda: L([One([D(r=PR(0)), 1])]), 'pgref.in-dict-field', IN_DICT, False)
  yield (lambda: One([D(r=PR(0), s=One([1, 2])), 'z']), 'pgref.in-dict-field',
         IN_DICT, False)
  # (2) ... by an object field (Any-typed and Object-typed).
  s = 'pgref.in-object-field'
  yield (lambda: O(A, x=One([1, 2]), y=PR(0)), s, None, False)
  yield (lambda: D(a=O(A, x=One([1, 2]), y=PR(1)), b=F(0.0, 1.0)), s, None, True)
  yield (lambda: L([O(A, x=3, y=PR(2)), Many(2, [1, 2, 3], True, True)]), s, None, False)
  yield (lambda: O(RO, o=PR(0), k=One([1, 2])), s, None, False)
  yield (lambda: O(NE, k=PR(1), m=One(['u', 'v'])), s, None, False)
  # (3) ... by a list item.
  s = 'pgref.in-list'
  yield (lambda: L([One([1, 2]), PR(0)]), s, None, False)
  yield (lambda: D(a=L([PR(1), One([1, 2]), PR(0)])), s, None, False)
  yield (lambda: O(A, x=One([1, 2]), y=L([PR(2)])), s, None, False)
  yield (lambda: D(a=L([L([PR(0)]), Cu(2)]), b=One([1, One([2, 3])])), s, None, True)
  # (4) a reference as a candidate.
  s = 'pgref.as-candidate'
  yield (lambda: One([PR(0), PR(1), 1]), s, None, False)
  yield (lambda: D(a=One([PR(0), PR(1), 1])), s, None, False)
  yield (lambda: L([One([2, PR(2)]), One([PR(0), 'x'])]), s, None, False)
  yield (lambda: O(A, x=1, y=One([PR(1), PR(0)])), s, None, False)
  yield (lambda: D(a=One([One([PR(0), PR(2)]), 3])), s, None, False)
  for distinct in (True, False):
    for srt in (False, True):
      yield ((lambda d=distinct, s_=srt: D(z=Many(2, [PR(0), PR(1), 1], d, s_))),
             s, None, False)
  yield (lambda: Many(2, [PR(0), PR(1), PR(2)]), s, None, False)
  # (5) references inside container / object candidates.
  s = 'pgref.inside-candidate'
  yield (lambda: D(a=One([L([PR(0)]), L([PR(1)])])), s, None, False)
  yield (lambda: One([L([PR(0), One([1, 2])]), L([PR(1), 3])]), s, None, False)
  yield (lambda: D(a=One([O(A, x=1, y=PR(0)), O(A, x=2, y=PR(1))])), s, None, False)
  yield (lambda: D(a=Many(2, [O(A, x=1, y=PR(0)), O(A2, x=1, y=PR(0)),
                             L([PR(0)])])), s, None, False)
  # Candidates that differ only in the object a field of theirs references.
  s = 'pgref.inside-candidate'
  e = 'pgref-object-candidates-differing-in-referenced-object'
  yield (lambda: D(a=One([O(A, x=1, y=PR(0)), O(A, x=1, y=PR(1))])), s, e, False)
  yield (lambda: One([O(NE, k=PR(2), m=1), O(NE, k=PR(0), m=1)]), s, e, False)
  yield (lambda: D(a=Many(2, [O(A, x=1, y=PR(0)), O(A, x=1, y=PR(1)),
                             O(A, x=1, y=PR(2))])), s, e, False)


def inferred_templates():
  """Yields (root factory, sig, esig)."""
  s = 'inferred.in-object-field'
  yield lambda: D(y=One([1, 2]), a=O(A, x=1, y=Inf())), s, None
  yield lambda: D(y=F(0.0, 1.0), a=L([O(A, x=One([1, 2]), y=Inf())])), s, None
  yield lambda: D(y='c', a=O(A, x=One([1, 2]), y=Inf())), s, None
  s = 'inferred.in-dict-field'
  yield lambda: D(y='c', x=One([1, 2]), a=D(y=Inf())), s, 'inferred-in-dict-field'
  yield (lambda: L([D(y=D(q=1), a=D(y=Inf(), z=F(0.0, 1.0)))]), s,
         'inferred-in-dict-field')
  # ... where the value it is inferred from is a placeholder itself.
  s = 'inferred.in-dict-field-from-placeholder'
  yield lambda: D(y=One([1, 2]), a=D(y=Inf())), s, None
  yield lambda: D(y=Many(2, [1, 2, 3]), a=L([D(y=Inf(), z=One([1, 2]))])), s, None


def drv_partial_and_refs(tier, seed):
  cap = 8 if tier == 'quick' else 30
  rec = Recorder(
      'C13', 'decode/encode/iter of templates holding partial objects, pg.Ref '
      'members and inferred values next to placeholders (vs reference model)',
      scope='partial objects of 5 kinds (pg.Object with unfilled required '
      'fields; unfilled object-typed field / key of a dict-typed field / '
      'partial inside partial; partially bound functor; pg.symbolize-d class; '
      'pg.Dict.partial with value_spec) x placements (placeholder oneof / '
      'nested oneof / manyof / floatv / custom in a filled field, in 9 '
      'contexts; constant sibling; constant candidates with equal / different '
      'unfilled fields in both orders; manyof 4 modes; non-constant '
      'candidates); pg.Ref to 3 shared targets (object, dict, list) in dict '
      'fields, object fields (Any / Object typed), list items, as oneof / '
      'manyof candidates, inside list / object candidates; '
      'ValueFromParentChain in object / dict fields; `where` subsets; '
      f'all DNAs if <= {cap} else {cap} random; quick: a rotating subset of '
      'placeholder kind x context')
  rnd = rng(seed, 'c13-partial')
  quick = tier == 'quick'

  def run(mk, sig, post, esig, labels, with_where, n):
    root = None
    try:
      root = assign_names(mk())
      sels = [None]
      if with_where:
        sels += where_variants(root, rnd, 1 if quick else 3)
      for sel in sels:
        res = check_template(rec, root, sel, rnd, cap,
                             deep_checks=2 if quick else 4, post=post, sig=sig,
                             esig=esig, labels=labels,
                             foreign_checks=(n % 3 == 0) if quick else 2)
        if res is None:
          continue                     # no template / specification at all
        total = msize(root, sel)
        if (not quick or n % 4 == 0) and total <= 40 and prim_paths(root, sel) and (
            only_custom_infinite(root, sel)) and not (
                unselected_below_selected_choice(root, sel)):
          check_iter(rec, root, sel, total, seed, n % 6 == 0, post=post,
                     sig=sig, quick=quick)
    except Exception as e:  # pylint: disable=broad-except
      rec.case('harness/' + sig, src(root) if root is not None else sig, False,
               f'harness error {type(e).__name__}: {e}',
               src(root) if root is not None else sig)

  n = 0
  with warnings.catch_warnings():
    warnings.simplefilter('ignore')
    for mk, sig, labels, ww in partial_templates(tier, seed):
      run(mk, sig, fill_defaults, None, labels, ww, n)
      n += 1
    # (Only the decoded value is encoded: whether a value holding the object
    # itself equals one holding a reference to it is not what C13 is about.)
    for mk, sig, esig, ww in ref_templates(tier, seed):
      run(mk, sig, None, esig, ('decoded',), ww, n)
      n += 1
    for mk, sig, esig in inferred_templates():
      run(mk, sig, None, esig, ('decoded',), False, n)
      n += 1
  sh_reset()
  return rec.result()


# ---------------------------------------------------------------------------
# Driver 3: values decoded from a template bound to a value spec are accepted
# by that spec (so unacceptable candidates must be refused at binding time).
# ---------------------------------------------------------------------------


class H(pg.Object):
  """Holder with one field per value spec."""
  i: pg.typing.Int(min_value=0, max_value=9) = 0
  s: pg.typing.Str() = ''
  f: pg.typing.Float(min_value=0.0, max_value=1.0) = 0.0
  l: pg.typing.List(pg.typing.Int(min_value=0), min_size=1, max_size=3) = [0]
  d: pg.typing.Dict([('k', pg.typing.Int()), ('l', pg.typing.Str())]) = dict(k=0, l='')
  u: pg.typing.Union([pg.typing.Str(), pg.typing.Int()]) = 0
  o: pg.typing.Object(A) = A(x=0)
  e: pg.typing.Enum('a', ['a', 'b']) = 'a'
  n: pg.typing.Int().noneable() = None
  t: pg.typing.Tuple([pg.typing.Int(), pg.typing.Str()]) = (0, '')
  b: pg.typing.Bool() = False
  m: pg.typing.List(pg.typing.Int(), min_size=3) = [0, 0, 0]


FIELD_VALUES = {
    # field: (good candidate sources, bad candidate sources)
    'i': (['0', '9', '5'], ['-1', '10', "'a'", '1.5', 'None', '[1]']),
    's': (["'a'", "''"], ['1', 'None', "['a']"]),
    'f': (['0.0', '1.0', '0.5', 'pg.floatv(0.25, 0.75)', 'pg.floatv(0.0, 1.0)'],
          ['1.5', '-0.5', "'x'", 'None', 'pg.floatv(0.5, 1.5)',
           'pg.floatv(-0.5, 0.5)', 'pg.floatv(2.0, 3.0)']),
    'l': (['[1]', '[1, 2, 3]', '[pg.oneof([1, 2])]', 'pg.manyof(2, [1, 2, 3])',
           'pg.manyof(3, [1, 2, 3], distinct=False)'],
          ["['a']", '[1, 2, 3, 4]', '[]', '[-1]', '1', '[pg.oneof([1, -2])]',
           "pg.manyof(2, [1, 'a', 3])", 'pg.manyof(2, [1, -1, 3])',
           '[1, [2]]', 'None']),
    'd': (["dict(k=1, l='a')", "dict(k=pg.oneof([1, 2]), l='a')"],
          ["dict(k='x', l='a')", 'dict(k=1, l=2)', "dict(k=1, l='a', m=3)",
           "dict(k=pg.oneof([1, 'z']), l='a')", '1', 'None']),
    'u': (["'a'", '1'], ['1.5', 'None', '[1]']),
    'o': (['A(x=1)', 'A2(x=2)', 'A(x=pg.oneof([1, 2]))'],
          ['1', "dict(x=1)", 'None', "B(p=[1], q=0.5, r=1, s=dict(k=1, l='a'))"]),
    'e': (["'a'", "'b'"], ["'c'", '1', 'None']),
    'n': (['1', 'None'], ["'a'", '1.5']),
    't': (["(1, 'a')"], ["(1, 2)", "(1,)", "(1, 'a', 2)", '1']),
    'b': (['True', 'False'], ['1', "'x'", 'None']),
}

# Placeholder shapes around a list of candidate sources (the bad one included).
SHAPES = [
    ('oneof', lambda cs: 'pg.oneof([%s])' % ', '.join(cs)),
    ('oneof-nested', lambda cs: 'pg.oneof([%s, pg.oneof([%s])])' % (cs[0], ', '.join(cs[1:]))),
    ('oneof-nested2', lambda cs: 'pg.oneof([pg.oneof([pg.oneof([%s])]), %s])' % (', '.join(cs[1:]), cs[0])),
]

SIZE_CASES = [
    # (case, field, source): list-size constraints vs manyof's number of choices.
    ('manyof-k-outside-list-size-limits', 'l', 'pg.manyof(4, [1, 2, 3, 4])'),
    ('manyof-k-outside-list-size-limits', 'l', 'pg.manyof(4, [1, 2], distinct=False)'),
    ('manyof-k-outside-list-size-limits', 'l', 'pg.oneof([[1], pg.manyof(4, [1, 2, 3, 4])])'),
    ('manyof-k-outside-list-size-limits', 'm', 'pg.manyof(2, [1, 2, 3])'),
    ('manyof-k==max_size', 'l', 'pg.manyof(3, [1, 2, 3, 4])'),
    ('manyof-k==min_size', 'l', 'pg.manyof(1, [1, 2])'),
    ('manyof-k==min_size', 'm', 'pg.manyof(3, [1, 2, 3])'),
]

_ENV = None


def _env():
  global _ENV
  if _ENV is None:
    _ENV = dict(pg=pg, A=A, A2=A2, B=B, H=H)
  return _ENV


def _bind_check(rec, case_id, field, psrc, expect_buildable, tier):
  """H(field=<psrc>): if it builds, every DNA must decode to an accepted value."""
  code = f'H({field}={psrc})'
  wit = ('import pyglove as pg\nfrom bounded.c13_hyper import A, A2, B, H\n'
         f'v = {code}\nt = pg.template(v)\n'
         'for d in t.dna_spec().iter_dna():\n'
         '  x = t.decode(d)\n'
         f"  H.__schema__['{field}'].value.apply(pg.clone(x.sym_getattr('{field}'), deep=True))")
  try:
    v = eval(code, dict(_env()))  # pylint: disable=eval-used
  except (TypeError, ValueError, KeyError) as e:
    rec.case(case_id, code, not expect_buildable,
             f'acceptable placeholder refused at binding: {type(e).__name__}: {str(e)[:200]}',
             wit)
    return
  except Exception as e:  # pylint: disable=broad-except
    rec.case(case_id, code, False, f'unexpected {type(e).__name__}: {e}', wit)
    return
  bad = _decodes_accepted(v, field, code)
  rec.case(case_id, code, bad is None, bad, wit)


def _decodes_accepted(v, field, code, holder=None):
  """None if every DNA of template v decodes to a value whose `field` the
  field's value spec accepts; else a description of the first failure."""
  holder = holder or H
  try:
    t = pg.template(v)
    spec = t.dna_spec()
    if not t.hyper_primitives:
      return None
    dnas = []
    if spec.space_size != -1 and spec.space_size <= 60:
      dnas = list(spec.iter_dna())
    else:
      r = rng(0, 'c13-bind' + code)
      dnas = [spec.first_dna()] + [pg.random_dna(spec, r) for _ in range(12)]
  except Exception as e:  # pylint: disable=broad-except
    return f'unexpected {type(e).__name__}: {e}'
  fspec = holder.__schema__[field].value
  for d in dnas:
    try:
      x = t.decode(d)
      val = x.sym_getattr(field) if isinstance(x, pg.Object) else x[
          0 if isinstance(x, list) else field]
      fspec.apply(pg.clone(val, deep=True) if isinstance(val, pg.Symbolic) else val)
      if pg.contains(x, type=pg.hyper.HyperValue):
        return f'{d!r}: placeholder left'
    except Exception as e:  # pylint: disable=broad-except
      return (f'template was accepted at binding, but decode({d!r}) -> '
              f'{type(e).__name__}: {str(e)[:200]}')
  return None


# Ways of binding a placeholder `h` to the spec of field F of H.  Each returns
# source text that leaves the bound template in `v` (or raises).
BIND_ROUTES = [
    ('constructor', 'v = H({f}=h)'),
    ('rebind', 'v = H()\nv.rebind({f}=h)'),
    ('typed-dict', "v = pg.Dict({f}=h, value_spec=pg.typing.Dict([('{f}', H.__schema__['{f}'].value)]))"),
    ('typed-list', "v = pg.List([h], value_spec=pg.typing.List(H.__schema__['{f}'].value))"),
]


def _bind_steps(rec, case_id, psrc, steps):
  """The same placeholder object is offered to fields several times.

  steps: [(route index, field)].  Whatever the earlier attempts did (refused
  or accepted), a template that exists afterwards must decode every DNA to a
  value its field accepts: a refused bind must not leave a trace that lets a
  later bind through.
  """
  code = f'h = {psrc}\n'
  env = dict(_env())
  try:
    exec(code, env)  # pylint: disable=exec-used
  except Exception as e:  # pylint: disable=broad-except
    rec.case(case_id, code, False, f'unexpected {type(e).__name__}: {e}', code)
    return
  history = []
  for ri, field in steps:
    rname, rsrc = BIND_ROUTES[ri % len(BIND_ROUTES)]
    step = rsrc.format(f=field)
    code += ('try:\n  ' + step.replace('\n', '\n  ')
             + '\nexcept (TypeError, ValueError, KeyError):\n  v = None\n')
    env.pop('v', None)
    try:
      exec(step, env)  # pylint: disable=exec-used
      accepted = True
    except (TypeError, ValueError, KeyError):
      accepted = False
    except Exception as e:  # pylint: disable=broad-except
      rec.case(case_id, code, False, f'unexpected {type(e).__name__}: {e}', code)
      return
    history.append(f'{rname}({field}):' + ('accepted' if accepted else 'refused'))
    if not accepted:
      continue
    bad = _decodes_accepted(env['v'], field, code)
    wit = ('import pyglove as pg\nfrom bounded.c13_hyper import A, A2, B, H\n' + code
           + 't = pg.template(v)\nfor d in t.dna_spec().iter_dna():\n'
           '  x = t.decode(d)\n'
           f"  x = x.sym_getattr('{field}') if isinstance(x, pg.Object) else x[0 if isinstance(x, list) else '{field}']\n"
           f"  H.__schema__['{field}'].value.apply(pg.clone(x, deep=True))")
    rec.case(case_id, code, bad is None, f'attempts {history}: {bad}', wit)
    if bad is not None:
      return
  if not any(h.endswith('accepted') for h in history):
    rec.case(case_id, code, True)


def _mutate_after_bind(rec, case_id, field, psrc, mutation):
  """A placeholder is changed (symbolically) after it was bound to a field."""
  code = f'v = H({field}={psrc})\n'
  env = dict(_env())
  try:
    exec(code, env)  # pylint: disable=exec-used
  except Exception as e:  # pylint: disable=broad-except
    rec.case(case_id, code, False, f'unexpected {type(e).__name__}: {e}', code)
    return
  step = f'v.rebind({mutation!r})'
  code += f'try:\n  {step}\nexcept (TypeError, ValueError, KeyError):\n  pass\n'
  try:
    exec(step, env)  # pylint: disable=exec-used
  except (TypeError, ValueError, KeyError):
    rec.case(case_id, code, True)      # refused: nothing happened.
    # ... and the template still works.
  except Exception as e:  # pylint: disable=broad-except
    rec.case(case_id, code, False, f'unexpected {type(e).__name__}: {e}', code)
    return
  bad = _decodes_accepted(env['v'], field, code)
  wit = ('import pyglove as pg\nfrom bounded.c13_hyper import A, A2, B, H\n' + code
         + 't = pg.template(v)\nfor d in t.dna_spec().iter_dna():\n'
         f"  H.__schema__['{field}'].value.apply(pg.clone(t.decode(d).sym_getattr('{field}'), deep=True))")
  rec.case(case_id, code, bad is None, bad, wit)


def drv_binding(tier, seed):
  rec = Recorder(
      'C13', 'decoded values are accepted by the value spec the placeholder is bound to',
      scope='11 field specs (Int range, Str, Float range, List(min/max size), '
      'Dict schema, Union, Object, Enum, noneable, Tuple, Bool) x good/bad '
      'candidates x placement (direct, nested oneof x2, floatv, manyof, list '
      'element, dict field) ; shared placeholders re-bound to a second spec; '
      'manyof size vs list size limits; the same placeholder object offered '
      'again after a refusal / an acceptance (3 attempts, 4 binding routes: '
      'constructor, rebind, typed pg.Dict, typed pg.List), refused by one '
      'field then offered to another (18 pairs); placeholder internals '
      '(candidates, num_choices, float bounds) changed after binding')
  for field, (good, bad) in FIELD_VALUES.items():
    plain_good = [g for g in good if 'pg.' not in g] or good
    # All-good placements must build and decode to accepted values.
    for sname, shape in SHAPES:
      cs = (good + good)[:max(3, len(good))]
      _bind_check(rec, f'bind.good/{field}.{sname}', field, shape(cs), True, tier)
    for g in good:
      _bind_check(rec, f'bind.good/{field}.direct', field, g, True, tier)
    # One bad candidate, at every position of every shape.
    for b in bad:
      cls = 'hyper' if 'pg.' in b else 'const'
      for sname, shape in SHAPES:
        for pos in range(3):
          cs = [plain_good[0], plain_good[-1]]
          cs.insert(min(pos, len(cs)), b)
          _bind_check(rec, f'bind.bad-candidate/{field}.{sname}.{cls}', field,
                      shape(cs), False, tier)
      if 'pg.' in b:
        _bind_check(rec, f'bind.bad-candidate/{field}.direct.{cls}', field, b,
                    False, tier)
  for case, field, psrc in SIZE_CASES:
    _bind_check(rec, f'bind.list-size/{case}', field, psrc,
                'outside' not in case, tier)
  # The same placeholder object offered again after a refusal (error path,
  # then a second call): by every route, to the same field.  Candidates that
  # are pg.List / pg.Dict containers carry a value spec of their own, hence
  # their own input class.
  ckind = lambda f: 'container-candidates' if f in 'ldm' else 'scalar-candidates'
  n = seed
  for field, (good, bad) in FIELD_VALUES.items():
    plain_good = [g for g in good if 'pg.' not in g] or good
    for b in bad:
      for sname, shape in ([SHAPES[n % len(SHAPES)]] if tier == 'quick'
                           else SHAPES):
        cs = [plain_good[0], plain_good[-1]]
        cs.insert((n // 3) % 3, b)
        cid = (f'{sname}.scalar-candidates' if ckind(field)[0] == 's'
               else ckind(field))
        _bind_steps(rec, f'bind.retry-after-refusal/{cid}', shape(cs),
                    [(n + i, field) for i in range(3)])
        n += 1
      if 'pg.' in b:
        kind = ('floatv' if b.startswith('pg.floatv') else
                'manyof' if b.startswith('pg.manyof') else 'container-with-oneof')
        for k in ([n] if tier == 'quick' else range(len(BIND_ROUTES))):
          _bind_steps(rec, f'bind.retry-after-refusal/{kind}', b,
                      [(k, field), (k, field), (k + 1, field)])
    # ... and an acceptable one offered repeatedly stays acceptable / decodable.
    for g in good[:1 if tier == 'quick' else 2]:
      cs = [g, plain_good[0], plain_good[-1]]
      _bind_steps(rec, 'bind.retry-after-acceptance/oneof', SHAPES[n % 3][1](cs),
                  [(n + i, field) for i in range(2 if tier == 'quick' else 3)])
      n += 1
  # Refused by one field, then offered to another field (looser, stricter or
  # unrelated spec).
  cross = [
      ('i', 'n', "pg.oneof([1, 'a'])"), ('i', 'n', 'pg.oneof([1, -1])'),
      ('i', 'u', 'pg.oneof([1, 1.5])'), ('s', 'u', "pg.oneof(['a', 1])"),
      ('u', 's', "pg.oneof(['a', 1.5])"), ('n', 'i', "pg.oneof([1, 'a'])"),
      ('i', 'f', 'pg.oneof([0, 1, 20])'), ('e', 's', "pg.oneof(['a', 'c', 3])"),
      ('e', 's', "pg.oneof(['a', 'c'])"), ('l', 'm', 'pg.oneof([[1], [-1, 1, 1]])'),
      ('l', 'm', "pg.manyof(3, [1, 'a', 2])"), ('m', 'l', 'pg.manyof(3, [1, -1, 2])'),
      ('f', 'i', 'pg.oneof([0.5, 3])'), ('f', 'n', 'pg.floatv(0.5, 1.5)'),
      ('o', 'd', "pg.oneof([A(x=1), dict(k=1, l='a'), 3])"),
      ('t', 'l', "pg.oneof([(1, 'a'), [1], 5])"),
      ('b', 'i', 'pg.oneof([True, 2])'), ('i', 'b', 'pg.oneof([True, 2])'),
  ]
  for k, (f1, f2, psrc) in enumerate(cross):
    kind = ckind(f1 if f1 in 'ldm' else f2)
    if kind[0] == 's':
      kind = psrc[3:psrc.index('(')] + '.' + kind
    _bind_steps(rec, f'bind.refused-then-other-field/{kind}', psrc,
                [(k, f1), (k + 1, f2), (k + 2, f1), (k + 3, f2)])
  # A placeholder changed after it was bound (bind, then mutate).
  muts = [
      ('choice-candidates', 'i', 'pg.oneof([1, 2])', {'i.candidates[0]': -1}),
      ('choice-candidates', 's', "pg.oneof(['a', 'b'])", {'s.candidates[1]': 1}),
      ('choice-candidates', 'i', 'pg.oneof([1, pg.oneof([2, 3])])',
       {'i.candidates[1].candidates[0]': 'x'}),
      ('choice-candidates', 'i', 'pg.oneof([1, 2])', {'i.candidates[2]': 10}),
      ('valid-change', 'i', 'pg.oneof([1, 2])', {'i.candidates[0]': 3}),
      ('choice-candidates', 'l', 'pg.manyof(2, [1, 2, 3])', {'l.candidates[0]': -1}),
      ('choice-candidates', 'l', 'pg.manyof(2, [1, 2, 3])', {'l.candidates[2]': 'a'}),
      ('manyof-num_choices', 'l', 'pg.manyof(2, [1, 2, 3, 4])', {'l.num_choices': 4}),
      ('floatv-bounds', 'f', 'pg.floatv(0.25, 0.75)', {'f.max_value': 1.5}),
      ('floatv-bounds', 'f', 'pg.floatv(0.25, 0.75)', {'f.min_value': -1.0}),
      ('valid-change', 'f', 'pg.floatv(0.25, 0.75)', {'f.max_value': 1.0}),
      ('choice-candidates', 'l', '[pg.oneof([1, 2])]', {'l[0].candidates[0]': -2}),
      ('choice-candidates', 'd', "dict(k=pg.oneof([1, 2]), l='a')",
       {'d.k.candidates[1]': 'z'}),
      ('choice-candidates', 'o', 'A(x=pg.oneof([1, 2]))',
       {'o.x.candidates[0]': 11}),
  ]
  for name, field, psrc, mutation in muts:
    _mutate_after_bind(rec, f'bind.mutated-after-bind/{name}', field, psrc, mutation)
  # A placeholder object already bound to one spec, then bound to another.
  rebinds = [
      ('loose-then-strict', 'Int()', 'i', 'pg.oneof([1, -1])'),
      ('any-then-strict', 'Any()', 'i', 'pg.oneof([1, -1])'),
      ('strict-then-loose', 'Int(min_value=0, max_value=5)', 'i', 'pg.oneof([1, 2])'),
      ('str-then-union', 'Str()', 'u', "pg.oneof(['a', 'b'])"),
      ('list-then-list', 'List(pg.typing.Int())', 'l', 'pg.manyof(2, [1, -1, 3])'),
      ('float-then-float', 'Float()', 'f', 'pg.floatv(0.5, 1.5)'),
  ]
  for name, first, field, psrc in rebinds:
    for keep_parent in (False, True, None):
      if keep_parent is None:
        # Bound by a bare value spec: the very same object (no parent, hence no
        # copy) is then bound to the field's spec.
        code = f'h = {psrc}\npg.typing.{first}.apply(h)\nv = H({field}=h)\n'
      else:
        code = (f"h = {psrc}\nfirst = pg.Dict(z=h, value_spec=pg.typing.Dict([('z', pg.typing.{first})]))\n"
                + ('' if keep_parent else "h = first.z\nfirst = None\n")
                + f'v = H({field}=h)\n')
      wit = ('import pyglove as pg\nfrom bounded.c13_hyper import A, A2, B, H\n' + code
             + 't = pg.template(v)\nfor d in t.dna_spec().iter_dna():\n  t.decode(d)')
      cid = f'bind.rebound/{name}' + ('.has-parent' if keep_parent else ('.same-object' if keep_parent is None else ''))
      env = dict(_env())
      try:
        exec(code, env)  # pylint: disable=exec-used
      except (TypeError, ValueError):
        rec.case(cid, code, name in ('loose-then-strict', 'any-then-strict',
                                     'list-then-list', 'float-then-float'),
                 'acceptable shared placeholder refused', wit)
        continue
      except Exception as e:  # pylint: disable=broad-except
        rec.case(cid, code, False, f'unexpected {type(e).__name__}: {e}', wit)
        continue
      bad = None
      try:
        t = pg.template(env['v'])
        spec = t.dna_spec()
        dnas = (list(spec.iter_dna()) if spec.space_size != -1
                else [pg.DNA(t.hyper_primitives[0][1].max_value)])
        for d in dnas:
          x = t.decode(d)
          H.__schema__[field].value.apply(pg.clone(x.sym_getattr(field), deep=True)
                                          if isinstance(x.sym_getattr(field), pg.Symbolic)
                                          else x.sym_getattr(field))
      except Exception as e:  # pylint: disable=broad-except
        bad = f'accepted at binding, but decode -> {type(e).__name__}: {str(e)[:200]}'
      rec.case(cid, code, bad is None, bad, wit)
  return rec.result()


# ---------------------------------------------------------------------------
# Driver 4: DNAs outside the specification are refused by decode (a decode
# that accepts them cannot be inverted by encode).
# ---------------------------------------------------------------------------


def _invalid_dnas():
  """(class, template source, dna source) -- each DNA is invalid for the spec."""
  out = []
  add = lambda c, t, d: out.append((c, t, d))
  for ctx, wrap in (('root', '%s'), ('dict', 'pg.Dict(a=%s)'), ('list', 'pg.List([0, %s])'),
                    ('cand', "pg.oneof(['z', %s])")):
    def dn(d, ctx=ctx):
      return f'pg.DNA(1, [{d}])' if ctx == 'cand' else d
    for n in (1, 2, 3):
      o = wrap % ('pg.oneof(%r)' % list(range(10, 10 + n)))
      add('oneof-index==len', o, dn(f'pg.DNA({n})'))
      add('oneof-index>len', o, dn(f'pg.DNA({n + 3})'))
      add('oneof-negative-index', o, dn('pg.DNA(-1)'))
      add('oneof-negative-index', o, dn(f'pg.DNA({-n})'))
      add('oneof-float-index', o, dn('pg.DNA(0.0)'))
      add('oneof-str-index', o, dn("pg.DNA('0')"))
      add('oneof-extra-children-for-constant', o, dn('pg.DNA(0, [pg.DNA(0)])'))
    if ctx != 'cand':
      add('oneof-missing-value', wrap % 'pg.oneof([10, 11])', 'pg.DNA(None)')
    c = wrap % "pg.oneof([pg.oneof([1, 2]), 'x'])"
    add('conditional-missing-child', c, dn('pg.DNA(0)'))
    add('conditional-child-out-of-range', c, dn('pg.DNA(0, [pg.DNA(2)])'))
    add('oneof-negative-index', c, dn('pg.DNA(0, [pg.DNA(-1)])'))
    add('oneof-extra-children-for-constant', c, dn('pg.DNA(1, [pg.DNA(0)])'))
    c2 = wrap % "pg.oneof([pg.Dict(p=pg.oneof([1, 2]), q=pg.oneof([3, 4])), 'x'])"
    add('conditional-too-few-children', c2, dn('pg.DNA(0, [pg.DNA(0)])'))
    add('conditional-too-many-children', c2, dn('pg.DNA(0, [pg.DNA(0), pg.DNA(1), pg.DNA(0)])'))
    for distinct in (True, False):
      for srt in (True, False):
        m = wrap % f'pg.manyof(2, [10, 11, 12], distinct={distinct}, sorted={srt})'
        tag = 'manyof'
        add(f'{tag}-too-few-children', m, dn('pg.DNA(None, [pg.DNA(0)])') if ctx != 'cand' else dn('pg.DNA(0)'))
        add(f'{tag}-too-many-children', m, dn('pg.DNA(None, [pg.DNA(0), pg.DNA(1), pg.DNA(2)])')
            if ctx != 'cand' else 'pg.DNA(1, [pg.DNA(0), pg.DNA(1), pg.DNA(2)])')
        mk = (lambda a, b: dn(f'pg.DNA(None, [pg.DNA({a}), pg.DNA({b})])') if ctx != 'cand'
              else f'pg.DNA(1, [pg.DNA({a}), pg.DNA({b})])')
        add(f'{tag}-index==len', m, mk(0, 3))
        add(f'{tag}-index==len', m, mk(3, 4))
        add(f'{tag}-negative-index', m, mk(-1, 0))
        add(f'{tag}-negative-index', m, mk(-2, 2))
        add(f'{tag}-float-index', m, mk(0.0, 1))
        if distinct:
          add(f'{tag}-not-distinct', m, mk(1, 1))
          add(f'{tag}-not-distinct', m, mk(2, 2))
        if srt:
          add(f'{tag}-not-sorted', m, mk(1, 0))
          add(f'{tag}-not-sorted', m, mk(2, 1))
    f = wrap % 'pg.floatv(-1.0, 2.0)'
    add('float-below-min', f, dn('pg.DNA(-1.0000001)'))
    add('float-below-min', f, dn('pg.DNA(-5.0)'))
    add('float-above-max', f, dn('pg.DNA(2.0000001)'))
    add('float-above-max', f, dn('pg.DNA(1e9)'))
    add('float-int-value', f, dn('pg.DNA(1)'))
    add('float-str-value', f, dn("pg.DNA('1.0')"))
    if ctx != 'cand':
      add('float-missing-value', f, 'pg.DNA(None)')
    cu = wrap % 'IntSeq(n=3)'
    add('custom-int-value', cu, dn('pg.DNA(0)'))
    add('custom-float-value', cu, dn('pg.DNA(0.5)'))
  two = 'pg.Dict(a=pg.oneof([1, 2]), b=pg.floatv(0.0, 1.0), c=pg.oneof([3, 4]))'
  add('template-too-few-children', two, 'pg.DNA(None, [pg.DNA(0), pg.DNA(0.5)])')
  add('template-too-many-children', two, 'pg.DNA(None, [pg.DNA(0), pg.DNA(0.5), pg.DNA(0), pg.DNA(0)])')
  add('template-swapped-children', two, 'pg.DNA(None, [pg.DNA(0.5), pg.DNA(0), pg.DNA(0)])')
  add('constant-template-extra-dna', 'pg.Dict(a=1)', 'pg.DNA(0)')
  add('constant-template-extra-dna', 'pg.Dict(a=1)', 'pg.DNA(None, [pg.DNA(0), pg.DNA(1)])')
  return out


def drv_decode_invalid(tier, seed):
  del tier, seed
  rec = Recorder(
      'C13', 'decode refuses DNAs that are invalid for the specification',
      scope='oneof n<=3, conditional oneof, manyof(2 of 3) in 4 modes, floatv, '
      'custom; placed at root / dict / list / as candidate; index == len, > len, '
      'negative, wrong type, wrong arity, not distinct, not sorted, out of range')
  env = dict(pg=pg, IntSeq=IntSeq)
  for cls, tsrc, dsrc in _invalid_dnas():
    wit = ('import pyglove as pg\n' + ('from bounded.c13_hyper import IntSeq\n' if 'IntSeq' in tsrc else '')
           + f't = pg.template({tsrc})\nd = {dsrc}\n'
           'try:\n  x = t.decode(d)\nexcept Exception:\n  pass\nelse:\n'
           "  raise AssertionError(f'invalid DNA {d!r} decoded to {x!r}; encode gives {t.try_encode(x)[1]!r}')")
    try:
      t = pg.template(eval(tsrc, dict(env)))  # pylint: disable=eval-used
      d = eval(dsrc, dict(env))  # pylint: disable=eval-used
    except Exception as e:  # pylint: disable=broad-except
      rec.case('decode-invalid/harness', (tsrc, dsrc), False, f'{type(e).__name__}: {e}', wit)
      continue
    try:
      x = t.decode(d)
    except Exception:  # pylint: disable=broad-except
      rec.case(f'decode-invalid/{cls}', (tsrc, dsrc), True)
      continue
    ok_enc, back = t.try_encode(x)
    rec.case(f'decode-invalid/{cls}', (tsrc, dsrc), False,
             f'decode({d!r}) returned {x!r} for a DNA outside the spec; '
             f'encode of that value gives {back!r} != the DNA', wit)
  return rec.result()


DRIVERS = [drv_decode_encode, drv_iter, drv_typed_roundtrip,
           drv_candidate_kinds, drv_partial_and_refs, drv_binding,
           drv_decode_invalid]


def replay(rec):
  """Re-executes rec['witness']; returns (ok, message)."""
  try:
    exec(rec['witness'], {})  # pylint: disable=exec-used
    return True, 'witness passes'
  except Exception as e:  # pylint: disable=broad-except
    return False, f'{type(e).__name__}: {e}'
