"""C05 -- serialization and persistence round trip (bounded run-time oracles).

Property (properties.jsonl, C05): converting any serializable symbolic value to
JSON (object form or string form) and back yields a value that is symbolically
equal to the original, has the same type, hash and schema-backed behaviour and
is a well-formed tree; saving to paths of the standard / in-memory file system
and loading back, in any order and with overwrites, returns for each path
exactly the last value saved; same for record sequences, pickle, deepcopy.

Oracles used here (none is read off the implementation):
  * `diff_value(a, b)`: an independent structural comparator (type, value,
    key order, NaN == NaN, sign of zero, nested value specs of schema-backed
    children) + `pg.eq` + `pg.hash` + tree well-formedness (parent/path of
    every node) + differential "same behaviour" probes (original vs restored).
  * file systems / sequences: a python dict `path -> content` (resp. `path ->
    list of records`) as reference model, checked after every step.

Universe values are built from *source strings* (so that every witness is a
runnable snippet); classes / functions referenced by them live in this module.
"""
import copy
import functools
import itertools
import json
import locale
import math
import os
import pathlib
import pickle
import shutil
import tempfile
import time
import typing
import datetime  # pylint: disable=unused-import

import pyglove as pg
from pyvc.bounded import Recorder, rng, outcome  # pylint: disable=unused-import

_MOD = __name__          # 'bounded.c05_roundtrip' when run by ./check


# -----------------------------------------------------------------------------
# Classes and functions the universes refer to (module level => importable).
# -----------------------------------------------------------------------------


def c05_double(x):
  return 2 * x


def c05_make_local():
  def c05_local(a, b=(1, 2)):
    return a + b[0]
  return c05_local


def c05_to_list(x):
  return list(x)


class C05Leaf(pg.Object):
  x: typing.Any

  class Inner:            # a nested plain class (type round trip).

    def __eq__(self, other):
      return type(other) is type(self)

    def __hash__(self):
      return 7

  @classmethod
  def make(cls, x):
    return cls(x)

  @staticmethod
  def smake(x):
    return C05Leaf(x)


class C05Typed(pg.Object):
  i: pg.typing.Int(min_value=0, max_value=100)
  s: pg.typing.Str(regex='[a-z]*') = 'a'
  f: pg.typing.Float().noneable() = None
  e: pg.typing.Enum('a', ['a', 1, None]) = 'a'
  l: pg.typing.List(pg.typing.Int(), max_size=3) = []
  t: pg.typing.Tuple([pg.typing.Int(), pg.typing.Str()]) = (0, '')
  vt: pg.typing.Tuple(pg.typing.Int(), min_size=0, max_size=2) = (7,)
  d: pg.typing.Dict([
      ('p', pg.typing.Int(default=1)),
      ('q', pg.typing.Str().noneable()),
      (pg.typing.StrKey('k.*'), pg.typing.Int()),
  ]) = {}
  o: pg.typing.Object(C05Leaf).noneable() = None
  u: pg.typing.Union([pg.typing.Int(), pg.typing.Str()]).noneable() = None
  c: pg.typing.Callable().noneable() = None
  ty: pg.typing.Type(object).noneable() = None
  lo: pg.typing.List(pg.typing.Object(C05Leaf)) = []
  fz: pg.typing.Int(5).freeze() = 5
  a: typing.Any = None


class C05Pair(pg.Object):
  left: typing.Any
  right: typing.Any = None


class C05Tup(pg.Object):
  """Schema-backed tuple / list / dict fields whose elements are objects."""
  tt: pg.typing.Tuple([pg.typing.Object(C05Leaf), pg.typing.Int()]).noneable() = None
  vt: pg.typing.Tuple(pg.typing.Object(C05Leaf), max_size=3).noneable() = None
  tl: pg.typing.List(pg.typing.Tuple([pg.typing.Any(), pg.typing.Any()])) = []
  td: pg.typing.Dict([(pg.typing.StrKey(), pg.typing.Tuple(pg.typing.Any()))]) = {}


class C05HideD(pg.Object):
  """Dict-valued fields whose own default is NOT the dict they may hold.

  C05HideD / C05HideA / C05HideS: one field per (value-spec kind, kind of
  default), for writer options that leave things out of the JSON
  (`hide_default_values`, `hide_frozen`)."""
  nd: pg.typing.Dict([('w', pg.typing.Int(default=0)),
                      ('r', pg.typing.Float(default=1.0))]).noneable() = None
  rd: pg.typing.Dict()                                      # required, free form
  sd: pg.typing.Dict([(pg.typing.StrKey(), pg.typing.Int())]).noneable() = None
  # members under a non-const key whose value spec has a default.
  sk: pg.typing.Dict([(pg.typing.StrKey(), pg.typing.Int(default=0))]) = {}
  sn: pg.typing.Dict([('c', pg.typing.Int(default=1)),
                      (pg.typing.StrKey('x.*'), pg.typing.Str().noneable())]) = {}
  # dict field with a generated default ({p: 1, inner: None, k: {x: 0}}).
  dd: pg.typing.Dict([
      ('p', pg.typing.Int(default=1)),
      ('inner', pg.typing.Dict([('x', pg.typing.Int(default=0))]).noneable()),
      ('k', pg.typing.Dict([('x', pg.typing.Int(default=0))])),
  ]) = {}


class C05HideA(pg.Object):
  """Any / Union / list fields."""
  ra: pg.typing.Any()                                       # required Any
  an: pg.typing.Any(default=None) = None
  a1: pg.typing.Any(default=1) = 1
  un: pg.typing.Union([pg.typing.Dict(), pg.typing.List(pg.typing.Any()),
                       pg.typing.Int()], default=1) = 1
  nl: pg.typing.List(pg.typing.Int()).noneable() = None
  dl: pg.typing.List(pg.typing.Int(), default=[1]) = [1]
  ld: pg.typing.List(pg.typing.Dict([('x', pg.typing.Int(default=0))])).noneable() = None


class C05HideS(pg.Object):
  """Scalars whose default is not the "empty" value of their type; objects."""
  i5: pg.typing.Int(default=5) = 5
  ni: pg.typing.Int(default=5).noneable() = 5
  s: pg.typing.Str(default='a') = 'a'
  b: pg.typing.Bool(default=True) = True
  fl: pg.typing.Float(default=1.5).noneable() = 1.5
  f0: pg.typing.Float(default=0.0) = 0.0
  a0: pg.typing.Any(default=0) = 0
  en: pg.typing.Enum('x', ['x', '', None, 0]) = 'x'
  ob: pg.typing.Object(C05Leaf).noneable() = None
  od: pg.typing.Object(C05Pair, default=C05Pair(1)) = C05Pair(1)
  fz: pg.typing.Str('frozen').freeze() = 'frozen'


_HIDE_CLASSES = (C05HideD, C05HideA, C05HideS)


def c05_hide(**kw):
  """The C05Hide* object that has these fields (required fields filled in)."""
  cls = next(c for c in _HIDE_CLASSES if all(k in c.__annotations__ for k in kw))
  if cls is C05HideD:
    kw.setdefault('rd', {'t': 1})
  elif cls is C05HideA:
    kw.setdefault('ra', 'r')
  return cls(**kw)


class C05Unserializable:
  """An opaque value that cannot be converted to JSON (it cannot be pickled)."""

  def __reduce__(self):
    raise TypeError('C05Unserializable cannot be pickled')


class C05BadRepr:
  """A value that cannot be formatted as text."""

  def __repr__(self):
    raise RuntimeError('C05BadRepr cannot be formatted')

  __str__ = __repr__


# Functions that are serialized with their code and share ONE qualified name.
C05_MODULE_LAMBDAS = [lambda x: x + 1, lambda x: x * 2, lambda x, y=4: x - y,
                      lambda x, y=5: x - y]


def c05_make_scaler(kind):
  """Local functions with one qualified name and different code / defaults."""
  if kind == 'double':
    def scale(x):
      return x * 2
  elif kind == 'shift':
    def scale(x, offset=100):
      return x + offset
  elif kind == 'shift7':
    def scale(x, offset=7):
      return x + offset
  else:
    def scale(x, y=0):
      return (x, y)
  return scale


# Functors (drv_functor_copies): a copy of a functor must be CALLABLE like the
# original.  One signature family (a, b=<default>) in every way a functor class
# can be made, one with *args / keyword-only / **kwargs, one that holds a functor.


@pg.functor
def c05_add(a, b=1):
  return a + b


@pg.symbolize
def c05_mul(a, b=2):
  return a * b


@pg.functor([('a', pg.typing.Int()), ('b', pg.typing.Int(default=1))],
            returns=pg.typing.Int(max_value=10))
def c05_add_typed(a, b=1):
  return a + b


@pg.functor
def c05_collect(a, *args, k=0, **kwargs):
  return (a, tuple(args), k, tuple(sorted(kwargs.items())))


class C05AddF(pg.Functor):
  a: typing.Any
  b: typing.Any = 1

  def _call(self):
    return self.a + self.b


class C05ScaleF(C05AddF):
  s: int = 10

  def _call(self):
    return (self.a + self.b) * self.s


@pg.functor
def c05_apply(fn, x=2):
  return ('applied', c05_call(fn), x)


# Values whose behaviour rests on state that is derived from (not held in) their
# symbolic fields (drv_stateful_copies).


@pg.symbolize
class C05Acc:
  """A plain class made symbolic: its state is set up by its own __init__."""

  def __init__(self, start, step=1, *, scale=1):
    self.start = start
    self.step = step
    self.scale = scale
    self.total = start * scale

  def bump(self, n=1):
    return self.total + n * self.step


class C05Derived(pg.Object):
  """State derived when the object is bound / re-derived when it changes."""
  x: int
  y: int = 2
  items: pg.typing.List(pg.typing.Int()) = []

  def _on_bound(self):
    super()._on_bound()
    self._prod = self.x * self.y + sum(self.items)

  def prod(self):
    return self._prod


@pg.compound(C05Leaf)
def c05_leaf_of(n, m=1):
  return C05Leaf([n + m, m])


_C05_SPACE = []


def c05_bound_dna(values, history=''):
  """A DNA bound to a search space, with user data / metadata attached."""
  if not _C05_SPACE:
    _C05_SPACE.append(pg.dna_spec(pg.Dict(x=pg.oneof([1, pg.oneof(['a', 'b'])]), y=pg.floatv(0.0, 1.0),
                                          z=pg.manyof(2, [1, 2, 3]))))
  d = pg.DNA(values)
  d.use_spec(_C05_SPACE[0])
  if 'u' in history:
    d.set_userdata('keep', [1, 2], cloneable=True)
  if 'n' in history:
    d.set_userdata('drop', 'x')
  if 'c' in history:
    d.children[0].set_userdata('keep', {'k': 1}, cloneable=True)
  if 'm' in history:
    d.set_metadata('mk', 1, cloneable=True)
  if 'q' in history:
    d.set_metadata('mq', 2)
  return d


def c05_dna_view(d):
  """What a bound DNA shows through its spec + the user data that copies keep."""
  def keep(n):          # ('keep' is the one key c05_bound_dna marks cloneable.)
    return repr(n.userdata['keep']) if 'keep' in n.userdata else None
  nodes = [n for n in sym_nodes(d) if isinstance(n, pg.DNA)]
  return dict(
      bound=[n.spec is not None for n in nodes],
      numbers=outcome(d.to_numbers), by_name=outcome(lambda: sorted(
          (str(k), repr(v)) for k, v in d.to_dict(value_type='value').items())),
      literal=outcome(lambda: sorted((str(k), repr(v)) for k, v in d.to_dict(value_type='literal').items())),
      userdata=[keep(n) for n in nodes])


def c05_del(f, name):
  """`del f.<name>` as an expression (discards a bound argument)."""
  delattr(f, name)
  return f


def c05_functors(v):
  """Every functor of the tree `v`, in traversal order."""
  return [n for n in sym_nodes(v) if isinstance(n, pg.Functor)]


def c05_call(f, *args, **kwargs):
  """('ok', result) / ('exc', name of the exception class)."""
  try:
    return ('ok', f(*args, **kwargs))
  except Exception as e:  # pylint: disable=broad-except
    return ('exc', type(e).__name__)


_ARG_SETS = ('specified_args', 'non_default_args', 'default_args', 'bound_args',
             'unbound_args', 'is_fully_bound')


def c05_arg_sets(f):
  out = {}
  for a in _ARG_SETS:
    try:
      x = getattr(f, a)
      out[a] = sorted(x) if isinstance(x, (set, frozenset)) else x
    except Exception as e:  # pylint: disable=broad-except
      out[a] = f'<{type(e).__name__}>'
  return out


_ENV = dict(
    pg=pg, T=pg.typing, typing=typing, datetime=datetime, math=math, pathlib=pathlib,
    functools=functools,
    c05_add=c05_add, c05_mul=c05_mul, c05_add_typed=c05_add_typed, c05_collect=c05_collect,
    C05AddF=C05AddF, C05ScaleF=C05ScaleF, c05_apply=c05_apply, c05_del=c05_del,
    C05Acc=C05Acc, C05Derived=C05Derived, c05_leaf_of=c05_leaf_of, c05_bound_dna=c05_bound_dna,
    C05Leaf=C05Leaf, C05Typed=C05Typed, C05Pair=C05Pair, C05Tup=C05Tup,
    C05HideD=C05HideD, C05HideA=C05HideA, C05HideS=C05HideS, c05_hide=c05_hide, C05Unserializable=C05Unserializable,
    C05BadRepr=C05BadRepr, C05_MODULE_LAMBDAS=C05_MODULE_LAMBDAS,
    c05_make_scaler=c05_make_scaler,
    c05_double=c05_double, c05_make_local=c05_make_local,
    c05_to_list=c05_to_list)


def ev(src):
  return eval(src, dict(_ENV))  # pylint: disable=eval-used


def constructible(src):
  try:
    ev(src)
    return True
  except Exception:  # pylint: disable=broad-except
    return False


def _header(src):
  h = 'import typing, datetime, math, pathlib, functools\nimport pyglove as pg\nT = pg.typing\n'
  if 'C05' in src or 'c05_' in src:
    h += f'from {_MOD} import *\n'
  return h


# -----------------------------------------------------------------------------
# Independent comparator.
# -----------------------------------------------------------------------------

_FUNC_PROBES = (0, 1, 5)
_FUNC_PROBE_ARGS = ((), (1, 2), (5, 3), ((1, 2),))


def _is_fn(x):
  return isinstance(x, (type(c05_double), type(len), type(C05Leaf.make)))


# Defaults held by a class schema are stored in symbolic form while a restored
# spec holds the plain container (they are converted on apply): when comparing
# spec *attributes* list/pg.List and dict/pg.Dict are interchangeable.
_LOOSE = [False]


def diff_value(a, b, path='', top=True, check_spec=True):
  """Returns '' if b is an exact reproduction of a, else a description."""
  # plain containers come back as their symbolic counterparts.
  if isinstance(a, float):
    if type(b) is not float:
      return f'{path}: float became {type(b).__name__} ({a!r} -> {b!r})'
    if math.isnan(a) or math.isnan(b):
      return '' if (math.isnan(a) and math.isnan(b)) else f'{path}: {a!r} -> {b!r}'
    if a != b or math.copysign(1.0, a) != math.copysign(1.0, b):
      return f'{path}: {a!r} -> {b!r}'
    return ''
  if a is None or isinstance(a, (bool, int, str, bytes)):
    if type(a) is not type(b) or a != b:
      return f'{path}: {a!r} ({type(a).__name__}) -> {b!r} ({type(b).__name__})'
    return ''
  if isinstance(a, tuple):
    if type(b) is not tuple:
      return f'{path}: tuple {a!r} became {type(b).__name__} {b!r}'
    if len(a) != len(b):
      return f'{path}: tuple length {len(a)} -> {len(b)}'
    for i, (x, y) in enumerate(zip(a, b)):
      d = diff_value(x, y, f'{path}({i})', False, check_spec)
      if d:
        return d
    return ''
  if isinstance(a, list):
    if isinstance(a, pg.List) and not isinstance(b, pg.List) and not _LOOSE[0]:
      return f'{path}: pg.List became {type(b).__name__}'
    if not isinstance(b, list):
      return f'{path}: list became {type(b).__name__} {b!r}'
    xa = [a.sym_getattr(i) for i in range(len(a))] if isinstance(a, pg.List) else list(a)
    xb = [b.sym_getattr(i) for i in range(len(b))] if isinstance(b, pg.List) else list(b)
    if len(xa) != len(xb):
      return f'{path}: list length {len(xa)} -> {len(xb)}'
    for i, (x, y) in enumerate(zip(xa, xb)):
      d = diff_value(x, y, f'{path}[{i}]', False, check_spec)
      if d:
        return d
    if (check_spec and not top and isinstance(a, pg.List)
        and isinstance(b, pg.List) and a.value_spec != b.value_spec):
      return f'{path}: value_spec {a.value_spec!r} -> {b.value_spec!r}'
    return ''
  if isinstance(a, dict):
    if isinstance(a, pg.Dict) and not isinstance(b, pg.Dict) and not _LOOSE[0]:
      return f'{path}: pg.Dict became {type(b).__name__}'
    if not isinstance(b, dict):
      return f'{path}: dict became {type(b).__name__} {b!r}'
    ia = list(a.sym_items()) if isinstance(a, pg.Dict) else list(a.items())
    ib = list(b.sym_items()) if isinstance(b, pg.Dict) else list(b.items())
    ka = [(type(k).__name__, k) for k, _ in ia]
    kb = [(type(k).__name__, k) for k, _ in ib]
    if ka != kb:
      return f'{path}: keys {ka!r} -> {kb!r}'
    for (k, x), (_, y) in zip(ia, ib):
      d = diff_value(x, y, f'{path}.{k!r}', False, check_spec)
      if d:
        return d
    if (check_spec and not top and isinstance(a, pg.Dict)
        and isinstance(b, pg.Dict) and a.value_spec != b.value_spec):
      return f'{path}: value_spec {a.value_spec!r} -> {b.value_spec!r}'
    return ''
  if isinstance(a, pg.Object):
    if type(a) is not type(b):
      return f'{path}: {type(a).__name__} became {type(b).__name__}'
    ia, ib = list(a.sym_items()), list(b.sym_items())
    if [k for k, _ in ia] != [k for k, _ in ib]:
      return f'{path}: fields {[k for k, _ in ia]} -> {[k for k, _ in ib]}'
    for (k, x), (_, y) in zip(ia, ib):
      d = diff_value(x, y, f'{path}.{k}', False, check_spec)
      if d:
        return d
    return ''
  if isinstance(a, type) or isinstance(a, (typing._Final, typing.GenericAlias)):  # pylint: disable=protected-access
    return '' if (a is b or a == b) and type(a) is type(b) else f'{path}: type {a!r} -> {b!r}'
  if _is_fn(a):
    if a is b or (hasattr(a, '__self__') and type(a) is type(b) and a == b):
      return ''
    if not callable(b):
      return f'{path}: function became {b!r}'
    if getattr(a, '__name__', None) != '<lambda>' and not (
        getattr(a, '__code__', None) is not None
        and a.__code__.co_flags & 0x10):
      return f'{path}: named function {a!r} -> {b!r} (not the same object)'
    # a function saved with its code: the loaded one has the same name,
    # signature, defaults and behaviour.
    if getattr(b, '__name__', None) != a.__name__:
      return f'{path}: function {a.__name__} became {getattr(b, "__name__", None)}'
    ca, cb = a.__code__, getattr(b, '__code__', None)
    if cb is None or (ca.co_argcount, ca.co_varnames[:ca.co_argcount]) != (
        cb.co_argcount, cb.co_varnames[:cb.co_argcount]):
      return f'{path}: function signature changed: {a!r} -> {b!r}'
    for p in _FUNC_PROBES:
      oa, ob = outcome(a, p), outcome(b, p)
      if oa != ob:
        return f'{path}: function behaves differently on {p!r}: {oa!r} -> {ob!r}'
    for args in _FUNC_PROBE_ARGS:
      oa, ob = outcome(a, *args), outcome(b, *args)
      if oa != ob:
        return f'{path}: function behaves differently on {args!r}: {oa!r} -> {ob!r}'
    d = diff_value(a.__defaults__, getattr(b, '__defaults__', None),
                   f'{path}.__defaults__', False, check_spec)
    if d:
      return d
    return ''
  # opaque objects, value specs, key paths, MISSING_VALUE ...
  if type(a) is not type(b):
    return f'{path}: {type(a).__name__} became {type(b).__name__} ({a!r} -> {b!r})'
  try:
    same = bool(a == b)
  except Exception as e:  # pylint: disable=broad-except
    return f'{path}: == raised {e!r}'
  return '' if same else f'{path}: {a!r} -> {b!r}'


def assert_same(a, b, check_spec=True):
  d = diff_value(a, b, check_spec=check_spec)
  assert not d, d


def tree_errors(root, root_path=None):
  """Parent / path consistency of every symbolic node reachable from root."""
  errs = []

  def visit(node, is_root):
    if isinstance(node, pg.Symbolic):
      if is_root:
        if node.sym_parent is not None:
          errs.append(f'root has a parent {node.sym_parent!r}')
        want = root_path if root_path is not None else pg.KeyPath()
        if node.sym_path != want:
          errs.append(f'root path {node.sym_path!r} != {want!r}')
      for k, c in node.sym_items():
        if isinstance(c, pg.Symbolic):
          if c.sym_parent is not node:
            errs.append(f'child {c.sym_path!r}/{k!r}: sym_parent is not its container')
          if c.sym_path != pg.KeyPath(k, node.sym_path):
            errs.append(f'child at key {k!r} of {node.sym_path!r} has path {c.sym_path!r}')
        visit(c, False)
    elif isinstance(node, (tuple, list)):
      for c in node:
        visit(c, False)
    elif isinstance(node, dict):
      for c in node.values():
        visit(c, False)

  visit(root, True)
  return errs


def assert_wellformed(v, root_path=None):
  e = tree_errors(v, root_path)
  assert not e, e


def sym_nodes(v, acc=None):
  acc = [] if acc is None else acc
  if isinstance(v, pg.Symbolic):
    acc.append(v)
    for _, c in v.sym_items():
      sym_nodes(c, acc)
  elif isinstance(v, (tuple, list)):
    for c in v:
      sym_nodes(c, acc)
  elif isinstance(v, dict):
    for c in v.values():
      sym_nodes(c, acc)
  return acc


def features(v):
  """Input classes for which the encoding is known to be delicate."""
  out = set()

  def visit(x):
    if isinstance(x, float):
      if math.isnan(x):
        out.add('nan')
    elif isinstance(x, tuple):
      if not x:
        out.add('empty-tuple')
      for c in x:
        visit(c)
    elif isinstance(x, list):
      items = [x.sym_getattr(i) for i in range(len(x))] if isinstance(x, pg.List) else x
      if items and isinstance(items[0], str) and items[0] == '__tuple__':
        out.add('list-starting-with-tuple-marker')
      for c in items:
        visit(c)
    elif isinstance(x, dict):
      items = list(x.sym_items()) if isinstance(x, pg.Dict) else list(x.items())
      for k, c in items:
        if isinstance(k, bool):
          out.add('bool-key')
        elif isinstance(k, str):
          if k == '_type':
            out.add('dict-key-_type')
          if k.startswith('n_:'):
            out.add('str-key-with-int-key-prefix')
        visit(c)
    elif isinstance(x, pg.DNA):
      if (len(x.children) > 1 and x.value is None
          and x.children[0].value == '__tuple__'):
        out.add('list-starting-with-tuple-marker')
      for _, c in x.sym_items():
        visit(c)
    elif isinstance(x, pg.Object):
      for _, c in x.sym_items():
        visit(c)
    elif _is_fn(x):
      if getattr(x, '__name__', '') == '<lambda>' or (
          getattr(x, '__code__', None) is not None and x.__code__.co_flags & 0x10):
        out.add('code-function')
    elif isinstance(x, pg.typing.ValueSpec):
      d = x.default
      if d is not pg.MISSING_VALUE:
        visit(d)
  visit(v)
  return out


_OBJ_ONLY_OK = ('str-key-with-int-key-prefix', 'bool-key')
_FEATURE_ORDER = ('empty-tuple', 'list-starting-with-tuple-marker',
                  'dict-key-_type', 'str-key-with-int-key-prefix', 'bool-key')


def delicate_class(v, form):
  f = features(v)
  for name in _FEATURE_ORDER:
    if name in f and not (form == 'obj' and name in _OBJ_ONLY_OK):
      return name
  return None


# -----------------------------------------------------------------------------
# Value universe (as source strings).
# -----------------------------------------------------------------------------

LEAVES = {
    'none-bool': ['None', 'True', 'False'],
    'int': ['0', '1', '-1', '2**31', '-2**63-1', '10**30'],
    'float': ['0.0', '1.5', '-2.25', '0.1+0.2', '1e22', '1e-7',
              '123456789.123456789', '1.0'],
    'float-special': ["float('nan')", "float('inf')", "float('-inf')", '-0.0',
                      '5e-324', '1.7976931348623157e308', '2.0**53+2'],
    'str-plain': ["''", "'a'", "'a b'", "'a.b'", "'[0]'", "'x'*300"],
    'str-control': [r"'\n'", r"'\r\n'", r"'\t'", r"'\x00'", r"'\x1f\x7f'",
                    "'\"'", r"'\\'", r"'\\n'", r"'a\x0bb\x0c'", r"'\'\''"],
    'str-unicode': [r"'\xe9'", r"'  '", r"'\U0001F600'", r"'\ud800'",
                    r"'﻿'", r"'\x85'", r"'￿'", r"'\udc80x'"],
    'str-jsonlike': ["'null'", "'true'", "'NaN'", "'{\"a\": 1}'", "'[1]'",
                     "'1'", "'MISSING_VALUE'", "'Infinity'"],
    'str-marker': ["'__tuple__'", "'_type'", "'n_:5'", "'n_:'", "'n_:x'",
                   "'type'", "'function'"],
    'opaque': ["b''", r"b'\x00\xff'", 'datetime.date(2020, 1, 2)',
               'complex(1, 2)', 'frozenset([1, 2])', 'range(3)', 'set([1, 2])',
               "bytearray(b'ab')"],
    'type': ['int', 'str', 'type(None)', 'C05Leaf', 'C05Leaf.Inner', 'pg.Dict',
             'typing.List[int]', 'list[int]', 'typing.Dict[str, int]',
             'typing.Optional[int]', 'typing.Any', '...'],
    'function': ['c05_double', 'len', 'C05Leaf.make', 'C05Leaf.smake',
                 '(lambda x, y=2: x * 10 + y)', 'c05_make_local()'],
    'missing': ['pg.MISSING_VALUE'],
    'symbolic': ['C05Leaf(1)', 'pg.Dict()', 'pg.List()',
                 "C05Typed(i=3, l=[1, 2], d={'p': 2, 'kx': 1})",
                 'pg.Dict(a=1, b=None)', 'pg.List([1, None])'],
}

# Values that are listed separately because each is its own (borderline) input
# class; a failure gets the class as case id.
SPECIAL_LEAVES = [
    ('type-annotation-typing.Tuple', 'typing.Tuple[int, ...]'),
    ('function-lambda-kwonly-default', '(lambda x, *, y=2: x + y)'),
    ('function-lambda-using-module-global', '(lambda x: c05_double(x))'),
]

_SPECIAL_LABELS = {c for c, _ in SPECIAL_LEAVES}

ONE_PER_CLASS = ['None', '-1', '1.5', "float('nan')", "'a.b'", r"'\x00'",
                 r"'  '", "'null'", "'__tuple__'", r"b'\x00\xff'",
                 'C05Leaf', 'c05_double', 'C05Leaf(1)', '-0.0', "'n_:5'"]

SHAPES = [
    ('list', lambda e, f: f'[{e}]'),
    ('list2', lambda e, f: f'[{f}, {e}]'),
    ('tuple', lambda e, f: f'({e},)'),
    ('tuple2', lambda e, f: f'({f}, {e})'),
    ('dict-str', lambda e, f: f"{{'a': {e}}}"),
    ('dict-str2', lambda e, f: f"{{'b.c': {f}, 'a': {e}}}"),
    ('dict-int', lambda e, f: f'{{0: {e}}}'),
    ('dict-mixed', lambda e, f: f"{{1: {e}, '1': {f}, -2: {e}}}"),
    ('pg.Dict', lambda e, f: f'pg.Dict(z={f}, a={e})'),
    ('pg.List', lambda e, f: f'pg.List([{e}, {f}])'),
    ('obj-any', lambda e, f: f'C05Leaf({e})'),
    ('obj-pair', lambda e, f: f'C05Pair({e}, right={f})'),
    ('obj-typed-any', lambda e, f: f'C05Typed(i=1, a={e})'),
]

KEYS = ["'a'", "'a.b'", "''", "' '", r"'\xe9'", r"'\n'", "'__tuple__'",
        "'type_name'", "'x'*100", "'0'", "'-1'", "'[0]'", "'n_'", "'n:5'",
        "'N_:5'", "'_types'", r"'\ud800'", "'\"'",
        '0', '1', '-1', '10**20',
        # delicate ones:
        "'n_:5'", "'n_:'", "'n_:x'", "'n_:-3'", "'_type'", 'True', 'False']

KEY_HOLDERS = [
    ('dict', lambda k: f'{{{k}: 1}}'),
    ('dict2', lambda k: f"{{'first': 0, {k}: [1], 'last': {{{k}: 2}}}}"),
    ('pg.Dict', lambda k: f'pg.Dict({{{k}: (1, 2)}})'),
    ('in-list', lambda k: f'[{{{k}: 1}}]'),
    ('in-obj', lambda k: f'C05Leaf({{{k}: 1.5}})'),
    ('in-tuple', lambda k: f'({{{k}: None}},)'),
]

TUPLEISH = [
    '()', '[()]', '((),)', '(1,)', '(1, 2, 3)', '((1,), (2, (3,)))',
    '[(), 1]', "{'a': ()}", 'C05Leaf(())', 'pg.Dict(a=())', 'pg.List([()])',
    "['__tuple__']", "['__tuple__', 1]", "['__tuple__', 1, 2]",
    "[['__tuple__', 1]]", "pg.List(['__tuple__', 'a'])",
    "{'a': ['__tuple__', None]}", "C05Leaf(['__tuple__', 1])",
    "('__tuple__',)", "('__tuple__', 1)", "(['__tuple__'],)",
    "['x', '__tuple__']", "['__tuple__x', 1]", "[('__tuple__',), 1]",
    "['_tuple_', 1]", "[[], [[]], ()]", '[[]]', '[{}]', '({},)', '([],)',
    'C05Typed(i=1, vt=())', 'C05Typed(i=1, vt=(1, 2))', "C05Typed(i=1, t=(3, 'x'))",
]


def _leaf_items():
  for cls, srcs in LEAVES.items():
    for s in srcs:
      yield cls, s


def value_universe(tier, seed):
  """Yields (class_label, src) up to nesting depth 3."""
  seen = set()

  def emit(label, src):
    if src not in seen:
      seen.add(src)
      try:
        ev(src)       # values that cannot even be constructed are not inputs.
      except Exception:  # pylint: disable=broad-except
        return []
      return [(label, src)]
    return []

  out = []
  # depth 0: every leaf.
  for cls, s in _leaf_items():
    out += emit(f'leaf/{cls}', s)
  for cls, s in SPECIAL_LEAVES:
    out += emit(cls, s)
  # depth 1: every shape x every leaf.
  for (sn, sf) in SHAPES:
    for cls, s in _leaf_items():
      if cls != 'missing':   # MISSING_VALUE inside a container means 'absent'.
        out += emit(f'depth1/{sn}', sf(s, '0'))
  # keys x holders.
  for hn, hf in KEY_HOLDERS:
    for k in KEYS:
      out += emit(f'key/{hn}', hf(k))
  for s in TUPLEISH:
    out += emit('tuple-ish', s)
  # depth 2: shape x shape x representative leaves.
  reps = ONE_PER_CLASS if tier == 'thorough' else ONE_PER_CLASS[:4]
  for (on, of) in SHAPES:
    for (inn, inf_) in SHAPES:
      for s in reps:
        out += emit('depth2', of(inf_(s, "'f'"), '(1, 2.5)'))
  # depth 3: all shape chains with two leaves (thorough) / seeded sample.
  chains = list(itertools.product(SHAPES, SHAPES, SHAPES))
  r = rng(seed, 'c05-depth3')
  if tier != 'thorough':
    chains = r.sample(chains, 100)
  leaves3 = [s for c, s in _leaf_items() if c != 'missing']
  for (a, b, c) in chains:
    picks = [r.choice(leaves3), r.choice(ONE_PER_CLASS)]
    if tier == 'thorough':
      picks.append(r.choice(leaves3))
    for s in picks:
      out += emit('depth3',
                  a[1](b[1](c[1](s, 'None'), r.choice(ONE_PER_CLASS)), "'g'"))
  return out


# -----------------------------------------------------------------------------
# The JSON round-trip check shared by several drivers.
# -----------------------------------------------------------------------------

_FORMS = {
    'obj': ('j = pg.to_json(v{kw})', 'r = pg.from_json(j{lkw})'),
    'str': ('j = pg.to_json_str(v{kw})', 'r = pg.from_json_str(j{lkw})'),
    'str-indent': ('j = pg.to_json_str(v, json_indent=2{kw})',
                   'r = pg.from_json_str(j{lkw})'),
    # every other way the library offers to write a value and read it back
    # (see drv_loader_options); /mem/ is per process and always written first.
    'save-load': ("pg.save(v, '/mem/c05opt/v.json'{kw})",
                  "r = pg.load('/mem/c05opt/v.json'{lkw})"),
    'sym-save-load': ("v.save('/mem/c05opt/w.json'{kw})",
                      "r = type(v).load('/mem/c05opt/w.json'{lkw})"),
    'container-cls': ('j = pg.to_json(v{kw})',
                      'r = (pg.List if isinstance(j, list) else pg.Dict).from_json(j{lkw})'),
    'seq-deserializer': (
        "with pg.io.open_sequence('/mem/c05opt/s.jsonl', 'w', serializer=pg.to_json_str) as f:\n"
        '  f.add(v)',
        "with pg.io.open_sequence('/mem/c05opt/s.jsonl', 'r', "
        'deserializer=functools.partial(pg.from_json_str{lkw})) as f:\n'
        '  r = list(iter(f))[0]'),
    'open_jsonl': ("with pg.open_jsonl('/mem/c05opt/t.jsonl', 'w') as f:\n  f.add(v)",
                   "with pg.open_jsonl('/mem/c05opt/t.jsonl', 'r') as f:\n  r = list(iter(f))[0]"),
}


def _kw_src(kw, lead=True):
  if not kw:
    return ''
  s = ', '.join(f'{k}={v}' for k, v in kw.items())
  return (', ' + s) if lead else s


def expected_type(v):
  if isinstance(v, pg.Symbolic):
    return type(v)
  if isinstance(v, list):
    return pg.List
  if isinstance(v, dict):
    return pg.Dict
  return type(v)


def json_roundtrip(src, form, kw=None, lkw=None, root_path=None, v=None,
                   check_original=True, stage=('', '')):
  """Returns (ok, kind, message, witness, r).

  `stage`: (code run before the value is written, code run before it is read
  back) -- the state of the process (e.g. its time zone) in which the two
  halves of the trip happen; part of the witness.  The caller restores it."""
  ser, de = _FORMS[form]
  kws = _kw_src(kw)
  lkws = _kw_src(lkw)
  ser = stage[0] + ser.format(kw=kws)
  de = stage[1] + de.format(lkw=lkws)
  base = f'{_header(src + kws + lkws)}v = {src}\n{ser}\n{de}\n'
  helper = (f'from {_MOD} import assert_same, assert_wellformed\n'
            'assert_same(v, r)\nassert_wellformed(r'
            + (f', {root_path}' if root_path else '') + ')\n')
  v = ev(src) if v is None else v
  fresh = ev(src) if check_original else v
  check_spec = not isinstance(v, pg.DNA)     # see drv_geno_dna.
  env = dict(_ENV)
  env['v'] = v
  try:
    exec(ser, env)  # pylint: disable=exec-used
    exec(de, env)   # pylint: disable=exec-used
  except Exception as e:  # pylint: disable=broad-except
    return False, 'exc', f'{type(e).__name__}: {e}', base, None
  r = env['r']
  d = diff_value(v, r, check_spec=check_spec)
  if d:
    simple = ''
    try:
      # (pg.eq compares functions by identity and nan != nan: no short form.)
      if not pg.eq(v, r) and not ({'code-function', 'nan'} & features(v)):
        simple = 'assert pg.eq(v, r), (v, r)\n'
    except Exception:  # pylint: disable=broad-except
      pass
    return False, 'value', d, base + (simple or helper), r
  et = expected_type(v)
  if type(r) is not et:
    return (False, 'type', f'type {type(r).__name__}, want {et.__name__}',
            base + f'assert type(r).__name__ == {et.__name__!r}, type(r)\n', r)
  f = features(v)
  if 'nan' not in f and 'code-function' not in f:
    try:
      same = pg.eq(v, r)
    except Exception as e:  # pylint: disable=broad-except
      same = False
    if not same:
      return False, 'eq', 'pg.eq(v, r) is False', base + 'assert pg.eq(v, r), (v, r)\n', r
    hv = outcome(pg.hash, v)
    if hv[0] == 'ok':
      hr = outcome(pg.hash, r)
      if hr != hv:
        return (False, 'hash', f'pg.hash {hv} -> {hr}',
                base + 'assert pg.hash(v) == pg.hash(r)\n', r)
  te = tree_errors(r, ev(root_path) if root_path else None)
  if te:
    return False, 'tree', '; '.join(te[:3]), base + helper, r
  d = diff_value(fresh, v)
  if d:
    return (False, 'original-mutated', 'the round trip changed the original: ' + d,
            base + f'from {_MOD} import assert_same\nassert_same({src}, v)\n', r)
  mine = {id(n) for n in sym_nodes(v)}
  if any(id(n) in mine for n in sym_nodes(r)):
    return (False, 'aliasing', 'restored tree shares symbolic nodes with the original',
            base + helper, r)
  return True, '', '', base, r


def record_json(rec, label, src, form, cid=None, _v=None, **k):
  v = ev(src) if _v is None else _v
  dc = delicate_class(v, 'obj' if form == 'obj' else 'str')
  fam = 'json-obj' if form == 'obj' else 'json-str'
  if cid:
    pass
  elif dc:
    # one id per defect: markers that collide in both forms share the id.
    cid = f'json-str/{dc}' if dc in _OBJ_ONLY_OK else f'json/{dc}'
  elif label in _SPECIAL_LABELS:
    cid = f'json/{label}'
  else:
    cid = f'{fam}/{label}'
  try:
    ok, kind, msg, wit, r = json_roundtrip(src, form, v=v, **k)
  except Exception as e:  # harness problem: surface it.  pylint: disable=broad-except
    ok, kind, msg, wit, r = False, 'harness', f'{type(e).__name__}: {e}', src, None
  rec.case(cid, (src, form, repr(k) if k else ''), ok,
           f'[{kind}] {msg}', wit)
  return ok, r


def drv_json_values(tier, seed):
  rec = Recorder(
      'C05', 'to_json/from_json (object + string form) over a generated value universe',
      scope='values as source strings: all leaves (ints, special floats, control/unicode/'
            'marker-like strings, opaque, types, functions) x 13 container shapes at depth 1; '
            'all keys x 6 holders; tuple/marker corner list; shape^2 x representatives; '
            'shape^3 chains (quick: 100 seeded chains, thorough: all 2197) ; forms obj/str(/indent)')
  uni = value_universe(tier, seed)
  for label, src in uni:
    for form in ('obj', 'str'):
      record_json(rec, label, src, form)
  # indentation must not matter (string form only, on a slice of the universe).
  step = 3 if tier == 'thorough' else 17
  for label, src in uni[::step]:
    record_json(rec, label, src, 'str-indent')
  return rec.result()


# -----------------------------------------------------------------------------
# Typed objects: schema-backed behaviour after the round trip.
# -----------------------------------------------------------------------------

TYPED_FIELD_VALUES = {
    'i': ['0', '100'],
    's': ["''", "'abc'"],
    'f': ['None', '1.5', "float('nan')", "float('inf')", '-0.0'],
    'e': ["'a'", '1', 'None'],
    'l': ['[]', '[1]', '[1, 2, 3]'],
    't': ["(0, '')", "(5, 'x')"],
    'vt': ['()', '(1,)', '(1, 2)'],
    'd': ['{}', "{'p': 3}", "{'q': 's'}", "{'kx': 1, 'ky': 2}",
          "{'p': 0, 'q': None, 'k': 5}"],
    'o': ['None', 'C05Leaf(1)', 'C05Leaf(C05Leaf([1]))'],
    'u': ['1', "'a'", 'None'],
    'c': ['c05_double', 'len', '(lambda x, y=2: x + y)', 'None'],
    'ty': ['int', 'C05Leaf', 'None'],
    'lo': ['[]', '[C05Leaf(1)]', "[C05Leaf(1), C05Leaf({'a': 2})]"],
    'a': ['(1, [2])', "{'k': C05Leaf(1)}", "[{'z': C05Typed(i=2)}]"],
}

# (probe source with {t} = expression of the typed object), applied in
# lockstep to the original and to the restored object.
TYPED_PROBES = [
    "{t}.rebind(i=-1)", "{t}.rebind(i=101)", "{t}.rebind(i=50)",
    "{t}.rebind(i='1')", "{t}.rebind(s='ABC')", "{t}.rebind(s='xyz')",
    "{t}.rebind(f='x')", "{t}.rebind(f=2.5)", "{t}.rebind(e=2)",
    "{t}.rebind(e=1)", "{t}.l.append('x')", "{t}.l.append(9)",
    "{t}.l.append(8)", "{t}.l.append(7)", "{t}.l.append(6)",
    "{t}.rebind(t=(1,))", "{t}.rebind(t=(1, 'q'))",
    "{t}.rebind(vt=(1, 2, 3))", "{t}.rebind(vt=(9,))",
    "{t}.rebind({{'d.p': 'x'}})", "{t}.rebind({{'d.p': 11}})",
    "{t}.rebind({{'d.q': 1}})", "{t}.rebind({{'d.kz': 3}})",
    "{t}.rebind({{'d.zz': 3}})", "{t}.rebind(o=1)",
    "{t}.rebind(o=C05Leaf(2))", "{t}.rebind(u=1.5)", "{t}.rebind(u='s')",
    "{t}.rebind(c=1)", "{t}.rebind(ty=1)", "{t}.rebind(ty=str)",
    "{t}.rebind(fz=6)", "{t}.rebind(lo=[1])", "{t}.lo.append(C05Leaf(3))",
    "{t}.lo.append(3)", "{t}.rebind(d={{'p': 7}})",
    "{t}.rebind(f=pg.MISSING_VALUE)", "{t}.rebind(s=pg.MISSING_VALUE)",
    "{t}.rebind(i=pg.MISSING_VALUE)", "{t}.rebind(nope=1)",
]

TYPED_HOLDERS = [
    ('root', '{o}', 'r'),
    ('in-pg.Dict', 'pg.Dict(a={o})', "r['a']"),
    ('in-list', '[0, {o}]', 'r[1]'),
    ('in-object', 'C05Leaf({o})', 'r.x'),
    ('in-tuple', '({o},)', 'r[0]'),
]


def typed_universe(tier, seed):
  out = ['C05Typed(i=3)']
  for k, vals in TYPED_FIELD_VALUES.items():
    for val in vals:
      out.append(f'C05Typed(i={val})' if k == 'i' else f'C05Typed(i=3, {k}={val})')
  r = rng(seed, 'c05-typed')
  n = 150 if tier == 'thorough' else 24
  keys = list(TYPED_FIELD_VALUES)
  for _ in range(n):
    ks = r.sample(keys, r.randint(2, len(keys)))
    args = {k: r.choice(TYPED_FIELD_VALUES[k]) for k in ks}
    args.setdefault('i', '3')
    out.append('C05Typed(' + ', '.join(f'{k}={v}' for k, v in args.items()) + ')')
  return out


PARTIALS = [
    'C05Typed.partial()', "C05Typed.partial(s='b')", 'C05Leaf.partial()',
    'C05Pair.partial(right=C05Leaf.partial())',
    'pg.Dict(a=C05Leaf.partial(), allow_partial=True)',
    'pg.List([C05Typed.partial(l=[1])], allow_partial=True)',
    'C05Typed.partial(o=C05Leaf.partial())',
]


_CODE_CACHE = {}


def _lockstep_probes(src, hold_src, target, r):
  """Applies TYPED_PROBES to a fresh original and to r. Returns (ok,msg,wit)."""
  v0 = ev(hold_src)
  for probe in TYPED_PROBES:
    code_r = probe.format(t=target)
    env_v, env_r = dict(_ENV, r=v0), dict(_ENV, r=r)

    cc = _CODE_CACHE.get(code_r)
    if cc is None:
      cc = _CODE_CACHE[code_r] = compile(code_r, '<probe>', 'exec')

    def run(env, code=cc):
      exec(code, env)  # pylint: disable=exec-used
      return None
    ov, orr = outcome(run, env_v), outcome(run, env_r)
    wit = (f'{_header(hold_src)}v = {hold_src}\nr = pg.from_json_str(pg.to_json_str(v))\n'
           f'def go(r):\n  try:\n    {code_r}\n    return "ok"\n  except Exception as e:\n    return type(e).__name__\n'
           f'a, b = go(v), go(r)\nassert a == b, (a, b)\n'
           f'from {_MOD} import assert_same\nassert_same(v, r)\n')
    if ov != orr:
      return False, f'probe {code_r}: original {ov} but restored {orr}', wit
    d = diff_value(v0, r)
    if d:
      return False, f'after probe {code_r}: states diverge: {d}', wit
  return True, '', ''


def drv_typed_objects(tier, seed):
  rec = Recorder(
      'C05', 'schema-backed objects: JSON round trip keeps value, specs and behaviour',
      scope='C05Typed (14 typed fields): every field value one at a time + seeded combinations '
            '(quick 24 / thorough 150) x 5 holders x forms obj/str x to_json flags '
            '(hide_default_values, hide_frozen); partial objects with allow_partial; root_path; '
            'loading the same JSON object twice; 40 mutation probes applied in lockstep to '
            'original and restored object')
  uni = typed_universe(tier, seed)
  kws = [None, dict(hide_default_values='True'), dict(hide_frozen='False'),
         dict(hide_default_values='True', hide_frozen='False')]
  for n, osrc in enumerate(uni):
    holders = TYPED_HOLDERS if (tier == 'thorough' or n % 6 == 0) else TYPED_HOLDERS[:1]
    probe_this = tier == 'thorough' or n % 4 == 0
    for hn, hf, target in holders:
      src = hf.format(o=osrc)
      for form in ('obj', 'str'):
        for kw in (kws if hn == 'root' and (form == 'str' or tier == 'thorough') else kws[:1]):
          label = 'typed/' + hn + ('' if not kw else '/' + '+'.join(sorted(kw)))
          ok, r = record_json(rec, label, src, form, kw=kw,
                              check_original=(kw is None))
          if (ok and form == 'str' and kw is None and probe_this
              and 'vt=()' not in src):
            pok, msg, wit = _lockstep_probes(osrc, src, target, r)
            rec.case(f'json-typed-behaviour/{hn}', (src,), pok, msg, wit)
    if tier != 'thorough' and n % 2:
      continue
    # root path is honoured by every node of the restored tree.
    record_json(rec, 'typed/root_path', osrc, 'obj',
                lkw=dict(root_path="pg.KeyPath.parse('p.q[1]')"),
                root_path="pg.KeyPath.parse('p.q[1]')")
    record_json(rec, 'typed/root_path', f'[{osrc}]', 'str',
                lkw=dict(root_path="pg.KeyPath.parse('p.q[1]')"),
                root_path="pg.KeyPath.parse('p.q[1]')")
    # The JSON object can be loaded more than once.
    v = ev(osrc)
    if delicate_class(v, 'obj') is None:
      def twice(v=v):
        j = pg.to_json(v)
        r1 = pg.from_json(j)
        r2 = pg.from_json(j)
        return diff_value(r1, r2) or diff_value(v, r2)
      o = outcome(twice)
      rec.case('json-obj/load-same-json-object-twice', (osrc,),
               o == ('ok', ''), f'second pg.from_json(j) of the same j: {o}',
               f'{_header(osrc)}v = {osrc}\nj = pg.to_json(v)\nr1 = pg.from_json(j)\n'
               'r2 = pg.from_json(j)\nassert type(r2) is type(v) and pg.eq(r1, r2), (r1, r2)\n')
  for src in PARTIALS:
    for form in ('obj', 'str'):
      record_json(rec, 'partial', src, form, lkw=dict(allow_partial='True'))
  # typed stand-alone containers: value_spec= restores the schema.
  for csrc, spec in [
      ("pg.List([1, 2], value_spec=pg.typing.List(pg.typing.Int(), max_size=3))",
       'pg.typing.List(pg.typing.Int(), max_size=3)'),
      ("pg.Dict(p=2, value_spec=pg.typing.Dict([('p', pg.typing.Int(default=1)), ('q', pg.typing.Str().noneable())]))",
       "pg.typing.Dict([('p', pg.typing.Int(default=1)), ('q', pg.typing.Str().noneable())])"),
      ("pg.Dict(value_spec=pg.typing.Dict([('p', pg.typing.Int(default=1)), ('l', pg.typing.List(pg.typing.Object(C05Leaf), default=[]))]))",
       "pg.typing.Dict([('p', pg.typing.Int(default=1)), ('l', pg.typing.List(pg.typing.Object(C05Leaf), default=[]))])"),
  ]:
    for form in ('obj', 'str'):
      ok, r = record_json(rec, 'typed-container', csrc, form, lkw=dict(value_spec=spec))
      if ok:
        v = ev(csrc)
        rec.case('json/typed-container-value_spec', (csrc, form),
                 r.value_spec == v.value_spec,
                 f'value_spec {r.value_spec!r} != {v.value_spec!r}',
                 f'{_header(csrc)}v = {csrc}\nr = pg.from_json(pg.to_json(v), value_spec={spec})\n'
                 'assert r.value_spec == v.value_spec\n')
  return rec.result()


# -----------------------------------------------------------------------------
# Loader options reach every position of the tree, through every entry point.
# -----------------------------------------------------------------------------

# container kind of every SHAPES entry (the loader has one branch per kind).
_SHAPE_KIND = {
    'list': 'list', 'list2': 'list', 'pg.List': 'list',
    'tuple': 'tuple', 'tuple2': 'tuple',
    'dict-str': 'dict', 'dict-str2': 'dict', 'dict-int': 'dict',
    'dict-mixed': 'dict', 'pg.Dict': 'dict',
    'obj-any': 'object', 'obj-pair': 'object', 'obj-typed-any': 'object',
}

# schema-backed holders ({e} must be a C05Leaf, possibly a partial one).
TYPED_POSITION_HOLDERS = [
    (('object',), 'C05Typed.partial(i=1, o={e})'),
    (('object', 'list'), 'C05Typed.partial(i=1, lo=[C05Leaf(0), {e}])'),
    (('object', 'tuple'), 'C05Tup.partial(tt=({e}, 1))'),
    (('object', 'tuple'), 'C05Tup.partial(vt=(C05Leaf(0), {e}))'),
    (('object', 'list', 'tuple'), 'C05Tup.partial(tl=[(0, {e})])'),
    (('object', 'dict', 'tuple'), "C05Tup.partial(td={{'k': ({e}, 0)}})"),
]

PARTIAL_LEAVES = ['C05Leaf.partial()', "C05Typed.partial(s='b')",
                  'C05Pair.partial(right=C05Leaf.partial())']

# entry point -> (form, loader keywords that request partial loading).  pg.load
# always loads with allow_partial=True (it accepts what pg.save accepted).
_PARTIAL_ENTRIES = [
    ('from_json', 'obj', dict(allow_partial='True')),
    ('from_json_str', 'str', dict(allow_partial='True')),
    ('load', 'save-load', None),
    ('load', 'sym-save-load', None),
    ('container-cls.from_json', 'container-cls', dict(allow_partial='True')),
    ('sequence-with-deserializer', 'seq-deserializer', dict(allow_partial='True')),
]

_RP = "pg.KeyPath.parse('p.q[1]')"
_ROOT_PATH_ENTRIES = [
    ('from_json', 'obj', dict(root_path=_RP)),
    ('from_json_str', 'str', dict(root_path=_RP)),
    ('load', 'save-load', dict(root_path=_RP)),
    ('container-cls.from_json', 'container-cls', dict(root_path=_RP)),
]


def position_universe(leaves, tier, seed, salt, pair_fraction=1.0):
  """-> [(chain of container kinds, outermost first; src; value)]: a leaf at
  every position of every container shape up to depth 2 (+ schema-backed
  holders) and below tuple-containing shape triples.  quick: `pair_fraction`
  of the shape pairs (seeded)."""
  r = rng(seed, 'c05-pos-' + salt)
  if tier == 'thorough':
    pair_fraction = 1.0
  out = []
  for sn, sf in SHAPES:
    for leaf in leaves:
      out.append(((_SHAPE_KIND[sn],), sf(leaf, '0')))
  for kind, tpl in TYPED_POSITION_HOLDERS:
    for leaf in leaves:
      if leaf.startswith('C05Leaf'):
        out.append((kind, tpl.format(e=leaf)))
  for on, of in SHAPES:
    for inn, inf_ in SHAPES:
      if r.random() >= pair_fraction:
        continue
      picks = leaves if tier == 'thorough' else (
          [leaves[0], r.choice(leaves)] if r.random() < 0.34 else [leaves[0]])
      for leaf in dict.fromkeys(picks):
        out.append(((_SHAPE_KIND[on], _SHAPE_KIND[inn]), of(inf_(leaf, "'f'"), '(1, 2.5)')))
    for kind, tpl in TYPED_POSITION_HOLDERS:
      if leaves[0].startswith('C05Leaf') and r.random() < pair_fraction:
        out.append(((_SHAPE_KIND[on],) + kind, of(tpl.format(e=leaves[0]), 'None')))
  # three levels, every kind under every kind under a tuple and vice versa.
  reps = [x for x in SHAPES if x[0] in ('list', 'tuple', 'dict-str', 'obj-any')]
  for a in reps:
    for b in reps:
      for c in reps:
        if 'tuple' in (a[0], b[0], c[0]):
          out.append(((_SHAPE_KIND[a[0]], _SHAPE_KIND[b[0]], _SHAPE_KIND[c[0]]),
                      a[1](b[1](c[1](leaves[0], 'None'), '1'), "'g'")))
  seen, good = set(), []
  for chain, src in out:
    if src not in seen:
      seen.add(src)
      try:
        good.append((chain, src, ev(src)))
      except Exception:  # not constructible: not an input.  pylint: disable=broad-except
        pass
  return good


def _applicable(form, v):
  if form == 'sym-save-load':
    return isinstance(v, pg.Symbolic)
  if form == 'container-cls':
    return isinstance(v, (list, dict)) and not isinstance(v, pg.Object)
  return True


def _run_positions(rec, family, uni, entries, tier, root_path=None):
  """Blames the outermost container kind that already failed on its own, so
  that one defective loader branch yields one case id per entry point.

  quick: depth 1 x every entry point; deeper positions x (from_json |
  from_json_str alternating) + one of the other entry points in rotation.
  """
  failed = {}
  basic = entries[0][0]             # pg.from_json: every other entry is run after it.
  for n, (chain, src, v) in enumerate(sorted(uni, key=lambda x: len(x[0]))):
    if delicate_class(v, 'str'):
      continue                       # marker collisions have their own ids.
    first = True
    todo = entries
    if tier != 'thorough' and len(chain) > 1 and len(entries) > 2:
      todo = [entries[n % 2], entries[2 + (n // 2) % (len(entries) - 2)]]
    for entry, form, lkw, *rest in todo:
      kw = rest[0] if rest else None
      if not _applicable(form, v):
        continue
      bad = failed.setdefault(entry, set())
      generic = failed.setdefault(basic, set())
      if entry == basic or any(k in generic for k in chain):
        # a container kind that fails with the basic entry point is one
        # input class, whichever entry point is used.
        blame = next((k for k in chain if k in generic), chain[-1])
        cid = f'{family}/below-{blame}'
      else:
        blame = next((k for k in chain if k in bad), chain[-1])
        cid = f'{family}/{entry}/below-{blame}'
      # (the value is built once; that loading leaves it alone is checked on
      # the first entry point.)
      ok, _ = record_json(rec, family, src, form, cid=cid, _v=v, kw=kw, lkw=lkw,
                          root_path=root_path, check_original=first)
      first = False
      if not ok and len(chain) == 1:
        bad.add(chain[0])


def drv_loader_options(tier, seed):
  rec = Recorder(
      'C05', 'loader options (allow_partial, root_path, auto_dict) reach every position of the '
             'tree through every entry point',
      scope='positions: a leaf below each of the 13 container shapes (list / tuple / dict with str, '
            'int and mixed keys / pg.List / pg.Dict / object fields), all 169 shape pairs, tuple-'
            'containing shape triples, and schema-backed fields (Object, List(Object), fixed and '
            'variable Tuple of Object, List(Tuple), Dict(Tuple)); leaves: 3 partial objects '
            '(quick: 1-2 per pair) loaded with allow_partial; a nested object loaded under a root_path; '
            'auto_dict=True on fully resolvable values; a schema-backed object written with '
            'hide_default_values=True (quick: these three on a seeded 30% of the pairs; '
            'deeper positions x 2 entry points in rotation); entry points: pg.from_json, pg.from_json_str, '
            'pg.save+pg.load, Symbolic.save+cls.load, pg.List/pg.Dict.from_json, record sequence with '
            'an allow_partial deserializer, pg.open_jsonl (depth 1 only)')
  uni = position_universe(PARTIAL_LEAVES, tier, seed, 'partial')
  _run_positions(rec, 'json-partial', uni, _PARTIAL_ENTRIES, tier)
  # pg.open_jsonl offers no way to ask for partial loading: its own class.
  for chain, src, v in uni:
    if len(chain) == 1:
      record_json(rec, 'json-partial', src, 'open_jsonl', _v=v, check_original=False,
                  cid='seq/open_jsonl-record-containing-a-partial-object')
  for src in PARTIAL_LEAVES + PARTIALS:
    for entry, form, lkw in _PARTIAL_ENTRIES:
      if _applicable(form, ev(src)):
        record_json(rec, 'json-partial', src, form, cid=f'json-partial/{entry}/root', lkw=lkw)
  # root_path: every node of the restored tree is addressed below it.
  uni = position_universe(['C05Leaf([C05Leaf(1)])'], tier, seed, 'root_path', 0.3)
  _run_positions(rec, 'json-root_path', uni, _ROOT_PATH_ENTRIES, tier, root_path=_RP)
  # auto_dict only matters for types that cannot be resolved.
  uni = position_universe(["C05Leaf({'a': C05Leaf(1)})"], tier, seed, 'auto_dict', 0.3)
  _run_positions(rec, 'json-auto_dict', uni,
                 [('from_json', 'obj', dict(auto_dict='True')),
                  ('from_json_str', 'str', dict(auto_dict='True')),
                  ('load', 'save-load', dict(auto_dict='True'))], tier)
  # writer options that shorten the JSON must not lose anything, wherever the
  # schema-backed object sits.
  uni = position_universe(["C05Typed(i=3, l=[1], d={'q': 's'})"], tier, seed, 'hide', 0.12)
  hide = dict(hide_default_values='True')
  _run_positions(rec, 'json-hide_default_values', uni,
                 [('from_json', 'obj', None, hide), ('from_json_str', 'str', None, hide),
                  ('load', 'save-load', None, hide), ('load', 'sym-save-load', None, hide)], tier)
  return rec.result()


# -----------------------------------------------------------------------------
# Writer options that leave members out of the JSON: nothing may get lost.
# -----------------------------------------------------------------------------

# field of C05Hide -> [(value class, value source)].  The value classes are the
# ways in which a value that is NOT the field's default can look like "nothing
# worth writing": its JSON is empty, it is falsy, it is None, all ITS members
# are defaults, or it compares equal to the default without being it.
_EMPTY_JSON = 'non-default-dict-whose-json-is-empty'
_EMPTY_LIST = 'non-default-empty-list'
_FALSY = 'non-default-falsy-scalar'
_NONE = 'none-where-default-is-not-none'
_PARTLY = 'non-default-container-with-default-members'
_ORDINARY = 'ordinary-non-default-value'
_DEFAULT = 'value-equal-to-default'
_EQ_NOT_SAME = 'value-==-default-but-of-other-type-or-sign'   # pg.eq / pg.hash cannot tell: literal criteria only
_NONCONST = 'member-under-nonconst-key-equal-to-its-spec-default'

HIDE_FIELD_VALUES = {
    'nd': [(_EMPTY_JSON, '{}'), (_EMPTY_JSON, "{'w': 0, 'r': 1.0}"), (_EMPTY_JSON, "{'r': 1.0}"),
           (_PARTLY, "{'w': 2}"), (_PARTLY, "{'w': 0, 'r': 0.0}"), (_DEFAULT, 'None')],
    'rd': [(_EMPTY_JSON, '{}'), (_EMPTY_JSON, 'pg.Dict()'), (_ORDINARY, "{'a': {}}"),
           (_ORDINARY, "{'a': {'b': {}}, 'c': []}")],
    'sd': [(_EMPTY_JSON, '{}'), (_ORDINARY, "{'a': 0}"), (_DEFAULT, 'None')],
    'sk': [(_NONCONST, "{'a': 0}"), (_NONCONST, "{'a': 1, 'b': 0}"), (_ORDINARY, "{'a': 1}"), (_DEFAULT, '{}')],
    'sn': [(_NONCONST, "{'x1': None}"), (_NONCONST, "{'c': 2, 'x1': 'v', 'x2': None}"),
           (_PARTLY, "{'x1': ''}"), (_PARTLY, "{'c': 0}"), (_DEFAULT, '{}')],
    'ra': [(_EMPTY_JSON, '{}'), (_EMPTY_LIST, '[]'), (_FALSY, "''"), (_FALSY, '0'), (_FALSY, 'False'),
           (_NONE, 'None'), (_ORDINARY, '[{}]'), (_ORDINARY, "{'a': {}}"),
           (_EMPTY_JSON, "C05Pair({}, right={})"), (_EMPTY_JSON, "C05Leaf({})"),
           (_EMPTY_JSON, "c05_hide(nd={})")],
    'an': [(_EMPTY_JSON, '{}'), (_EMPTY_LIST, '[]'), (_FALSY, "''"), (_FALSY, '0'), (_FALSY, 'False'),
           (_FALSY, '0.0'), (_DEFAULT, 'None'), (_EMPTY_JSON, "c05_hide(rd={}, ra={})")],
    'a1': [(_EMPTY_JSON, '{}'), (_EMPTY_LIST, '[]'), (_FALSY, '0'), (_NONE, 'None'), (_DEFAULT, '1'),
           (_EQ_NOT_SAME, 'True'), (_EQ_NOT_SAME, '1.0')],
    'un': [(_EMPTY_JSON, '{}'), (_EMPTY_LIST, '[]'), (_FALSY, '0'), (_ORDINARY, "{'a': 1}"),
           (_ORDINARY, '[{}, []]'), (_DEFAULT, '1')],
    'dd': [(_DEFAULT, '{}'), (_DEFAULT, "{'p': 1}"), (_EMPTY_JSON, "{'inner': {}}"),
           (_EMPTY_JSON, "{'inner': {'x': 0}}"), (_PARTLY, "{'inner': {'x': 3}}"),
           (_PARTLY, "{'p': 0}"), (_PARTLY, "{'k': {'x': 1}}"), (_EMPTY_JSON, "{'p': 2, 'inner': {}}")],
    'nl': [(_EMPTY_LIST, '[]'), (_ORDINARY, '[0]'), (_DEFAULT, 'None')],
    'dl': [(_EMPTY_LIST, '[]'), (_ORDINARY, '[0]'), (_ORDINARY, '[1, 1]'), (_DEFAULT, '[1]')],
    'ld': [(_EMPTY_LIST, '[]'), (_PARTLY, '[{}]'), (_PARTLY, "[{'x': 0}, {'x': 1}]"), (_DEFAULT, 'None')],
    'i5': [(_FALSY, '0'), (_ORDINARY, '-5'), (_DEFAULT, '5')],
    'ni': [(_FALSY, '0'), (_NONE, 'None'), (_DEFAULT, '5')],
    's': [(_FALSY, "''"), (_ORDINARY, "'A'"), (_DEFAULT, "'a'")],
    'b': [(_FALSY, 'False'), (_DEFAULT, 'True')],
    'fl': [(_FALSY, '0.0'), (_NONE, 'None'), (_ORDINARY, "float('nan')"), (_DEFAULT, '1.5')],
    'f0': [(_ORDINARY, '1.0'), (_DEFAULT, '0.0'), (_EQ_NOT_SAME, '-0.0')],
    'a0': [(_ORDINARY, "''"), (_NONE, 'None'), (_DEFAULT, '0'), (_EQ_NOT_SAME, 'False'),
           (_EQ_NOT_SAME, '0.0'), (_EQ_NOT_SAME, '-0.0')],
    'en': [(_FALSY, "''"), (_NONE, 'None'), (_FALSY, '0'), (_DEFAULT, "'x'")],
    'ob': [(_ORDINARY, 'C05Leaf(None)'), (_EMPTY_JSON, 'C05Leaf({})'), (_DEFAULT, 'None')],
    'od': [(_ORDINARY, 'C05Pair(None)'), (_EMPTY_JSON, 'C05Pair(1, right={})'),
           (_PARTLY, 'C05Pair(1, right=0)'), (_DEFAULT, 'C05Pair(1)')],
}

_CLASS_RANK = [_EQ_NOT_SAME, _NONCONST, _EMPTY_JSON, _EMPTY_LIST, _NONE, _FALSY, _PARTLY, _ORDINARY, _DEFAULT]

# writer option sets (every one must be lossless).
WRITER_OPTIONS = [
    dict(hide_default_values='True'),
    dict(hide_default_values='True', hide_frozen='False'),
    dict(hide_default_values='True', use_inferred='True'),
    dict(hide_frozen='True', hide_default_values='False'),
    dict(use_inferred='True'),
]

# where the schema-backed object sits ({o}); the same members as a schema-
# backed pg.Dict (no class) are built by `_hide_as_dict`.
HIDE_HOLDERS = [
    ('root', '{o}'),
    ('in-dict', "{{'h': {o}}}"),
    ('in-list', '[{o}, 1]'),
    ('in-tuple', '(0, {o})'),
    ('in-any-field', 'C05Leaf({o})'),
    ('in-typed-field-of-same-class', 'c05_hide(an={o})'),
    ('in-list-in-dict-field', "C05Pair([{{'z': {o}}}])"),
]

_HIDE_ENTRIES = ['obj', 'str', 'save-load', 'sym-save-load', 'str-indent']

_HIDE_DICT_SPEC = (
    "pg.typing.Dict([('nd', pg.typing.Dict([('w', pg.typing.Int(default=0))]).noneable()), "
    "('rd', pg.typing.Dict()), ('an', pg.typing.Any(default=None)), "
    "('un', pg.typing.Union([pg.typing.Dict(), pg.typing.Int()], default=1)), "
    "('nl', pg.typing.List(pg.typing.Int()).noneable()), ('i5', pg.typing.Int(default=5)), "
    "('a0', pg.typing.Any(default=0)), "
    "(pg.typing.StrKey('x.*'), pg.typing.Dict([('y', pg.typing.Int(default=0))]).noneable())])")

HIDE_DICT_VALUES = [
    (_EMPTY_JSON, "nd={}, rd={'t': 1}"), (_EMPTY_JSON, "nd={'w': 0}, rd={'t': 1}"),
    (_EMPTY_JSON, 'rd={}'), (_EMPTY_JSON, "rd={'t': 1}, an={}"), (_EMPTY_JSON, "rd={'t': 1}, un={}"),
    (_EMPTY_JSON, "rd={'t': 1}, x1={}"), (_EMPTY_JSON, "rd={'t': 1}, x1={'y': 0}"),
    (_NONCONST, "rd={'t': 1}, x1={'y': 1}, x2=None"),
    (_EMPTY_LIST, "rd={'t': 1}, nl=[]"), (_EMPTY_LIST, "rd={'t': 1}, an=[]"),
    (_FALSY, "rd={'t': 1}, i5=0"), (_FALSY, "rd={'t': 1}, an=0"), (_NONE, "rd={'t': 1}, a0=None"),
    (_PARTLY, "rd={'t': 1}, nd={'w': 3}, x1={'y': 1}"), (_DEFAULT, "rd={'t': 1}"),
    (_EQ_NOT_SAME, "rd={'t': 1}, a0=False"),
]


def hide_universe(tier, seed):
  """-> [(value class, src of a C05Hide* object, number of fields set)]."""
  out = []
  for k, vals in HIDE_FIELD_VALUES.items():
    for cls, val in vals:
      out.append((cls, f'c05_hide({k}={val})', 1))
  r = rng(seed, 'c05-hide')
  for i in range(120 if tier == 'thorough' else 18):
    keys = [k for k in HIDE_FIELD_VALUES if k in _HIDE_CLASSES[i % 3].__annotations__]
    ks = r.sample(keys, r.randint(2, min(5, len(keys))))
    # (classes that have their own findings stay out of the combinations.)
    picks = [(k,) + r.choice([x for x in HIDE_FIELD_VALUES[k] if x[0] not in (_EQ_NOT_SAME, _NONCONST)])
             for k in ks]
    cls = min((c for _, c, _ in picks), key=_CLASS_RANK.index)
    out.append((cls, 'c05_hide(' + ', '.join(f'{k}={v}' for k, _, v in picks) + ')', len(ks)))
  return out


def _opt_tag(kw):
  return '+'.join(f'{k}={v}' for k, v in sorted(kw.items()))


def _record_json_literal(rec, src, form, cid, kw, v):
  """The criteria the statement names, literally: pg.eq, type, pg.hash, well-
  formed tree.  Used where a member is replaced by a value that is == to it
  (True -> 1, -0.0 -> 0.0): pg.eq does not tell these apart."""
  try:
    ok, kind, msg, wit, r = json_roundtrip(src, form, kw=kw, v=v, check_original=False)
    if not ok and kind == 'value' and r is not None:
      hv = outcome(pg.hash, v)     # (plain containers are not hashable.)
      lit = outcome(lambda: bool(pg.eq(v, r)) and type(r) is expected_type(v)
                    and (hv[0] != 'ok' or outcome(pg.hash, r) == hv) and not tree_errors(r))
      ok = lit == ('ok', True)
  except Exception as e:  # pylint: disable=broad-except
    ok, kind, msg, wit = False, 'harness', f'{type(e).__name__}: {e}', src
  rec.case(cid, (src, form, repr(kw)), ok, f'[{kind}] {msg}', wit)


def drv_writer_options(tier, seed):
  rec = Recorder(
      'C05', 'writer options that leave members out of the JSON (hide_default_values, hide_frozen, '
             'use_inferred) lose nothing',
      scope='C05Hide: 22 schema-backed fields (noneable / required / free-form / StrKey dict fields, Any, '
            'Union, dict with generated default and nested dict members, lists, list of dicts, scalars with '
            'non-falsy defaults, Enum, Object with/without default, frozen) x per field 2-12 values of 8 '
            'classes (non-default value whose JSON is {}, empty list, falsy scalar, None, container whose '
            'members are partly defaults, ordinary, the default itself, == default but other type/sign) + '
            'seeded combinations of 2-6 fields (quick 16 / thorough 120); x 5 writer option sets x entry '
            'points to_json / to_json_str (+indent) / pg.save+pg.load / v.save+cls.load; x 7 holders '
            '(quick: root for all, other holders for the single-field values in rotation); the same for a '
            'schema-backed pg.Dict (value_spec=) with const and StrKey members; geno specs, hyper values '
            'and C05Typed objects written with hide_default_values')
  uni = hide_universe(tier, seed)
  for n, (cls, osrc, nfields) in enumerate(uni):
    for hi, (hn, hf) in enumerate(HIDE_HOLDERS):
      # quick: every value at the root; single-field values below 2 of the 6
      # other holders (rotating).
      if hn != 'root' and tier != 'thorough' and not (nfields == 1 and (n + hi) % 3 == 0):
        continue
      src = hf.format(o=osrc)
      try:
        v = ev(src)
      except Exception:  # not constructible: not an input.  pylint: disable=broad-except
        continue
      symbolic = isinstance(v, pg.Symbolic)
      first = True
      for oi, kw in enumerate(WRITER_OPTIONS):
        hides = kw.get('hide_default_values') == 'True'
        if tier == 'thorough' or (hn == 'root' and oi == 0):
          entries = _HIDE_ENTRIES
        elif hn == 'root':
          entries = [_HIDE_ENTRIES[(n + oi) % 2]]
        else:
          entries = [_HIDE_ENTRIES[(n + oi) % 2]] if oi < 2 else []
        for form in entries:
          if form == 'sym-save-load' and not symbolic:
            continue
          if form == 'str-indent' and not hides:
            continue
          # an option that hides nothing relevant is one class whatever the value.
          cid = (f'json-writer-option/hide_default_values/{cls}' if hides
                 else f'json-writer-option/{_opt_tag(kw)}')
          # (the value is built once; that writing leaves it alone is checked
          # on the first entry point.)
          if cls == _EQ_NOT_SAME and hides:
            _record_json_literal(rec, src, form, cid, kw, v)
          else:
            record_json(rec, 'writer-option', src, form, cid=cid, kw=kw, _v=v, check_original=first)
          first = False
  # a stand-alone typed dict below an untyped field: its own spec decides what
  # is hidden, and nothing restores that spec when loading.
  for src in ["C05Leaf(pg.Dict(x=0, value_spec=pg.typing.Dict([('x', pg.typing.Int(default=0))])))",
              "[pg.Dict(y=1, value_spec=pg.typing.Dict([('x', pg.typing.Int(default=0)), ('y', pg.typing.Int())]))]"]:
    for form in ('obj', 'str'):
      v = ev(src)
      o = outcome(lambda: pg.from_json(pg.to_json(v, hide_default_values=True)) if form == 'obj'
                  else pg.from_json_str(pg.to_json_str(v, hide_default_values=True)))
      ok = o[0] == 'ok' and diff_value(v, o[1], check_spec=False) == ''
      rec.case('json-writer-option/hide_default_values/stand-alone-typed-dict-below-untyped-field',
               (src, form), ok, f'{v!r} -> {o[1]!r}',
               f'{_header(src)}v = {src}\nr = pg.from_json(pg.to_json(v, hide_default_values=True))\n'
               'assert pg.eq(v, r), (v, r)\n')
  # the same members in a schema-backed pg.Dict (the loader is given the spec).
  for cls, args in HIDE_DICT_VALUES:
    src = f'pg.Dict({args}, value_spec={_HIDE_DICT_SPEC})'
    for kw in WRITER_OPTIONS[:2]:
      for form in ('obj', 'str', 'save-load'):
        if cls == _EQ_NOT_SAME:
          continue      # (see _record_json_literal; covered on the object classes.)
        record_json(rec, 'writer-option', src, form, kw=kw, lkw=dict(value_spec=_HIDE_DICT_SPEC),
                    cid=f'json-writer-option/hide_default_values/{cls}',
                    check_original=False)
  # library classes with many defaulted members.
  others = [(s, 'geno') for s in GENO_POINTS[::2] + GENO_FROM_HYPER[:3]]
  others += [(s, 'hyper') for s in HYPER_VALUES]
  others += [(s, 'typed') for s in typed_universe('quick', seed)[::(1 if tier == 'thorough' else 4)]]
  for src, fam in others:
    if not constructible(src) or delicate_class(ev(src), 'str'):
      continue
    for form in ('obj', 'str'):
      record_json(rec, 'writer-option', src, form, kw=WRITER_OPTIONS[0], check_original=False,
                  cid=f'json-writer-option/hide_default_values/{fam}')
  return rec.result()


# -----------------------------------------------------------------------------
# Values that are written under one NAME but differ in content: functions that
# are serialized with their code (all lambdas of a module are '<module>.<lambda>',
# local functions of different scopes / branches share a qualified name) and
# generic types of one origin.  Neither a second one inside the same value nor
# one loaded later in the same process may come back as the first.
# -----------------------------------------------------------------------------

SAME_NAME_GROUPS = [
    ('code-functions', 'lambdas-built-by-eval',
     ['(lambda x: x - 3)', '(lambda x: x * 10)', '(lambda x, y=2: x * 10 + y)',
      '(lambda x, y=3: x * 10 + y)', '(lambda: 7)', '(lambda x, y: (x, y))']),
    ('code-functions', 'lambdas-of-a-module',
     [f'C05_MODULE_LAMBDAS[{i}]' for i in range(len(C05_MODULE_LAMBDAS))]),
    ('code-functions', 'local-functions-of-one-factory',
     [f'c05_make_scaler({k!r})' for k in ('double', 'shift', 'shift7', 'pair')]),
    ('generic-types', 'subscripted-generics-of-one-origin',
     ['typing.List[int]', 'typing.List[str]', 'list[int]', 'list[str]', 'list[list[int]]',
      'typing.Dict[str, int]', 'typing.Dict[int, str]', 'typing.Optional[int]',
      'typing.Optional[str]', 'dict[str, list[int]]', 'dict[str, list[str]]',
      'typing.Callable[[int], str]', 'typing.Callable[[str], int]']),
]

SAME_NAME_HOLDERS = [
    ('list', '[{f}, {g}]'),
    ('tuple', '({f}, 0, {g})'),
    ('dict', "{{'a': {f}, 'b': {g}}}"),
    ('object-any-fields', 'C05Pair({f}, right={g})'),
    ('nested', 'pg.Dict(x=[{f}], y=C05Leaf(({g},)))'),
    ('repeated', '[{f}, {g}, {f}]'),
    ('typed-fields', 'C05Typed(i=1, c={f}, a={g})'),     # functions only (c: Callable)
    ('typed-fields', 'C05Typed(i=1, ty={f}, a={g})'),    # types only (ty: Type)
]

# sequential entry points: (name, write statement(s) for item k, read statement for item k)
_SEQ_ENTRIES = ['from_json', 'from_json_str', 'save-load-on-distinct-paths', 'records-of-one-jsonl-file']


def _name_of(src):
  try:
    j = pg.to_json(ev(src))
    return (j.get('name'), 'code' in j)
  except Exception:  # pylint: disable=broad-except
    return None


def drv_same_name_symbols(tier, seed):
  rec = Recorder(
      'C05', 'functions serialized with their code / generic types that share one qualified name: '
             'each comes back as itself, inside one value and across successive loads in one process',
      scope='groups: 6 lambdas built by eval, 4 lambdas of this module, 4 local functions of one factory '
            '(different code, same code with different defaults, different arity), 13 subscripted generics '
            '(typing.List/Dict/Optional/Callable, list, dict with different args); all ordered pairs of a '
            'group x 7 holders (list, tuple, dict, object Any fields, nested, repeated, typed fields) x forms '
            'obj/str (quick: 3 holders per pair in rotation); value specs with two transform / default '
            'functions; successive loads: ALL sequences of length <= 3 (with repetition) over each group '
            '(quick: all of length <= 2 + 40 seeded of length 3..4) through pg.from_json, pg.from_json_str, '
            'pg.save to distinct /mem paths then pg.load in sequence order, records of one pg.open_jsonl '
            'file; oracle: name, signature, defaults and behaviour on 7 probe argument lists (functions), '
            '== and exact type (types)')
  r = rng(seed, 'c05-same-name')
  run_id = next(_RUN_IDS)
  for kind, gname, srcs in SAME_NAME_GROUPS:
    srcs = [s for s in srcs if constructible(s)]
    if kind == 'code-functions':
      # scope check: the members really are written under one name, with code.
      names = {_name_of(s) for s in srcs}
      rec.case(f'harness/same-name-group-{gname}', tuple(srcs),
               len(names) == 1 and list(names)[0] and list(names)[0][1],
               f'group is not written under one name with code: {names}', '')
    # (a) two of them inside one value.
    pairs = [(f, g) for f in srcs for g in srcs if f != g]
    for n, (f, g) in enumerate(pairs):
      for hi, (hn, hf) in enumerate(SAME_NAME_HOLDERS):
        if tier != 'thorough' and (n + hi) % 3:
          continue
        src = hf.format(f=f, g=g)
        if not constructible(src):
          continue           # e.g. a type in a Callable field.
        for form in ('obj', 'str'):
          if tier != 'thorough' and (n + hi // 3) % 2 != (form == 'str'):
            continue
          record_json(rec, 'same-name', src, form, cid=f'json-same-name/{kind}-in-one-value',
                      check_original=False)
    # (b) loaded one after the other.
    seqs = [q for k in (1, 2) for q in itertools.product(range(len(srcs)), repeat=k)]
    if tier == 'thorough':
      seqs += list(itertools.product(range(len(srcs)), repeat=3))
    else:
      seqs += [tuple(r.randrange(len(srcs)) for _ in range(r.randint(3, 4))) for _ in range(40)]
    originals = [ev(s) for s in srcs]
    jobj = [pg.to_json(v) for v in originals]
    jstr = [pg.to_json_str(v) for v in originals]
    for j in jobj:          # every member has been loaded once before (see the witness).
      outcome(pg.from_json, copy.deepcopy(j))
    for qi, q in enumerate(seqs):
      for entry in _SEQ_ENTRIES:
        if tier != 'thorough' and len(q) > 1 and entry.startswith(('save', 'records')) and qi % 4:
          continue
        head = (f'{_header("C05")}from {_MOD} import assert_same\n'
                f'for w in [{", ".join(srcs)}]:\n  pg.from_json(pg.to_json(w))    # earlier loads of the process\n'
                f'vs = [{", ".join(srcs[i] for i in q)}]\n')
        try:
          if entry == 'from_json':
            got = [pg.from_json(copy.deepcopy(jobj[i])) for i in q]
            wit = head + 'rs = [pg.from_json(pg.to_json(v)) for v in vs]\n'
          elif entry == 'from_json_str':
            got = [pg.from_json_str(jstr[i]) for i in q]
            wit = head + 'rs = [pg.from_json_str(pg.to_json_str(v)) for v in vs]\n'
          elif entry.startswith('save'):
            base = f'/mem/c05same/r{run_id}/{gname}/{qi}'
            for k, i in enumerate(q):
              pg.save(pg.Dict(fn=originals[i]), f'{base}/{k}.json')
            got = [pg.load(f'{base}/{k}.json').fn for k in range(len(q))]
            wit = head + (f"for k, v in enumerate(vs):\n  pg.save(pg.Dict(fn=v), '/mem/c05w/%d.json' % k)\n"
                          "rs = [pg.load('/mem/c05w/%d.json' % k).fn for k in range(len(vs))]\n")
          else:
            p = f'/mem/c05same/r{run_id}/{gname}/{qi}.jsonl'
            with pg.open_jsonl(p, 'w') as fh:
              for i in q:
                fh.add(originals[i])
            with pg.open_jsonl(p, 'r') as fh:
              got = list(iter(fh))
            wit = head + ("with pg.open_jsonl('/mem/c05w/s.jsonl', 'w') as f:\n  for v in vs:\n    f.add(v)\n"
                          "with pg.open_jsonl('/mem/c05w/s.jsonl', 'r') as f:\n  rs = list(iter(f))\n")
          d = ''
          if len(got) != len(q):
            d = f'{len(got)} values loaded, want {len(q)}'
          for k, i in enumerate(q):
            d = d or diff_value(originals[i], got[k], f'[load #{k}: {srcs[i]}]')
        except Exception as e:  # pylint: disable=broad-except
          d = f'{type(e).__name__}: {e}'
        rec.case(f'json-same-name/{kind}-loaded-one-after-the-other', (gname, q, entry), not d,
                 f'[{entry}] {d}', wit + 'for v, r in zip(vs, rs):\n  assert_same(v, r)\n')
  # (c) value specs that carry two such functions (transform= / default=).
  fs = SAME_NAME_GROUPS[0][2][:3] + SAME_NAME_GROUPS[2][2][:2]
  for f in fs:
    for g in fs:
      if f == g or (f.startswith('(') != g.startswith('(')):
        continue
      for tpl, probe in [
          ("T.Dict([('a', T.Any(transform={f})), ('b', T.Any(transform={g}))])",
           "[x.apply({'a': 5, 'b': 5}) for x in (v, r)]"),
          ("T.Tuple([T.Any(transform={f}), T.List(T.Any(transform={g}))])", '[x.apply((5, [5])) for x in (v, r)]'),
          ("T.Dict([('a', T.Callable(default={f})), ('b', T.Callable(default={g}))])",
           "[[x.apply({})[k](5) for k in 'ab'] for x in (v, r)]"),
      ]:
        src = tpl.format(f=f, g=g)
        for form in ('obj', 'str'):
          # (specs compare functions by identity: only behaviour is compared.)
          conv = ('pg.from_json(pg.to_json(v))' if form == 'obj'
                  else 'pg.from_json_str(pg.to_json_str(v))')
          v = ev(src)
          o = outcome(lambda: eval(probe, dict(v=v, r=eval(conv, dict(pg=pg, v=v)))))  # pylint: disable=eval-used
          rec.case('json-same-name/code-functions-in-one-value', (src, form, 'spec-behaviour'),
                   o[0] == 'ok' and diff_value(o[1][0], o[1][1]) == '', f'{probe}: {o}',
                   f'{_header(src)}v = {src}\nr = {conv}\n'
                   f'a, b = {probe}\nassert a == b, (a, b)\n')
  return rec.result()


# -----------------------------------------------------------------------------
# Value specs, fields, key specs and schemas.
# -----------------------------------------------------------------------------

NO_DEFAULT_ENUM = 'spec/enum-without-default'
EMPTY_TUPLE = 'json/empty-tuple'

SPECS = [
    # Bool
    ('Bool', 'T.Bool()'), ('Bool', 'T.Bool(True)'), ('Bool', 'T.Bool(False)'),
    ('Bool', 'T.Bool().noneable()'), ('Bool', 'T.Bool(True).freeze()'),
    ('Bool', 'T.Bool(False).freeze()'),
    # Str
    ('Str', 'T.Str()'), ('Str', "T.Str('')"), ('Str', "T.Str('a')"),
    ('Str', "T.Str(regex='a.*')"), ('Str', "T.Str('ab', regex='a.*')"),
    ('Str', 'T.Str().noneable()'), ('Str', "T.Str('x').freeze()"),
    ('Str', r"T.Str('\n\x00 \ud800')"), ('Str', r"T.Str(regex='\\d+\n?')"),
    ('Str', "T.Str('n_:5')"), ('Str', "T.Str('__tuple__')"),
    # Int
    ('Int', 'T.Int()'), ('Int', 'T.Int(0)'), ('Int', 'T.Int(1)'),
    ('Int', 'T.Int(min_value=0)'), ('Int', 'T.Int(max_value=0)'),
    ('Int', 'T.Int(min_value=-1, max_value=1)'),
    ('Int', 'T.Int(min_value=5, max_value=5)'),
    ('Int', 'T.Int(2, min_value=0, max_value=5)'), ('Int', 'T.Int().noneable()'),
    ('Int', 'T.Int(3).freeze()'), ('Int', 'T.Int(10**20)'),
    ('Int', 'T.Int(0).noneable()'), ('Int', 'T.Int(0, min_value=0, max_value=0).freeze()'),
    # Float
    ('Float', 'T.Float()'), ('Float', 'T.Float(0.0)'), ('Float', 'T.Float(1.5)'),
    ('Float', 'T.Float(min_value=0.0)'), ('Float', 'T.Float(max_value=0.0)'),
    ('Float', 'T.Float(min_value=-1.5, max_value=1e22)'),
    ('Float', "T.Float(float('inf'))"), ('Float', 'T.Float().noneable()'),
    ('Float', 'T.Float(1)'), ('Float', 'T.Float(0.1 + 0.2, min_value=5e-324)'),
    # Enum
    ('Enum', "T.Enum('a', ['a', 'b'])"), ('Enum', "T.Enum(1, [1, 'b', None])"),
    ('Enum', 'T.Enum(None, [None, 1])'), ('Enum', "T.Enum('a', ['a']).freeze()"),
    ('Enum', 'T.Enum(C05Leaf(1), [C05Leaf(1), C05Leaf(2)])'),
    ('Enum', 'T.Enum((1, 2), [(1, 2), (3,)])'), ('Enum', 'T.Enum(1.5, [1.5, 2])'),
    ('Enum', "T.Enum(False, [False, 0.0, ''])"),
    (NO_DEFAULT_ENUM, "T.Enum(pg.MISSING_VALUE, ['a', 'b'])"),
    (NO_DEFAULT_ENUM, "T.ValueSpec.from_annotation(typing.Literal['a', 'b'], auto_typing=True)"),
    (EMPTY_TUPLE, 'T.Enum((), [(), (1,)])'),
    # List
    ('List', 'T.List(T.Int())'), ('List', 'T.List(T.Int(), default=[])'),
    ('List', 'T.List(T.Int(), default=[1, 2])'), ('List', 'T.List(T.Int(), min_size=1)'),
    ('List', 'T.List(T.Int(), min_size=0)'), ('List', 'T.List(T.Int(), max_size=2)'),
    ('List', 'T.List(T.Int(), min_size=1, max_size=3)'), ('List', 'T.List(T.Int(), size=2)'),
    ('List', 'T.List(T.Int(), max_size=0)'),
    ('List', 'T.List(T.Int(min_value=0))'), ('List', 'T.List(T.List(T.Str()))'),
    ('List', 'T.List(T.Object(C05Leaf))'), ('List', 'T.List(T.Int()).noneable()'),
    ('List', 'T.List(T.Int(), default=[1]).freeze()'),
    ('List', 'T.List(T.Int(), transform=c05_to_list)'), ('List', 'T.List(T.Any())'),
    ('List', 'T.List(T.Union([T.Int(), T.Str()]))'),
    ('List', "T.List(T.Dict([('a', T.Int())]))"),
    ('List', 'T.List(T.Int(1))'), ('List', 'T.List(T.Str().noneable(), default=[None])'),
    # Tuple
    ('Tuple', 'T.Tuple([T.Int()])'), ('Tuple', 'T.Tuple([T.Int(), T.Str()])'),
    ('Tuple', "T.Tuple([T.Int(), T.Str()], default=(1, 'a'))"),
    ('Tuple', 'T.Tuple(T.Int())'), ('Tuple', 'T.Tuple(T.Int(), min_size=1)'),
    ('Tuple', 'T.Tuple(T.Int(), max_size=3)'),
    ('Tuple', 'T.Tuple(T.Int(), min_size=1, max_size=3)'),
    ('Tuple', 'T.Tuple(T.Int(), size=2)'), ('Tuple', 'T.Tuple(T.Int(), default=(1, 2))'),
    ('Tuple', 'T.Tuple([T.Int()]).noneable()'),
    ('Tuple', 'T.Tuple([T.List(T.Int()), T.Tuple([T.Str()])])'),
    ('Tuple', 'T.Tuple(T.Int(), transform=tuple)'),
    ('Tuple', 'T.Tuple([T.Int(1), T.Str().noneable()])'),
    (EMPTY_TUPLE, 'T.Tuple(T.Int(), default=())'),
    (EMPTY_TUPLE, 'T.Tuple([]) if False else T.Tuple(T.Int(), max_size=2, default=())'),
    # Dict
    ('Dict', 'T.Dict()'), ('Dict', "T.Dict([('a', T.Int())])"),
    ('Dict', "T.Dict([('a', T.Int(), 'desc')])"),
    ('Dict', "T.Dict([('a', T.Int(1), 'desc', {'m': 1})])"),
    ('Dict', 'T.Dict([(T.StrKey(), T.Int())])'),
    ('Dict', "T.Dict([(T.StrKey('x.*'), T.Str())])"),
    ('Dict', "T.Dict([('a', T.Int()), (T.StrKey('x.*'), T.Str())])"),
    ('Dict', "T.Dict([('a', T.Dict([('b', T.List(T.Int()))]))])"),
    ('Dict', 'T.Dict().noneable()'), ('Dict', "T.Dict([('a', T.Int(1))]).noneable()"),
    ('Dict', 'T.Dict(T.Int())'), ('Dict', "T.Dict([('a', T.Int(1))]).freeze()"),
    ('Dict', "T.Dict([('b', T.Str('s')), ('a', T.Int(1))])"),
    ('Dict', "T.Dict([('a.b', T.Int())]) if False else T.Dict([('a b', T.Int(), '', {})])"),
    # Object
    ('Object', 'T.Object(C05Leaf)'), ('Object', 'T.Object(C05Leaf).noneable()'),
    ('Object', 'T.Object(C05Leaf, default=C05Leaf(1))'), ('Object', 'T.Object(pg.Dict)'),
    ('Object', 'T.Object(int)'), ('Object', 'T.Object(C05Leaf.Inner)'),
    ('Object', 'T.Object(C05Leaf, transform=C05Leaf.smake)'),
    ('Object', 'T.Object(C05Typed, default=C05Typed(i=1, l=[1])).freeze()'),
    # Callable / Functor
    ('Callable', 'T.Callable()'), ('Callable', 'T.Callable([T.Int()])'),
    ('Callable', "T.Callable([T.Int(), T.Str()], kw=[('x', T.Str())], returns=T.Int())"),
    ('Callable', 'T.Callable(returns=T.Bool())'), ('Callable', 'T.Callable(default=c05_double)'),
    ('Callable', 'T.Callable().noneable()'), ('Functor', 'T.Functor()'),
    ('Functor', 'T.Functor([T.Int()], returns=T.Int())'),
    ('Callable', "T.Callable(kw=[('a', T.Any()), ('b', T.List(T.Int()))])"),
    # Type
    ('Type', 'T.Type(int)'), ('Type', 'T.Type(C05Leaf)'), ('Type', 'T.Type(object)'),
    ('Type', 'T.Type(int, default=bool)'), ('Type', 'T.Type(int).noneable()'),
    # Union
    ('Union', 'T.Union([T.Int(), T.Str()])'), ('Union', 'T.Union([T.Int(), T.Str()]).noneable()'),
    ('Union', 'T.Union([T.Int(), T.Str()], default=1)'),
    ('Union', "T.Union([T.Int(), T.Str()], default='s')"),
    ('Union', 'T.Union([T.Int(), T.List(T.Int())])'),
    ('Union', 'T.Union([T.Object(C05Leaf), T.Dict()])'),
    ('Union', 'T.Union([T.Callable(), T.Int()])'),
    ('Union', 'T.Union([T.Union([T.Int(), T.Str()]), T.Float()])'),
    ('Union', 'T.Union([T.Int(min_value=0), T.Float(max_value=0.0)]).freeze(1)'),
    # Any
    ('Any', 'T.Any()'), ('Any', 'T.Any(1)'), ('Any', 'T.Any(None)'),
    ('Any', 'T.Any(annotation=int)'), ('Any', 'T.Any(default=[1])'),
    ('Any', 'T.Any(transform=c05_double)'), ('Any', 'T.Any().freeze(2)'),
    ('Any', "T.Any(default={'a': (1,)})"),
    # from annotations
    ('Annotation', 'T.ValueSpec.from_annotation(typing.Optional[int], auto_typing=True)'),
    ('Annotation', 'T.ValueSpec.from_annotation(list[int], auto_typing=True)'),
    ('Annotation', 'T.ValueSpec.from_annotation(dict[str, int], auto_typing=True)'),
    ('Annotation', 'T.ValueSpec.from_annotation(typing.Union[int, str, None], auto_typing=True)'),
    ('Annotation', 'T.ValueSpec.from_annotation(typing.Callable[[int], str], auto_typing=True)'),
    ('Annotation', 'T.ValueSpec.from_annotation(C05Leaf, auto_typing=True)'),
    ('Annotation', 'T.ValueSpec.from_annotation(tuple[int, str], auto_typing=True)'),
    ('Annotation', 'T.ValueSpec.from_annotation(tuple[int, ...], auto_typing=True)'),
]

KEY_SPECS = [
    'T.ListKey()', 'T.ListKey(1, 5)', 'T.ListKey(0)', 'T.ListKey(0, 0)',
    'T.TupleKey()', 'T.TupleKey(0)', 'T.TupleKey(3)', 'T.StrKey()',
    "T.StrKey('a.*')", r"T.StrKey('\\d+\n')", "T.ConstStrKey('a')",
    "T.ConstStrKey('a b')", "T.ConstStrKey('n_:5')", "T.ConstStrKey('')",
]

SPEC_WRAPPERS = [
    ('field', "T.Field('k', {s})"),
    ('field', "T.Field('k', {s}, 'some description')"),
    ('field', "T.Field(T.StrKey('x.*'), {s}, 'd', {{'m': [1, (2,)], 'n': None}})"),
    ('schema', 'T.Schema([T.Field(\'a\', {s})])'),
    ('schema', "T.Schema([T.Field('a', {s}, 'd'), T.Field('b', T.Int(1))], name='n', "
               "description='dd', allow_nonconst_keys=True, metadata={{'z': 1}})"),
    ('schema', "T.Schema([T.Field('b', T.Str().noneable()), T.Field(T.StrKey('x.*'), {s})], "
               "allow_nonconst_keys=True)"),
    ('nested-spec', 'T.List({s})'),
    ('nested-spec', 'T.Tuple([T.Int(), {s}])'),
    ('nested-spec', "T.Dict([('a', {s}), ('b', T.Int(1))])"),
    ('nested-spec', 'T.Union([T.Type(C05Pair), {s}]) if not isinstance({s}, (T.Type, T.Union, T.Any)) else T.List({s})'),
]

EMPTY_SCHEMA = 'spec/schema-without-fields'

SCHEMAS = [
    "T.Schema([T.Field(T.StrKey(), T.Any())], allow_nonconst_keys=True)",
    "T.Schema([T.Field('a', T.Int())], metadata={'k': [1, {'x': (1, 2)}]})",
    "T.Schema([T.Field('a', T.Int())], description='line1\\nline2 \\u2028')",
    "T.Schema([T.Field('a', T.Int())], name='')",
    'C05Typed.__schema__', 'C05Leaf.__schema__', 'C05Pair.__schema__',
    'T.create_schema([(\'a\', int), (\'b\', T.Str(\'x\'), \'doc\')])',
]

SPEC_PROBES = [
    lambda: None, lambda: True, lambda: False, lambda: 0, lambda: 1, lambda: -1,
    lambda: 5, lambda: 100, lambda: 10**20, lambda: 1.5, lambda: 0.0, lambda: -0.5,
    lambda: float('inf'), lambda: '', lambda: 'a', lambda: 'abc', lambda: 'b',
    lambda: 'x1', lambda: '12', lambda: [], lambda: [1], lambda: [1, 2],
    lambda: [1, 2, 3, 4], lambda: ['a'], lambda: [-1], lambda: [[]], lambda: [['a']],
    lambda: (), lambda: (1,), lambda: (1, 'a'), lambda: (1, 2), lambda: (1, 2, 3, 4),
    lambda: ([1], ('s',)), lambda: {}, lambda: {'a': 1}, lambda: {'a': 'x'},
    lambda: {'a': 1, 'b': 'x'}, lambda: {'xk': 's'}, lambda: {'a': 1, 'xk': 's'},
    lambda: {'a': {'b': [1]}}, lambda: {'zz': 1}, lambda: {'a b': 2},
    lambda: C05Leaf(1), lambda: C05Leaf(2), lambda: C05Pair(1), lambda: C05Typed(i=1, l=[1]),
    lambda: pg.Dict(), lambda: C05Leaf.Inner(), lambda: int, lambda: bool, lambda: str,
    lambda: C05Leaf, lambda: object, lambda: len, lambda: c05_double,
    lambda: (lambda x: x), lambda: (lambda x, y: x), lambda: pg.MISSING_VALUE,
]

_SPEC_ATTRS = ['default', 'has_default', 'is_noneable', 'frozen', 'value_type',
               'min_value', 'max_value', 'values', 'min_size', 'max_size',
               'fixed_length', 'cls', 'args', 'kw', 'return_value', 'type',
               'candidates', 'annotation', 'transform', 'schema']


def _spec_behaviour_diff(s, r, partial_modes=(False, True)):
  prev = _LOOSE[0]
  _LOOSE[0] = True      # see _LOOSE: defaults of class schemas are symbolic.
  try:
    return _spec_behaviour_diff_impl(s, r, partial_modes)
  finally:
    _LOOSE[0] = prev


def _spec_behaviour_diff_impl(s, r, partial_modes):
  if isinstance(s, pg.typing.ValueSpec):
    for name in _SPEC_ATTRS:
      a, b = outcome(getattr, s, name), outcome(getattr, r, name)
      if a[0] != b[0]:
        return f'attribute {name}: {a} -> {b}'
      if a[0] == 'ok':
        d = diff_value(a[1], b[1])
        if d:
          return f'attribute {name}{d}'
    ra = getattr(getattr(s, 'regex', None), 'pattern', None)
    rb = getattr(getattr(r, 'regex', None), 'pattern', None)
    if ra != rb:
      return f'regex {ra!r} -> {rb!r}'
    if hasattr(s, 'element'):
      if s.element != r.element:
        return f'element {s.element!r} -> {r.element!r}'
    if hasattr(s, 'elements'):
      if list(s.elements) != list(r.elements):
        return f'elements {s.elements!r} -> {r.elements!r}'
    if not (s.is_compatible(r) and r.is_compatible(s)):
      return 'restored spec is not mutually compatible with the original'
    for allow_partial in partial_modes:
      for mk in SPEC_PROBES:
        a = outcome(s.apply, mk(), allow_partial=allow_partial)
        b = outcome(r.apply, mk(), allow_partial=allow_partial)
        if a[0] != b[0] or (a[0] == 'exc' and a[1] is not b[1]):
          return f'apply({mk()!r}, allow_partial={allow_partial}): {a} -> {b}'
        if a[0] == 'ok':
          d = diff_value(a[1], b[1])
          if d:
            return f'apply({mk()!r}) results differ{d}'
  elif isinstance(s, pg.typing.Field):
    for name in ('key', 'value', 'description', 'metadata'):
      d = diff_value(getattr(s, name), getattr(r, name))
      if d:
        return f'field.{name}{d}'
    return _spec_behaviour_diff_impl(s.value, r.value, partial_modes)
  elif isinstance(s, pg.typing.Schema):
    for name in ('name', 'description', 'allow_nonconst_keys', 'metadata'):
      d = diff_value(getattr(s, name), getattr(r, name))
      if d:
        return f'schema.{name}{d}'
    if list(s.keys()) != list(r.keys()):
      return f'schema keys {list(s.keys())} -> {list(r.keys())}'
    for k in s.keys():
      d = _spec_behaviour_diff_impl(s[k], r[k], partial_modes)
      if d:
        return f'field {k!r}: {d}'
    for allow_partial in partial_modes:
      for mk in SPEC_PROBES:
        p = mk()
        if isinstance(p, dict) and not isinstance(p, pg.Dict):
          a = outcome(s.apply, mk(), allow_partial=allow_partial)
          b = outcome(r.apply, mk(), allow_partial=allow_partial)
          if a[0] != b[0] or (a[0] == 'exc' and a[1] is not b[1]):
            return f'schema.apply({p!r}, allow_partial={allow_partial}): {a} -> {b}'
          if a[0] == 'ok':
            d = diff_value(a[1], b[1])
            if d:
              return f'schema.apply({p!r}) results differ{d}'
  elif isinstance(s, pg.typing.KeySpec):
    for k in ['a', 'abc', 'x1', '12', '', 'a b', 'n_:5', 0, 1, 3, 5, 6, -1]:
      a, b = outcome(s.match, k), outcome(r.match, k)
      if a != b:
        return f'match({k!r}): {a} -> {b}'
  return ''


def assert_same_spec(s, r):
  assert_same(s, r)
  d = _spec_behaviour_diff(s, r)
  assert not d, d


def spec_universe(tier, seed):
  out = []
  for tag, s in SPECS:
    out.append((tag if '/' in tag else f'spec/{tag}', s))
  for s in KEY_SPECS:
    out.append(('spec/key-spec', s))
  for s in SCHEMAS:
    out.append(('spec/schema', s))
  for s in ["T.Schema([], name='empty')", 'T.Schema([])',
            "T.Dict(T.Schema([], name='e'))", "T.Field('a', T.Dict(T.Schema([])))"]:
    out.append((EMPTY_SCHEMA, s))
  r = rng(seed, 'c05-specs')
  for wn, wf in SPEC_WRAPPERS:
    pool = r.sample(SPECS, 50 if tier == 'thorough' else 6) + [
        x for x in SPECS if '/' in x[0]]
    for tag, s in pool:
      out.append((tag if '/' in tag else f'spec/{wn}', wf.format(s=s)))
  return out


def drv_specs(tier, seed):
  rec = Recorder(
      'C05', 'value specs, key specs, fields and schemas: JSON round trip',
      scope=f'{len(SPECS)} value specs covering every constructor argument of every spec class '
            '(default/no default/noneable/frozen/bounds/sizes/regex/transform/nested), '
            f'{len(KEY_SPECS)} key specs, {len(SCHEMAS)} schemas incl. class schemas, specs wrapped in '
            'Field/Schema/List/Tuple/Dict/Union (quick: seeded 6 per wrapper, thorough: 50); forms obj/str; '
            'oracle: ==, type, repr, every public attribute, apply() on 58 probe values x allow_partial '
            'differential (original vs restored), is_compatible both ways')
  for label, src in spec_universe(tier, seed):
    special = label if label in (NO_DEFAULT_ENUM, EMPTY_TUPLE, EMPTY_SCHEMA) else None
    modes = (False, True) if tier == 'thorough' else (False,)
    for form in ('obj', 'str'):
      ok, r = record_json(rec, label, src, form, cid=special or f'{label}/{form}')
      if not ok or (form == 'obj' and tier != 'thorough'):
        continue
      s = ev(src)
      d = outcome(_spec_behaviour_diff, s, r, modes)
      good = d == ('ok', '')
      if good and '__schema__' not in src and repr(s) != repr(r):
        good, d = False, ('ok', f'repr {s!r} -> {r!r}')
      conv = ('pg.from_json(pg.to_json(v))' if form == 'obj'
              else 'pg.from_json_str(pg.to_json_str(v))')
      rec.case(special or f'{label}-behaviour', (src, form), good, f'{d[1]}',
               f'{_header(src + "C05")}v = {src}\nr = {conv}\nassert_same_spec(v, r)\n')
  return rec.result()


# -----------------------------------------------------------------------------
# Search-space specs (pg.geno) and DNA.
# -----------------------------------------------------------------------------

G = 'pg.geno.'
GENO_POINTS = [
    G + 'floatv(0.0, 1.0)', G + "floatv(-1.5, 2.5, name='f')",
    G + "floatv(1e-5, 1.0, scale='log')", G + "floatv(0.5, 1.0, scale='linear')",
    G + "floatv(0.5, 2.0, scale='rlog', hints='h')",
    G + "floatv(0.0, 1.0, hints={'a': [1, (2,)]}, location=pg.KeyPath.parse('a.b[0]'))",
    G + 'floatv(2.0, 2.0)', G + "floatv(0.0, float('inf'))",
    G + 'custom()', G + "custom('ht')", G + "custom(hints=[1, 'x'], name='c')",
    G + f'oneof([{G}constant()])', G + f'oneof([{G}constant(), {G}constant()])',
    G + f"oneof([{G}constant(), {G}constant(), {G}constant()], literal_values=['a', 1, 2.5], name='o')",
    G + f"oneof([{G}constant(), {G}constant()], hints='hh', location=pg.KeyPath.parse('x[1].y'))",
    G + f'manyof(2, [{G}constant(), {G}constant(), {G}constant()])',
    G + f'manyof(2, [{G}constant(), {G}constant(), {G}constant()], distinct=False)',
    G + f'manyof(2, [{G}constant(), {G}constant(), {G}constant()], sorted=True)',
    G + f"manyof(3, [{G}constant(), {G}constant(), {G}constant()], distinct=False, sorted=True, literal_values=[0, 1, 2], name='m')",
]
GENO_COMBINE = [
    lambda x, y: G + f'space([{x}])',
    lambda x, y: G + f'space([{x}, {y}])',
    lambda x, y: G + f'oneof([{G}constant(), {x}])',
    lambda x, y: G + f'oneof([{G}space([{x}, {y}]), {G}constant(), {y}])',
    lambda x, y: G + f'manyof(2, [{x}, {G}constant(), {y}])',
]
GENO_FROM_HYPER = [
    "pg.dna_spec(pg.Dict(x=pg.oneof([1, pg.oneof(['a', 'b'])]), y=pg.floatv(0.0, 1.0), "
    "z=pg.manyof(2, [1, 2, 3])))",
    "pg.dna_spec(pg.Dict(w=pg.oneof([C05Leaf(pg.oneof([1, 2])), 3], name='w'), "
    "v=[pg.floatv(0.1, 1.0, scale='log', name='lr')]))",
    'pg.dna_spec(C05Leaf(pg.manyof(2, [C05Leaf(pg.oneof([1, 2])), 2, 3], distinct=False)))',
    'pg.dna_spec(pg.Dict(a=1))', G + 'space([])', G + 'constant()',
]
HYPER_VALUES = [
    "pg.oneof([1, 'a', C05Leaf(2)])", 'pg.manyof(2, [1, 2, 3], distinct=False)',
    "pg.floatv(0.1, 1.0, scale='log')", "pg.Dict(x=pg.oneof([1, 2], name='n'))",
    'C05Leaf(pg.oneof([C05Leaf(pg.floatv(0., 1.)), (1, 2)]))',
    "pg.oneof([[1, 2], {'a': 1}], hints='h')", 'pg.permutate([1, 2, 3])',
    'pg.sublist_of(2, [1, 2, 3], choices_sorted=True)',
]

DNA_SHAPES = [
    ('leaf', 'pg.DNA(None)'), ('leaf', 'pg.DNA(0)'), ('leaf', 'pg.DNA(1)'),
    ('leaf', 'pg.DNA(0.5)'), ('leaf', "pg.DNA('abc')"), ('leaf', "pg.DNA('')"),
    ('leaf', "pg.DNA(float('inf'))"), ('leaf', 'pg.DNA(-0.0)'), ('leaf', 'pg.DNA(5e-324)'),
    ('leaf', 'pg.DNA(10**20)'), ('leaf', "pg.DNA('__tuple__')"), ('leaf', "pg.DNA('n_:5')"),
    ('leaf', r"pg.DNA('\n\x00 ')"), ('leaf', "pg.DNA('_type')"),
    ('nested', 'pg.DNA([0, 1])'), ('nested', 'pg.DNA((0, 1))'), ('nested', 'pg.DNA((0, 1, 2))'),
    ('nested', 'pg.DNA((1, [2, 3]))'), ('nested', 'pg.DNA([(1, [2, (3, 4)]), 0.1])'),
    ('nested', "pg.DNA([0, 'x', 0.5])"), ('nested', "pg.DNA(['a', '__tuple__'])"),
    ('nested', 'pg.DNA([[0, 1], [2, [3, 4]]])'), ('nested', 'pg.DNA((0, (1, [2, 3])))'),
    ('nested', 'pg.DNA(1, [pg.DNA(2, [pg.DNA(3), pg.DNA(4)])])'),
    ('nested', 'pg.DNA(None, [pg.DNA(None, [pg.DNA(1)])])'),
    ('nested', "pg.DNA([(0, 'abc'), (1, 0.25, 2)])"),
    ('metadata', "pg.DNA(1, metadata={'a': 1})"),
    ('metadata', "pg.DNA([0, 1], metadata={'k': [1, (2,)], 'z': {'y': None}})"),
    ('metadata', "pg.DNA(1).set_metadata('k', 1, cloneable=True).set_metadata('n', 2)"),
    ('metadata', "pg.DNA([0, (1, 2)]).set_metadata('k', C05Leaf(1), cloneable=True)"),
    ('metadata', "pg.DNA(0.5, metadata={'n_:5': 2})"),
    ('dna/child-metadata', 'pg.DNA(None, [pg.DNA(1, metadata=dict(a=1)), pg.DNA(2)])'),
    ('dna/child-metadata', "pg.DNA(0, [pg.DNA(1, metadata={'reward': 0.5})])"),
    ('json/list-starting-with-tuple-marker', "pg.DNA(['__tuple__', 'a'])"),
    ('json/list-starting-with-tuple-marker', "pg.DNA(['__tuple__', 0, 1])"),
]


def _lit(x):
  if isinstance(x, float) and (math.isinf(x) or math.isnan(x)):
    return f"float('{x!r}')"
  return repr(x)


def dna_src(d):
  kids = ', '.join(dna_src(c) for c in d.children)
  return f'pg.DNA({_lit(d.value)}, [{kids}])' if kids else f'pg.DNA({_lit(d.value)})'


def geno_universe(tier, seed):
  r = rng(seed, 'c05-geno')
  lvl1 = list(GENO_POINTS)
  lvl2 = []
  for x in lvl1:
    for f in GENO_COMBINE:
      lvl2.append(f(x, r.choice(lvl1)))
  n3 = 60 if tier == 'thorough' else 8
  lvl3 = []
  for _ in range(n3):
    lvl3.append(r.choice(GENO_COMBINE)(r.choice(lvl2), r.choice(lvl1 + lvl2)))
  if tier != 'thorough':
    lvl2 = r.sample(lvl2, 9)
  out = [('geno/point', s) for s in lvl1]
  out += [('geno/depth2', s) for s in lvl2] + [('geno/depth3', s) for s in lvl3]
  out += [('geno/from-hyper', s) for s in GENO_FROM_HYPER]
  good = []
  for label, s in out:
    try:
      ev(s)
      good.append((label, s))
    except Exception:  # duplicated names etc.: not a constructible spec.  pylint: disable=broad-except
      pass
  return good


def _spec_observations(spec):
  import random  # pylint: disable=g-import-not-at-top
  obs = dict(
      n=len(spec), is_space=spec.is_space,
      ids=[str(dp.id) for dp in spec.decision_points],
      names=sorted(spec.named_decision_points.keys()),
      size=outcome(lambda: spec.space_size),
      first=outcome(lambda: repr(spec.first_dna())),
      rand=outcome(lambda: repr(spec.random_dna(random.Random(1)))))

  def walk():
    out, d = [], spec.first_dna()
    while d is not None and len(out) < 4:
      out.append(repr(d))
      d = spec.next_dna(d)
    return out
  obs['walk'] = outcome(walk)
  return obs


def sample_dnas(spec, n, r):
  import random  # pylint: disable=g-import-not-at-top
  out = []
  try:
    d = spec.first_dna()
    while d is not None and len(out) < n:
      out.append(d)
      d = spec.next_dna(d)
  except Exception:  # float / custom points have no enumeration.  pylint: disable=broad-except
    pass
  for i in range(n):
    try:
      out.append(spec.random_dna(random.Random(r.randint(0, 10**6) + i)))
    except Exception:  # pylint: disable=broad-except
      break
  return out


def drv_geno_dna(tier, seed):
  rec = Recorder(
      'C05', 'pg.geno search-space specs, hyper values and DNA: JSON round trip',
      scope='19 decision points (every argument of floatv/oneof/manyof/custom) x 5 combinators to depth 3 '
            '(quick: 9 depth-2 + 8 depth-3 seeded; thorough: all depth-2 + 60 depth-3) + specs from '
            'pg.dna_spec(hyper values); hyper values; DNA: 35 hand-made shapes (leaf types, special floats, '
            'marker-like strings, nesting, root/child metadata, cloneable keys) + first-N/random DNAs of '
            'each spec; forms obj/str, compact and compact=False')
  r = rng(seed, 'c05-dna')
  specs = geno_universe(tier, seed)
  ndna = 3 if tier == 'thorough' else 2
  for n, (label, src) in enumerate(specs):
    spec_ok = True
    for form in ('obj', 'str'):
      ok, back = record_json(rec, label, src, form)
      spec_ok = spec_ok and ok
      if ok and (tier == 'thorough' or (form == 'str' and n % 3 == 0)):
        a, b = _spec_observations(ev(src)), _spec_observations(back)
        rec.case(f'{label}-behaviour', (src, form), a == b,
                 'observations differ: ' + repr({k: (a[k], b[k]) for k in a if a[k] != b[k]}),
                 f'{_header(src)}v = {src}\nr = pg.from_json_str(pg.to_json_str(v))\n'
                 f'from {_MOD} import _spec_observations as o\nassert o(v) == o(r), (o(v), o(r))\n')
    if not spec_ok or n % (2 if tier == 'thorough' else 3):
      continue
    spec = ev(src)
    spec2 = pg.from_json_str(pg.to_json_str(spec))
    for d in sample_dnas(spec, ndna, r):
      dsrc = dna_src(d)
      for form, kw in (('obj', None), ('str', None), ('str', dict(compact='False'))):
        ok, back = record_json(rec, 'dna/from-spec' + ('' if not kw else '/non-compact'),
                               dsrc, form, kw=kw, check_original=False)
        if ok:
          def bound(back=back, d=d):
            back.use_spec(spec2)
            d2 = ev(dsrc)
            d2.use_spec(spec)
            return diff_value(d2.to_numbers(), back.to_numbers()) or diff_value(
                [(str(k), repr(x)) for k, x in d2.to_dict(value_type='value').items()],
                [(str(k), repr(x)) for k, x in back.to_dict(value_type='value').items()])
          o = outcome(bound)
          rec.case('dna/from-spec-rebind-to-restored-spec', (src, dsrc, form),
                   o == ('ok', ''), f'{o}',
                   f'{_header(src)}spec = {src}\nd = {dsrc}\nd.use_spec(spec)\n'
                   'spec2 = pg.from_json_str(pg.to_json_str(spec))\n'
                   'd2 = pg.from_json_str(pg.to_json_str(d))\nd2.use_spec(spec2)\n'
                   'assert d2.to_numbers() == d.to_numbers()\n')
  for src in HYPER_VALUES:
    if not constructible(src):
      continue
    for form in ('obj', 'str'):
      record_json(rec, 'hyper', src, form)
  for label, src in DNA_SHAPES:
    if not constructible(src):
      continue
    for form, kw in (('obj', None), ('str', None), ('obj', dict(compact='False')),
                     ('str', dict(compact='False'))):
      cid = label if '/' in label else None
      ok, back = record_json(rec, f'dna/{label}' + ('' if not kw else '/non-compact'),
                             src, form, cid=cid, kw=kw)
      if ok:
        v = ev(src)
        d = diff_value(v, back, check_spec=True)
        rec.case('dna/children-list-keeps-its-value-spec', (src, form, repr(kw)), not d, d,
                 f'{_header(src)}v = {src}\nr = pg.from_json(pg.to_json(v))\n'
                 'assert r.children.value_spec == v.children.value_spec, r.children.value_spec\n')
        same_keys = (getattr(v, '_cloneable_metadata_keys', None) ==
                     getattr(back, '_cloneable_metadata_keys', None))
        same_clone = diff_value(v.clone(deep=True), back.clone(deep=True)) == ''
        rec.case('dna/cloneable-metadata-after-roundtrip', (src, form, repr(kw)),
                 same_keys and same_clone,
                 'clone() of the restored DNA keeps different metadata than clone() of the original',
                 f'{_header(src)}v = {src}\nr = pg.from_json(pg.to_json(v))\n'
                 'assert pg.eq(v.clone(deep=True).metadata, r.clone(deep=True).metadata)\n')
  return rec.result()


# -----------------------------------------------------------------------------
# File systems: read-your-writes over histories (reference model: a dict).
# -----------------------------------------------------------------------------

_RUN_IDS = itertools.count(1)
_UTF8 = (locale.getpreferredencoding(False) or '').lower().replace('-', '') == 'utf8'

_TEXTS = ["''", "'x'", (r"'hello world\nétc  \x00\x0b'" if _UTF8 else r"'hello world\n etc\x00\x0b'"),
          r"'y' * 3000 + '\n'"]
_APPENDS = ["'+'", r"'tail\n' * 3"]
_BYTES = ["b''", r"b'\x00'", r"b'a\r\nb\rc\n\xff\xfe'", r"b'\x01\x02' * 1500"]
_BAPPENDS = [r"b'\r'", r"b'\xff' * 9"]
_SAVE_VALUES = ['0', "'x' * 40", "{'a': [1, (2, 3)], 5: 'x', 'f': -0.0}",
                "C05Leaf([1.5, None, {'k': C05Pair.partial(right='v' * 90)}])"]

_LAYERS = {
    # layer: (write contents, append contents)
    'raw-text': (_TEXTS, _APPENDS),
    'raw-bytes': (_BYTES, _BAPPENDS),
    'save-json': (_SAVE_VALUES, []),
    'save-txt': (_TEXTS, []),
}

# Saves that are refused ({p}: the path): the value cannot be serialized (an
# opaque member that cannot be pickled / formatted, at the root or deep inside)
# or the format is unknown.  Nothing is saved, so the path keeps its last value.
_FAILED_SAVES = {
    'save-json': ['pg.save(C05Leaf(C05Unserializable()), {p})',
                  "C05Pair('v' * 200, right=[1, {{'k': C05Unserializable()}}]).save({p})",
                  "pg.save({{'a': 1, 'b': C05Unserializable()}}, {p}, indent=2)",
                  'pg.save(C05Unserializable(), {p}, hide_default_values=True)',
                  "pg.save({{'a': 1}}, {p}, file_format='yaml')"],
    'save-txt': ["pg.save(C05BadRepr(), {p}, file_format='txt')",
                 "pg.save(pg.Dict(a='x' * 50, b=C05BadRepr()), {p}, file_format='txt')",
                 "pg.save('text', {p}, file_format='text')"],
}


def _path_sets(fs, td, u):
  """-> {set name: ([path expr source], [path str])}; td is the std scratch dir."""
  if fs == 'mem':
    plain = [f'/mem/c05/{u}/a.json', f'/mem/c05/{u}/ab.json', f'/mem/c05/{u}/sub/a.json']
    pref = [f'/mem/m{u}.json', f'/mem/e{u}/a.json', f'/mem/{u}/a.json']
    return {'plain': ([repr(p) for p in plain], plain),
            'path-component-starting-with-prefix-char': ([repr(p) for p in pref], pref)}
  rel = [f'/{u}/a.json', f'/{u}/ab.json', f'/{u}/sub/a.json']
  odd = [f'/{u}/a b.json', f'/{u}/' + ('é.json' if _UTF8 else 'e_.json'), f'/{u}/.hidden']
  return {'plain': ([f'td + {p!r}' for p in rel], [td + p for p in rel]),
          'odd-names': ([f'td + {p!r}' for p in odd], [td + p for p in odd])}


class _FsHistory:
  """Runs one history against pg.io / pg.save and a dict model."""

  def __init__(self, fs, layer, set_name, exprs, paths, pathlike=False):
    self.fs, self.layer, self.set_name = fs, layer, set_name
    self.exprs, self.paths, self.pathlike = exprs, paths, pathlike
    self.model = {}          # path -> content (python value / str / bytes)
    self.sizes = {}          # path -> size of what was written last
    self.removed = set()
    self.lines = []
    self.handles = []        # [(path key, reader handle left open)]
    if fs == 'std':
      self.lines.append('import tempfile\ntd = tempfile.mkdtemp()')
    self.binary = layer == 'raw-bytes'

  def _p(self, i):
    return pathlib.PurePosixPath(self.paths[i]) if self.pathlike else self.paths[i]

  def _pe(self, i):
    return f'pathlib.PurePosixPath({self.exprs[i]})' if self.pathlike else self.exprs[i]

  def _size(self, content, indent=None):
    if self.layer == 'save-json':
      return len(pg.to_json_str(content, json_indent=indent))   # classification only.
    return len(content)

  def _peek(self, i, how):
    """Opens a reader on path i, uses it (`how`) and leaves it open."""
    p, pe, key = self._p(i), self._pe(i), self.paths[i]
    n = len(self.handles)
    mode = 'rb' if self.binary else 'r'
    self.lines.append(f'h{n} = pg.io.open({pe}, {mode!r})' + (f'\nh{n}{how}' if how else ''))
    h = pg.io.open(p, mode)
    self.handles.append((key, h))
    if how:
      eval('h' + how, {'h': h})  # pylint: disable=eval-used

  def _with_open_reader(self, cls, key):
    if any(k == key for k, _ in self.handles):
      cls = {'overwrite-shorter': 'overwrite', 'overwrite-longer': 'overwrite',
             'overwrite-same-length': 'overwrite', 'append-existing': 'append'}.get(cls, cls)
      return cls + '-while-reader-handle-open'
    return cls

  def close_handles(self):
    for n, (_, h) in enumerate(self.handles):
      self.lines.append(f'h{n}.close()')
      h.close()

  def apply(self, op):
    """Returns (case class, error-or-None) after applying op to fs + model."""
    kind, i, csrc = op[:3]
    how = op[3] if len(op) > 3 else None
    p, pe = self._p(i), self._pe(i)
    key = self.paths[i]
    cls = kind
    try:
      if how is not None and key in self.model:
        self._peek(i, how)
      if kind == 'read':
        return self._with_open_reader('read', key), None
      if kind == 'close-handles':
        self.close_handles()
        cls = ('close-reader-handles-after-later-writes' if self.handles else 'read')
        self.handles = []
        return cls, None
      cls, err = self._apply(kind, i, csrc, p, pe, key)
      return self._with_open_reader(cls, key), err
    except Exception as e:  # pylint: disable=broad-except
      return self._with_open_reader(cls, key), f'{kind} raised {type(e).__name__}: {e}'

  def _apply(self, kind, i, csrc, p, pe, key):
    try:
      if kind == 'failed-save':
        cls = 'failed-save-over-existing' if key in self.model else 'failed-save-on-path-holding-nothing'
        stmt = csrc.format(p=pe)
        self.lines.append(f'try:\n  {stmt}\n  refused = False\nexcept Exception:\n  refused = True\n'
                          'assert refused, "saving a value that cannot be serialized succeeded"')
        try:
          exec(csrc.format(p='p'), dict(_ENV, p=p))  # pylint: disable=exec-used
        except Exception:  # the save is refused: the model does not change.  pylint: disable=broad-except
          return cls, None
        return cls, 'saving a value that cannot be serialized did not raise'
      if kind in ('write', 'append'):
        content = ev(csrc)
        if kind == 'append':
          cls = 'append-existing' if key in self.model else 'append-new-file'
        elif key not in self.model:
          cls = 'write-after-rm' if key in self.removed else 'first-write'
        kw = ', indent=2' if (self.layer == 'save-json' and len(self.lines) % 2) else ''
        new_size = self._size(content, 2 if kw else None)
        if kind == 'write' and key in self.model:
          a, b = self.sizes[key], new_size
          cls = ('overwrite-shorter' if b < a else
                 'overwrite-longer' if b > a else 'overwrite-same-length')
        if self.layer == 'save-json':
          self.lines.append(f'pg.save({csrc}, {pe}{kw})')
          pg.save(content, p, **(dict(indent=2) if kw else {}))
        elif self.layer == 'save-txt':
          self.lines.append(f"pg.save({csrc}, {pe}, file_format='txt')")
          pg.save(content, p, file_format='txt')
        else:
          mode = ('a' if kind == 'append' else 'w') + ('b' if self.binary else '')
          self.lines.append(f'pg.io.mkdirs(os.path.dirname({pe}))')
          self.lines.append(f'pg.io.writefile({pe}, {csrc}, mode={mode!r})')
          pg.io.mkdirs(os.path.dirname(p))
          pg.io.writefile(p, content, mode=mode)
        if kind == 'append':
          empty = b'' if self.binary else ''
          self.model[key] = self.model.get(key, empty) + content
          self.sizes[key] = len(self.model[key])
        else:
          self.model[key] = content
          self.sizes[key] = new_size
        return cls, None
      else:
        cls = 'rm'
        self.lines.append(f'pg.io.rm({pe})' if key in self.model else
                          f'try:\n  pg.io.rm({pe})\n  raise AssertionError("rm of a missing file succeeded")\n'
                          'except FileNotFoundError:\n  pass')
        try:
          pg.io.rm(p)
          if key not in self.model:
            return 'rm-missing', 'rm of a missing file did not raise FileNotFoundError'
        except FileNotFoundError:
          if key in self.model:
            raise
        if key in self.model:
          del self.model[key]
          self.removed.add(key)
        return cls, None
    except Exception as e:  # pylint: disable=broad-except
      return cls, f'{kind} raised {type(e).__name__}: {e}'

  def check(self, i):
    """Returns error-or-None, witness line(s) for path i."""
    p, pe, key = self._p(i), self._pe(i), self.paths[i]
    want_exists = key in self.model
    try:
      if pg.io.path_exists(p) != want_exists:
        return (f'path_exists({key}) is {not want_exists}',
                f'assert pg.io.path_exists({pe}) is {want_exists}')
      if not want_exists:
        got = pg.io.readfile(p, mode='rb' if self.binary else 'r', nonexist_ok=True)
        if got is not None:
          return (f'removed/never written {key} reads {got!r:.60}',
                  f'assert pg.io.readfile({pe}, nonexist_ok=True) is None')
        return None, ''
      want = self.model[key]
      if self.layer == 'save-json':
        wl = (f'from {_MOD} import assert_same\n'
              f'assert_same({self._last_src[key]}, pg.load({pe}))')
        got = pg.load(p)
        d = diff_value(want, got)
        if not d and type(got) is not expected_type(want):
          d = f'type {type(got).__name__}'
        return (f'load({key}): {d}' if d else None), wl
      if self.layer == 'save-txt':
        got = pg.load(p, file_format='txt')
        wl = f"assert pg.load({pe}, file_format='txt') == {self._last_src[key]}"
      else:
        mode = 'rb' if self.binary else 'r'
        got = pg.io.readfile(p, mode=mode)
        wl = f'assert pg.io.readfile({pe}, mode={mode!r}) == {self._last_src[key]}'
      if got != want or type(got) is not type(want):
        return f'{key} reads {got!r:.80} (len {len(got)}), want {want!r:.80} (len {len(want)})', wl
      return None, ''
    except Exception as e:  # pylint: disable=broad-except
      return f'reading {key} raised {type(e).__name__}: {e}', (
          f'pg.load({pe})' if self.layer == 'save-json' else f'pg.io.readfile({pe})')

  _last_src = None

  def run(self, rec, ops, key):
    self._last_src = {}
    # one id per (file system, input class): the layer goes into the message.
    fam = f'fs.{self.fs}'
    tag = f'[{self.layer}{", os.PathLike" if self.pathlike else ""}] '
    for step, op in enumerate(ops):
      kind, i, csrc = op[:3]
      k = self.paths[i]
      if kind == 'write':
        self._last_src[k] = csrc
      elif kind == 'append':
        self._last_src[k] = (f'({self._last_src[k]}) + ({csrc})' if k in self.model
                             else csrc)
      cls, err = self.apply(op)
      bad = None
      if err:
        bad = (cls, err, '')
      else:
        for q in range(len(self.paths)):
          e, wl = self.check(q)
          if e:
            bad = (cls if q == i else 'other-path-untouched-by-last-op', e, wl)
            break
      cls_id = bad[0] if bad else cls
      if (self.set_name != 'plain' and self.fs == 'mem'
          and cls_id not in ('append-new-file', 'append-existing', 'overwrite-shorter')
          and not cls_id.startswith('failed-save')):
        # these paths alias / hide each other: their own input class.
        cls_id = self.set_name
      header = 'import os, pathlib\nimport pyglove as pg\n'
      if 'C05' in ''.join(self.lines):
        header += f'from {_MOD} import *\n'
      rec.case(f'{fam}/{cls_id}', (key, step), bad is None, tag + bad[1] if bad else '',
               header + '\n'.join(self.lines) + '\n' + (bad[2] if bad else ''))
      if bad:
        return False
    return True

  def cleanup(self):
    for _, h in self.handles:
      try:
        h.close()
      except Exception:  # pylint: disable=broad-except
        pass
    self.handles = []
    for k in list(self.model):
      try:
        pg.io.rm(k)
      except Exception:  # pylint: disable=broad-except
        pass


# what is done with a reader handle before it is left open.
_HOWS = ['', '.read()', '.read(1)', '.readline()', '.seek(0, 2)', '.seek(1)']


def _fs_handle_histories(layer, tier, r, n_rand):
  """Histories in which reader handles on a path stay open while the path is
  re-read / overwritten / appended to / removed, and are closed late."""
  writes, appends = _LAYERS[layer]
  setups = writes[1:] if tier == 'thorough' else [writes[1], writes[3]]
  seconds = ([('write', 0, c) for c in writes] + [('append', 0, c) for c in appends]
             + [('rm', 0, None), ('read', 0, None)]
             + [('failed-save', 0, f) for f in _FAILED_SAVES.get(layer, [])[:2]])
  out = []
  for c in setups:
    for how in _HOWS:
      for op2 in seconds:
        out.append((('write', 0, c), op2 + (how,), ('close-handles', 0, None)))
  base = _fs_ops(layer) + [('read', i, None) for i in range(3)]
  for _ in range(n_rand):
    h = [('write', r.randrange(2), r.choice(writes))]
    for _ in range(r.randint(2, 5)):
      op = r.choice(base)
      x = r.random()
      if x < 0.5:
        op = op + (r.choice(_HOWS),)
      elif x < 0.6:
        op = ('close-handles', 0, None)
      h.append(op)
    out.append(tuple(h))
  return out


def _fs_ops(layer, npaths=3):
  writes, appends = _LAYERS[layer]
  fails = _FAILED_SAVES.get(layer, [])
  ops = []
  for i in range(npaths):
    ops += [('write', i, c) for c in writes]
    ops += [('append', i, c) for c in appends]
    ops.append(('rm', i, None))
    if fails:     # one refused save per path (all of them: _fs_failed_save_histories).
      ops.append(('failed-save', i, fails[i % len(fails)]))
  return ops


def _fs_failed_save_histories(layer, tier):
  """Every refused save after every state of the path (never written, each
  content, removed, already refused once), followed by what may come next."""
  writes, _ = _LAYERS[layer]
  out = []
  for f in _FAILED_SAVES.get(layer, []):
    bad = ('failed-save', 0, f)
    out.append((bad,))
    out.append((bad, ('write', 0, writes[1])))
    out.append((('write', 1, writes[1]), bad, ('failed-save', 1, f), ('write', 0, writes[2])))
    for c in writes:
      out.append((('write', 0, c), bad))
      out.append((('write', 0, c), ('rm', 0, None), bad))
    for c in (writes if tier == 'thorough' else writes[1:3]):
      out.append((('write', 0, writes[3]), ('write', 0, c), bad, bad, ('write', 0, writes[1]), bad))
      out.append((('write', 0, c), bad, ('rm', 0, None)))
  return out


def drv_file_systems(tier, seed):
  rec = Recorder(
      'C05', 'pg.save/pg.load and pg.io.writefile/readfile: read-your-writes on both file systems',
      scope='file systems std (tempfile dir) and /mem/; 3 paths per history (name that is a prefix of '
            'another, same name in a sub dir; odd names; /mem paths whose first component starts with '
            'one of the characters of the prefix); layers raw-text (w/a), raw-bytes (wb/ab), pg.save json '
            '(4 values of different size, indent on/off) and txt; ops write x4 contents, append x2, rm, per '
            'path; ALL histories of length <= 2 (thorough: <= 3) + seeded histories of length 3..5; every path '
            'is re-read and path_exists checked after every step; history stops at its first failure; plus '
            'relative path, os.PathLike paths and text<->bytes overwrite corner cases. reader handles left open: '
            'write c; [open a reader, nothing|read()|read(1)|readline()|seek(end)|seek(1), keep it open] + '
            're-read | overwrite x4 | append x2 | rm; close the handles late (all layers; quick: 2 of 3 '
            'initial contents) + seeded histories mixing these over 3 paths. refused saves (pg.save / '
            'v.save of a value with an unserializable / unformattable opaque member at the root or deep inside, '
            'with indent / hide_default_values, unknown file_format): one per path among the ops of all '
            'histories above + each of the 8 after every state of the path (never written, each content, removed, '
            'refused before) and followed by write / rm / another refusal: the path keeps the last value saved. '
            'Not covered: failing pg.io.writefile (python open(..., "w") semantics), "\\r" in '
            'text mode on the std fs (python newline translation), writer handles left open')
  td = tempfile.mkdtemp(prefix='c05fs')
  r = rng(seed, 'c05-fs')
  counter = [0]
  _RUN = next(_RUN_IDS)     # /mem/ is process-global state: never reuse a path.

  def new_hist(fs, layer, set_name, pathlike=False):
    counter[0] += 1
    u = f'c{_RUN}x{counter[0]}'
    exprs, paths = _path_sets(fs, td, u)[set_name]
    return _FsHistory(fs, layer, set_name, exprs, paths, pathlike)

  try:
    max_len = 3 if tier == 'thorough' else 2
    n_rand = 400 if tier == 'thorough' else 40
    for fs in ('mem', 'std'):
      for set_name in _path_sets(fs, td, 'x'):
        for layer in _LAYERS:
          ops = _fs_ops(layer)
          exhaustive = (layer in ('raw-text', 'save-json') and set_name == 'plain')
          hists = []
          for n in range(1, (max_len if exhaustive else max_len - 1) + 1):
            hists += list(itertools.product(ops, repeat=n))
          if not exhaustive and tier != 'thorough':
            hists = r.sample(hists, min(len(hists), 150))
          for _ in range(n_rand):
            hists.append(tuple(r.choice(ops) for _ in range(r.randint(3, 5))))
          for h in hists:
            hist = new_hist(fs, layer, set_name)
            hist.run(rec, h, (fs, set_name, layer, tuple((k, i, c) for k, i, c in h)))
            hist.cleanup()
      # saves that are refused.
      for layer in _FAILED_SAVES:
        for set_name in _path_sets(fs, td, 'x'):
          for h in _fs_failed_save_histories(layer, tier):
            hist = new_hist(fs, layer, set_name)
            hist.run(rec, h, (fs, set_name, 'failed-saves', layer, h))
            hist.cleanup()
      # reader handles left open.
      for layer in _LAYERS:
        for h in _fs_handle_histories(layer, tier, r, n_rand):
          hist = new_hist(fs, layer, 'plain')
          hist.run(rec, h, (fs, 'handles', layer, h))
          hist.cleanup()
      # os.PathLike paths.
      for layer in ('save-json', 'raw-text'):
        ops = _fs_ops(layer)
        for _ in range(n_rand):
          h = tuple(r.choice(ops) for _ in range(r.randint(1, 4)))
          hist = new_hist(fs, layer, 'plain', pathlike=True)
          hist.run(rec, h, (fs, 'pathlike', layer, h))
          hist.cleanup()
      # changing between text and bytes content on the same path.
      counter[0] += 1
      exprs, paths = _path_sets(fs, td, f'c{_RUN}x{counter[0]}')['plain']
      pe, p = exprs[0], paths[0]
      head = 'import os, tempfile\nimport pyglove as pg\ntd = tempfile.mkdtemp()\n'
      for first, second, cls in (
          (("'text'", 'w', 'r'), (r"b'\x00bytes'", 'wb', 'rb'), 'overwrite-switching-text-and-bytes'),
          ((r"b'\x00bytes'", 'wb', 'rb'), ("'txt'", 'w', 'r'), 'overwrite-switching-text-and-bytes')):
        def go(first=first, second=second):
          pg.io.mkdirs(os.path.dirname(p))
          pg.io.writefile(p, ev(first[0]), mode=first[1])
          pg.io.writefile(p, ev(second[0]), mode=second[1])
          return pg.io.readfile(p, mode=second[2])
        o = outcome(go)
        rec.case(f'fs.{fs}/{cls}', (fs, cls, first[1]), o == ('ok', ev(second[0])), f'{o}',
                 f'{head}p = {pe}\npg.io.mkdirs(os.path.dirname(p))\n'
                 f'pg.io.writefile(p, {first[0]}, mode={first[1]!r})\n'
                 f'pg.io.writefile(p, {second[0]}, mode={second[1]!r})\n'
                 f'assert pg.io.readfile(p, mode={second[2]!r}) == {second[0]}\n')
        try:
          pg.io.rm(p)
        except Exception:  # pylint: disable=broad-except
          pass
    # a bare file name (relative path, no directory part) on the std fs.
    cwd = os.getcwd()
    os.chdir(td)
    try:
      def rel():
        pg.save({'a': 1}, 'c05_relative.json')
        return pg.load('c05_relative.json')
      o = outcome(rel)
      rec.case('fs.std/pg.save-relative-path-without-directory', ('c05_relative.json',),
               o[0] == 'ok' and diff_value({'a': 1}, o[1]) == '', f'{o}',
               'import os, tempfile\nimport pyglove as pg\nos.chdir(tempfile.mkdtemp())\n'
               "pg.save({'a': 1}, 'my_file.json')\nassert pg.load('my_file.json') == {'a': 1}\n")

      def rel_raw():
        pg.io.writefile('c05_relative.txt', 'abc')
        return pg.io.readfile('c05_relative.txt')
      o = outcome(rel_raw)
      rec.case('fs.std/writefile-relative-path-without-directory', ('c05_relative.txt',),
               o == ('ok', 'abc'), f'{o}',
               'import os, tempfile\nimport pyglove as pg\nos.chdir(tempfile.mkdtemp())\n'
               "pg.io.writefile('f.txt', 'abc')\nassert pg.io.readfile('f.txt') == 'abc'\n")
    finally:
      os.chdir(cwd)
  finally:
    shutil.rmtree(td, ignore_errors=True)
  return rec.result()


# -----------------------------------------------------------------------------
# Record sequences (pg.io.open_sequence / pg.open_jsonl).
# -----------------------------------------------------------------------------

_RAW_LISTS = [[], ["'a'"], ["''", "'b b'"],
              ["'x' * 50", "''", r"'\x0b\x0c\x1c \x85 z'" if _UTF8 else r"'\x0b\x0c\x1c z'"],
              ["'a'", "'a'", "'a'"]]
_RAW_LISTS_MEM = _RAW_LISTS[:3] + [["'multi\\nline\\n'", r"b'\x00\n\xff'", "''"], _RAW_LISTS[4]]
_JSON_LISTS = [[], ['1'], [r"'x\ny'", "{'a': (1, 2), 5: None}"],
               ["float('nan')", '-0.0', 'C05Leaf([1])', "''"],
               [r"'\r\n \x85'", '[1, [2, [3]]]', 'None', "'n_:5'", '2**70']]


# a 6th record list, with a record whose add is refused ('!': expected to raise)
# between two good ones: what was added before and after it is still there.
_RAW_LISTS = _RAW_LISTS + [["'before'", '!5', "'after'"]]
_RAW_LISTS_MEM = _RAW_LISTS_MEM + [_RAW_LISTS[5]]
_JSON_LISTS = _JSON_LISTS + [["{'a': 1}", "!{'k': [C05Unserializable()]}", "'after'"]]
_REFUSED_LIST = 5


class _SeqHistory:

  def __init__(self, kind, ser, exprs, paths):
    self.kind, self.ser, self.exprs, self.paths = kind, ser, exprs, paths
    self.model, self.sizes = {}, {}
    self.handles = []     # [(path key, reader left open, its iterator)]
    self.lines = ['import tempfile\ntd = tempfile.mkdtemp()'] if any('td' in e for e in exprs) else []
    self.lists = (_JSON_LISTS if ser == 'jsonl' else
                  _RAW_LISTS_MEM if kind == 'mem-sequence' else _RAW_LISTS)

  def _osrc(self, i, mode):
    fn = 'pg.open_jsonl' if self.ser == 'jsonl' else 'pg.io.open_sequence'
    return f'{fn}({self.exprs[i]}, {mode!r})'

  def _open(self, i, mode):
    if self.ser == 'jsonl':
      return pg.open_jsonl(self.paths[i], mode), self._osrc(i, mode)
    return pg.io.open_sequence(self.paths[i], mode), self._osrc(i, mode)

  def _size(self, recs):
    if self.ser == 'jsonl':
      return sum(len(pg.to_json_str(x)) + 1 for x in recs)   # classification only.
    return sum(len(x) + 1 for x in recs)

  def _peek(self, i, count):
    """Opens a reader on path i, takes `count` records and leaves it open."""
    n = len(self.handles)
    f, osrc = self._open(i, 'r')
    it = iter(f)
    self.lines.append(f'r{n} = {osrc}\nit{n} = iter(r{n})')
    self.handles.append((self.paths[i], f, it))
    taken = 0
    while count == 'all' or taken < count:
      try:
        next(it)
      except StopIteration:
        break
      taken += 1
    self.lines.append(f'for _ in range({taken}):\n  next(it{n})')

  def close_handles(self):
    for n, (_, f, _) in enumerate(self.handles):
      self.lines.append(f'r{n}.close()')
      f.close()
    self.handles = []

  def _with_open_reader(self, cls, key):
    if any(k == key for k, _, _ in self.handles):
      cls = {'rewrite-with-less-data': 'rewrite', 'rewrite-with-more-or-equal-data': 'rewrite',
             'append-to-existing': 'append'}.get(cls, cls)
      return cls + '-while-reader-open'
    return cls

  def session(self, mode, i, li, peek=None):
    key = self.paths[i]
    if mode == 'close':
      cls = 'close-readers-after-later-sessions' if self.handles else 'read'
      try:
        self.close_handles()
      except Exception as e:  # pylint: disable=broad-except
        return cls, f'closing raised {type(e).__name__}: {e}'
      return cls, None
    if peek is not None and key in self.model:
      try:
        self._peek(i, peek)
      except Exception as e:  # pylint: disable=broad-except
        return 'read', f'reading raised {type(e).__name__}: {e}'
    if mode == 'r':
      return self._with_open_reader('read', key), None
    cls, err = self._session(mode, i, li, key)
    return self._with_open_reader(cls, key), err

  def _session(self, mode, i, li, key):
    refused = [s.startswith('!') for s in self.lists[li]]
    srcs = [s.lstrip('!') for s in self.lists[li]]
    every = [ev(s) for s in srcs]
    recs = [x for x, b in zip(every, refused) if not b]
    if any(refused):
      cls = 'session-with-a-refused-add'
    elif mode == 'a':
      cls = 'append-to-existing' if key in self.model else 'append-to-new'
    elif key not in self.model:
      cls = 'write-new'
    else:
      cls = ('rewrite-with-less-data' if self._size(recs) < self.sizes[key]
             else 'rewrite-with-more-or-equal-data')
    self.lines.append(
        f'with {self._osrc(i, mode)} as f:\n'
        + ''.join((f'  try:\n    f.add({s})\n    raise AssertionError("add of a bad record succeeded")\n'
                   '  except (ValueError, TypeError):\n    pass\n') if b else f'  f.add({s})\n'
                  for s, b in zip(srcs, refused)) + '  pass')
    try:
      f, _ = self._open(i, mode)
      with f:
        for x, b in zip(every, refused):
          if not b:
            f.add(x)
            continue
          try:
            f.add(x)
          except Exception:  # refused: not a record of the sequence.  pylint: disable=broad-except
            continue
          return cls, 'adding a record that cannot be serialized did not raise'
    except Exception as e:  # pylint: disable=broad-except
      return cls, f'writing raised {type(e).__name__}: {e}'
    srcs = [s for s, b in zip(srcs, refused) if not b]
    if mode == 'a':
      self.model[key] = self.model.get(key, []) + recs
      self.sizes[key] = self.sizes.get(key, 0) + self._size(recs)
    else:
      self.model[key] = recs
      self.sizes[key] = self._size(recs)
    self._srcs = getattr(self, '_srcs', {})
    self._srcs[key] = (self._srcs.get(key, []) if mode == 'a' else []) + list(srcs)
    return cls, None

  def check(self, i):
    key = self.paths[i]
    if key not in self.model:
      return None, ''
    want = self.model[key]
    f, osrc = None, ''
    try:
      f, osrc = self._open(i, 'r')
      wl = (f'with {osrc} as f:\n  got = list(iter(f))\n'
            f'from {_MOD} import assert_same\n'
            f'assert_same([{", ".join(self._srcs[key])}], got)')
      with f:
        got = list(iter(f))
        n = len(f) if self.kind == 'mem-sequence' else len(got)
    except Exception as e:  # pylint: disable=broad-except
      return f'reading {key} raised {type(e).__name__}: {e}', f'with {osrc} as f:\n  list(iter(f))'
    d = diff_value(want, got)
    if not d and n != len(want):
      d = f'len() is {n}, want {len(want)}'
    return (f'{key}: {d}; got {got!r:.120}' if d else None), wl

  def case_id(self, cls):
    if self.kind == 'line-mem' and cls.endswith('-while-reader-open'):
      # a line sequence on /mem/ is a /mem/ file: same input class (and id) as
      # in drv_file_systems.
      op = cls[:-len('-while-reader-open')]
      return f"fs.mem/{'overwrite' if op == 'rewrite' else op}-while-reader-handle-open"
    return f'seq.{self.kind}/{cls}'

  def run(self, rec, hist, key):
    try:
      return self._run(rec, hist, key)
    finally:
      try:
        self.close_handles()
      except Exception:  # pylint: disable=broad-except
        pass

  def _run(self, rec, hist, key):
    for step, sess in enumerate(hist):
      mode, i, li = sess[:3]
      cls, err = self.session(mode, i, li, sess[3] if len(sess) > 3 else None)
      bad = None
      if err:
        bad = (cls, err, '')
      else:
        for q in range(len(self.paths)):
          e, wl = self.check(q)
          if e:
            bad = (cls if q == i else 'other-path-untouched-by-last-session', e, wl)
            break
      header = 'import pathlib\nimport pyglove as pg\n'
      if 'C05' in ''.join(self.lines):
        header += f'from {_MOD} import *\n'
      rec.case(self.case_id(bad[0] if bad else cls), (key, step), bad is None,
               f'[{self.ser}] {bad[1]}' if bad else '',
               header + '\n'.join(self.lines) + '\n' + (bad[2] if bad else ''))
      if bad:
        return False
    return True


def drv_sequences(tier, seed):
  rec = Recorder(
      'C05', 'record sequences: what was added is what is iterated, in order',
      scope='kinds: in-memory sequence (*.mem), line sequence on std fs, line sequence on /mem/; '
            'raw str records and pg.open_jsonl values (newlines, unicode line separators, nan, int keys, '
            'tuples, objects); sessions (w|a) x 2 paths x 5 record lists; ALL histories of <= 2 sessions '
            '(thorough: <= 3) + seeded longer ones; both paths re-read after every session; readers left open '
            '(0 / 1 / all records taken) while the path is re-read, rewritten (5 lists) or appended to '
            '(5 lists), closed afterwards, + seeded histories mixing these; sessions (w|a) in which one add is '
            'refused (non-str raw record / value that cannot be serialized) between two good adds, after every '
            'earlier content: the records added before and after it are kept. Raw records of '
            'line sequences exclude "\\n" / "\\r" (the format is line based)')
  td = tempfile.mkdtemp(prefix='c05seq')
  r = rng(seed, 'c05-seq')
  cnt = [0]

  _RUN = next(_RUN_IDS)     # /mem/ and *.mem are process-global state.

  def paths_for(kind):
    cnt[0] += 1
    u = f'c{_RUN}x{cnt[0]}'
    if kind == 'mem-sequence':
      rel = [f'/{u}/s.mem', f'/{u}/s2.mem@3']
      return [f'td + {p!r}' for p in rel], [td + p for p in rel]
    if kind == 'line-std':
      rel = [f'/{u}/s.jsonl', f'/{u}/s.jsonl.txt']
      return [f'td + {p!r}' for p in rel], [td + p for p in rel]
    ps = [f'/mem/c05s/{u}/s.jsonl', f'/mem/c05s/{u}/t.jsonl']
    return [repr(p) for p in ps], ps

  try:
    max_len = 3 if tier == 'thorough' else 2
    n_rand = 300 if tier == 'thorough' else 30
    ops = [(m, i, li) for m in ('w', 'a') for i in (0, 1) for li in range(5)]
    for kind in ('mem-sequence', 'line-std', 'line-mem'):
      for ser in ('raw', 'jsonl'):
        hists = []
        for n in range(1, max_len + 1):
          hists += list(itertools.product(ops, repeat=n))
        for _ in range(n_rand):
          hists.append(tuple(r.choice(ops) for _ in range(r.randint(3, 5))))
        # readers that are left open (partly / fully iterated) while the same
        # path is re-read, rewritten or appended to; closed late.
        for li in ((1, 2, 3, 4) if tier == 'thorough' else (1, 3)):
          for peek in (0, 1, 'all'):
            for second in ([('w', 0, x) for x in range(5)] + [('a', 0, x) for x in range(5)]
                           + [('r', 0, 0)]):
              hists.append((('w', 0, li), second + (peek,), ('close', 0, 0)))
        # sessions in which one add is refused, after every earlier content.
        bad = _REFUSED_LIST
        hists += [(('a', 0, bad),), (('w', 0, bad), ('a', 0, 1)), (('w', 0, 2), ('a', 0, bad), ('a', 0, bad)),
                  (('w', 0, 3), ('w', 1, bad), ('a', 0, bad), ('w', 0, bad))]
        for li in range(5):
          hists += [(('w', 0, li), ('a', 0, bad)), (('w', 0, li), ('w', 0, bad)),
                    (('w', 0, 1), ('a', 0, li), ('a', 0, bad), ('a', 0, li))]
        for _ in range(n_rand):
          h = [('w', r.randrange(2), r.randrange(1, 5))]
          for _ in range(r.randint(2, 4)):
            x = r.random()
            sess = r.choice(ops) if x < 0.8 else ('r', r.randrange(2), 0)
            if x < 0.1:
              sess = ('close', 0, 0)
            elif r.random() < 0.5:
              sess = sess + (r.choice((0, 1, 'all')),)
            h.append(sess)
          hists.append(tuple(h))
        for h in hists:
          exprs, paths = paths_for(kind)
          _SeqHistory(kind, ser, exprs, paths).run(rec, h, (kind, ser, h))
    # The key of an in-memory sequence is the path, however it is spelled.
    p = td + '/pl/q.mem'

    def pathlike():
      with pg.io.open_sequence(pathlib.Path(p), 'w') as f:
        f.add('r')
      with pg.io.open_sequence(p, 'r') as f:
        return list(iter(f))
    o = outcome(pathlike)
    rec.case('seq.mem-sequence/written-via-os.PathLike-read-via-str', (p,), o == ('ok', ['r']), f'{o}',
             'import pathlib, tempfile\nimport pyglove as pg\np = tempfile.mkdtemp() + "/q.mem"\n'
             "with pg.io.open_sequence(pathlib.Path(p), 'w') as f:\n  f.add('r')\n"
             "with pg.io.open_sequence(p, 'r') as f:\n  assert list(iter(f)) == ['r']\n")
    # a bare name (no directory part).
    cwd = os.getcwd()
    os.chdir(td)
    try:
      for name in ('c05bare.mem', 'c05bare.jsonl'):
        def bare(name=name):
          with pg.open_jsonl(name, 'w') as f:
            f.add({'a': 1})
          with pg.open_jsonl(name, 'r') as f:
            return list(iter(f))
        o = outcome(bare)
        rec.case('seq/relative-path-without-directory', (name,),
                 o[0] == 'ok' and diff_value([{'a': 1}], o[1]) == '', f'{o}',
                 'import os, tempfile\nimport pyglove as pg\nos.chdir(tempfile.mkdtemp())\n'
                 f"with pg.open_jsonl({name!r}, 'w') as f:\n  f.add(1)\n"
                 f"with pg.open_jsonl({name!r}, 'r') as f:\n  assert list(iter(f)) == [1]\n")
    finally:
      os.chdir(cwd)
  finally:
    shutil.rmtree(td, ignore_errors=True)
  return rec.result()


# -----------------------------------------------------------------------------
# pickle and copy.deepcopy.
# -----------------------------------------------------------------------------

_COPY_METHODS = {
    'deepcopy': 'r = copy.deepcopy(v)',
    'pickle': 'r = pickle.loads(pickle.dumps(v))',
    'pickle-protocol-2': 'r = pickle.loads(pickle.dumps(v, protocol=2))',
    'pickle-protocol-5': 'r = pickle.loads(pickle.dumps(v, protocol=5))',
}

FLAGGED = [
    'pg.Dict(a=1, sealed=True)', 'pg.List([1], sealed=True)',
    'pg.Dict(a=C05Leaf.partial(), allow_partial=True)',
    'pg.List([C05Leaf.partial()], allow_partial=True)',
    'pg.List([1], accessor_writable=False)', 'pg.Dict(a=[1], accessor_writable=False)',
    'C05Leaf(1, sealed=True)', 'C05Typed.partial(l=[1])', 'C05Leaf([pg.Dict(a=1)], sealed=True)',
    "pg.List([1, 2], value_spec=pg.typing.List(pg.typing.Int(), max_size=3))",
    "pg.Dict(p=2, value_spec=pg.typing.Dict([('p', pg.typing.Int(default=1)), ('q', pg.typing.Str().noneable())]))",
    "pg.Dict(x=pg.List([1], value_spec=pg.typing.List(pg.typing.Int())))",
]


def _mutable_ids(v, acc=None):
  acc = set() if acc is None else acc
  if isinstance(v, pg.Symbolic):
    acc.add(id(v))
    for _, c in v.sym_items():
      _mutable_ids(c, acc)
  elif isinstance(v, (list, tuple)):
    if isinstance(v, list):
      acc.add(id(v))
    for c in v:
      _mutable_ids(c, acc)
  elif isinstance(v, dict):
    acc.add(id(v))
    for c in v.values():
      _mutable_ids(c, acc)
  elif isinstance(v, (set, bytearray)):
    acc.add(id(v))
  return acc


def _flags(v):
  out = []
  for i, n in enumerate(sym_nodes(v)):
    out.append((type(n).__name__, i, n.allow_partial,
                getattr(n, 'accessor_writable', None)))
  return out


def _sealed(v):
  return [(type(n).__name__, i, n.sym_sealed) for i, n in enumerate(sym_nodes(v))]


def copy_check(src, method):
  """-> (ok, kind, message, witness)."""
  code = _COPY_METHODS[method]
  base = f'import copy, pickle\n{_header(src)}v = {src}\n{code}\n'
  helper = f'from {_MOD} import *\n'
  v, fresh = ev(src), ev(src)
  env = dict(_ENV, v=v, copy=copy, pickle=pickle)
  try:
    exec(code, env)  # pylint: disable=exec-used
  except Exception as e:  # pylint: disable=broad-except
    return False, 'exc', f'{type(e).__name__}: {e}', base
  r = env['r']
  deep = method == 'deepcopy'
  # value specs of stand-alone typed containers are not part of the pickled /
  # JSON state (only schema-derived ones are re-established): see FLAGGED.
  check_spec = deep or 'value_spec=' not in src
  d = diff_value(v, r, check_spec=check_spec)
  if not d and deep and isinstance(v, (pg.List, pg.Dict)) and v.value_spec != r.value_spec:
    d = f'root value_spec {v.value_spec!r} -> {r.value_spec!r}'
  if d:
    return False, 'value', d, base + helper + f'assert_same(v, r, check_spec={check_spec})\n' + (
        'assert getattr(v, "value_spec", None) == getattr(r, "value_spec", None)\n' if deep else '')
  if type(r) is not type(v):
    return (False, 'type', f'type {type(v).__name__} -> {type(r).__name__}',
            base + 'assert type(r) is type(v), type(r)\n')
  f = features(v)
  if 'nan' not in f and 'code-function' not in f:
    if not outcome(pg.eq, v, r) == ('ok', True):
      return False, 'eq', 'pg.eq(v, r) is not True', base + 'assert pg.eq(v, r)\n'
    hv = outcome(pg.hash, v)
    if hv[0] == 'ok' and outcome(pg.hash, r) != hv:
      return False, 'hash', 'pg.hash differs', base + 'assert pg.hash(v) == pg.hash(r)\n'
  te = tree_errors(r)
  if te:
    return False, 'tree', '; '.join(te[:3]), base + helper + 'assert_wellformed(r)\n'
  if _mutable_ids(v) & _mutable_ids(r):
    return (False, 'aliasing', 'copy shares a mutable node with the original',
            base + helper + 'assert not (_mutable_ids(v) & _mutable_ids(r))\n')
  if _flags(v) != _flags(r):
    return (False, 'flags', f'allow_partial/accessor_writable {_flags(v)} -> {_flags(r)}',
            base + helper + 'assert _flags(v) == _flags(r), (_flags(v), _flags(r))\n')
  if not deep and _sealed(v) != _sealed(r):
    return (False, 'sealed', f'sealed {_sealed(v)} -> {_sealed(r)}',
            base + helper + 'assert _sealed(v) == _sealed(r), (_sealed(v), _sealed(r))\n')
  d = diff_value(fresh, v)
  if d:
    return (False, 'original-mutated', d, base + helper + f'assert_same({src}, v)\n')
  if isinstance(v, (pg.typing.ValueSpec, pg.typing.Field, pg.typing.Schema, pg.typing.KeySpec)):
    d = _spec_behaviour_diff(v, r, (False,))
    if d:
      return False, 'spec-behaviour', d, base + helper + 'assert_same_spec(v, r)\n'
  return True, '', '', base


def drv_pickle_deepcopy(tier, seed):
  rec = Recorder(
      'C05', 'pickle and copy.deepcopy reproduce the value',
      scope='value universe (all leaves and depth-1 shapes, keys, tuple corner list, seeded deeper values), '
            'typed objects, flagged containers (sealed / partial / accessor_writable / value_spec), partial objects '
            'below every container shape and schema-backed tuple/list/dict field, value specs, '
            'key specs, schemas, geno specs, DNAs; methods deepcopy, pickle default (+ protocols 2 and 5 in '
            'thorough); oracle: structural equality, exact type, pg.eq, pg.hash, well-formed tree, no shared '
            'mutable node, flags, nested value specs (deepcopy: also the root value_spec), original untouched, '
            'spec behaviour. DNA deepcopy only with cloneable metadata (non-cloneable metadata is documented '
            'to be dropped); code-marshalled functions (lambdas) are excluded from pickle')
  r = rng(seed, 'c05-copy')
  uni = value_universe('quick', seed)
  shallow = [(l, s) for l, s in uni if not l.startswith(('depth2', 'depth3'))]
  deeper = [(l, s) for l, s in uni if l.startswith(('depth2', 'depth3'))]
  deeper = deeper if tier == 'thorough' else r.sample(deeper, 80)
  if tier != 'thorough':
    shallow = shallow[::2] + [(l, s) for l, s in shallow if l == 'tuple-ish']
  items = [(l.split('/')[0], s) for l, s in shallow + deeper]
  items += [('typed', s) for s in typed_universe('quick', seed)[:: (1 if tier == 'thorough' else 3)]]
  items += [('flagged', s) for s in FLAGGED + PARTIALS]
  # a partial object at every position (below every container kind).
  items += [('partial-position', sf(leaf, '0')) for _, sf in SHAPES for leaf in PARTIAL_LEAVES[::2]]
  items += [('partial-position', tpl.format(e=PARTIAL_LEAVES[0])) for _, tpl in TYPED_POSITION_HOLDERS]
  specs = [s for _, s in SPECS] + KEY_SPECS + SCHEMAS
  items += [('spec', s) for s in (specs if tier == 'thorough' else specs[::3])]
  geno = GENO_POINTS + GENO_FROM_HYPER + HYPER_VALUES
  items += [('geno', s) for s in (geno if tier == 'thorough' else geno[::2]) if constructible(s)]
  items += [('dna', s) for l, s in DNA_SHAPES if constructible(s)]
  methods = (list(_COPY_METHODS) if tier == 'thorough' else ['deepcopy', 'pickle'])
  seen = set()
  for label, src in items:
    if src in seen:
      continue
    seen.add(src)
    v = ev(src)
    f = features(v)
    for method in methods:
      if method != 'deepcopy' and 'code-function' in f:
        continue
      if method == 'deepcopy' and label == 'dna' and 'metadata' in src and 'cloneable=True' not in src:
        continue
      if method == 'deepcopy' and "set_metadata('n', 2)" in src:
        continue
      fam = 'deepcopy' if method == 'deepcopy' else 'pickle'
      try:
        ok, kind, msg, wit = copy_check(src, method)
      except Exception as e:  # pylint: disable=broad-except
        ok, kind, msg, wit = False, 'harness', f'{type(e).__name__}: {e}', src
      rec.case(f'{fam}/{label}' + (f'/{kind}' if kind in ('flags', 'sealed', 'aliasing') else ''),
               (src, method), ok, f'[{method}: {kind}] {msg}', wit)
  return rec.result()


# -----------------------------------------------------------------------------
# Functors: a copy must be callable like the original.
# -----------------------------------------------------------------------------
#
# "... yields a value that ... has the same type, hash and schema-backed
# behaviour ...; the same holds for ... pickling and for copy.deepcopy."  What a
# functor DOES is what happens when it is called: which arguments it has bound,
# which it lets a call bind / override, what it does with arguments it does not
# know.  None of this is visible to pg.eq / pg.hash (the construction-time flags
# and the specified / defaulted bookkeeping are not symbolic fields), so the
# oracle is differential: every probe call and every argument-set property gives
# the same outcome (result, or class of the exception) on the copy as on the
# original -- also after the same late binding has been applied to both.

# kind -> (class of functor, constructor, its Python-level signature, bindings)
_SIG_AB = dict(pos=['a', 'b'], defaults=['b'], kwonly=[], varargs=False, varkw=False)
_BIND_AB = ['', '1', '1, 2', '1, 1', 'b=3']
FUNCTOR_KINDS = {
    'pg.functor': ('fn-functor', 'c05_add', _SIG_AB, _BIND_AB),
    'pg.symbolize': ('fn-functor', 'c05_mul', _SIG_AB, _BIND_AB),
    'pg.functor-with-arg-specs-and-returns': ('fn-functor', 'c05_add_typed', _SIG_AB, _BIND_AB),
    'varargs-kwonly-varkw': ('fn-functor', 'c05_collect',
                             dict(pos=['a'], defaults=['k'], kwonly=['k'], varargs=True, varkw=True),
                             ['', '1', '1, 2, 3', '1, k=5', '1, z=9', 'k=0']),
    'pg.Functor-subclass': ('subclassed-functor', 'C05AddF', _SIG_AB, _BIND_AB),
    'subclass-of-a-subclass': ('subclassed-functor', 'C05ScaleF',
                               dict(pos=['a', 'b', 's'], defaults=['b', 's'], kwonly=[], varargs=False,
                                    varkw=False),
                               ['1', '1, 2, 3', '1, s=10', 's=2']),
}
_APPLY_SIG = dict(pos=['fn', 'x'], defaults=['x'], kwonly=[], varargs=False, varkw=False)

FUNCTOR_FLAGS = [(False, False), (True, False), (False, True), (True, True)]

# what was done to the functor between its construction and the copy.
FUNCTOR_HISTORIES = [
    ('', '{e}'),
    ('rebind-defaulted-arg', '{e}.rebind({d}=5)'),
    ('rebind-arg-to-its-default', '{e}.rebind({d}={dv}, raise_on_no_change=False)'),
    ('del-bound-arg', "c05_del({e}, '{d}')"),
    ('unbind-arg', "{e}.rebind({p}=pg.MISSING_VALUE, raise_on_no_change=False)"),
    ('sealed', '{e}.seal()'),
]
_DEFAULT_OF = {'c05_add': ('b', 1), 'c05_mul': ('b', 2), 'c05_add_typed': ('b', 1),
               'c05_collect': ('k', 0), 'C05AddF': ('b', 1), 'C05ScaleF': ('s', 10)}

# (name, template, meta of a functor of the holder itself that comes first)
FUNCTOR_HOLDERS = [
    ('stand-alone', '{e}', None),
    ('dict', 'pg.Dict(f={e})', None),
    ('list', 'pg.List([0, {e}])', None),
    ('object', 'C05Leaf({e})', None),
    ('dict-list', "pg.Dict(steps=[{e}], name='pipeline')", None),
    ('object-dict-tuple', "C05Pair(1, right={{'k': ({e}, 2)}})", None),
    ('typed-callable-field', 'C05Typed(i=1, c={e})', None),
    ('argument-of-a-functor', 'c05_apply({e})', (False, False)),
    ('argument-of-a-flagged-functor', 'pg.List([c05_apply({e}, 3, override_args=True)])', (True, False)),
    ('argument-of-a-flagged-functor', 'c05_apply({e}, ignore_extra_args=True)', (False, True)),
]

_J = {k: '\n'.join(_FORMS[k]).format(kw='', lkw='') for k in ('obj', 'str', 'save-load', 'open_jsonl')}
# (family, method, code, is the copy a deep one)
FUNCTOR_COPIES = [
    ('deepcopy', 'copy.deepcopy', 'r = copy.deepcopy(v)', True),
    ('clone', 'copy.copy', 'r = copy.copy(v)', False),
    ('clone', 'pg.clone', 'r = pg.clone(v)', False),
    ('clone', 'pg.clone-deep', 'r = pg.clone(v, deep=True)', True),
    ('clone', 'v.clone', 'r = v.clone()', False),
    ('clone', 'v.clone-deep', 'r = v.clone(deep=True)', True),
    ('pickle', 'pickle', 'r = pickle.loads(pickle.dumps(v))', True),
    ('pickle', 'pickle-protocol-2', 'r = pickle.loads(pickle.dumps(v, protocol=2))', True),
    ('json', 'to_json/from_json', _J['obj'], True),
    ('json', 'to_json_str/from_json_str', _J['str'], True),
    ('json', 'pg.save/pg.load', _J['save-load'], True),
    ('json', 'record-of-a-jsonl-file', _J['open_jsonl'], True),
    # writer option that leaves out what equals the default (the loader puts it back).
    ('json-hide-defaults', 'to_json(hide_default_values=True)',
     'r = pg.from_json(pg.to_json(v, hide_default_values=True))', True),
    ('json-hide-defaults', 'to_json_str(hide_default_values=True)',
     'r = pg.from_json_str(pg.to_json_str(v, hide_default_values=True))', True),
]


def _flag_src(flags):
  return ', '.join(f'{n}=True' for n, on in zip(('override_args', 'ignore_extra_args'), flags) if on)


def _functor_src(ctor, binding, flags):
  return f"{ctor}({', '.join(x for x in (binding, _flag_src(flags)) if x)})"


def _probe_calls(sig, tier):
  """[(args, kwargs)]: the call shapes tried on original and copy."""
  pos = sig['pos']
  cand = [(pos[0], 2)] + [(d, 3) for d in sig['defaults'][:1]] + [('zz', 9)]
  if len(sig['defaults']) > 1:
    cand.append((sig['defaults'][1], 4))
  subsets = [c for n in range(len(cand) + 1) for c in itertools.combinations(cand, n)
             if tier == 'thorough' or n <= 1 or n == len(cand)]
  calls = []
  for n in range(len(pos) + 2):
    for kws in subsets:
      calls.append((tuple(range(5, 5 + n)), dict(kws)))
  # a value the argument / return specs refuse, where there are any.
  calls += [((), {pos[0]: 'x'}), ((9,), {}), ((), {sig['defaults'][0]: 9.5})]
  # the flags given with the call itself take precedence over the functor's.
  for args, kw in [((5,), {}), ((), {sig['defaults'][0]: 3}), ((), {'zz': 9}),
                   (tuple(range(5, 6 + len(pos))), {}), ((5,), {'zz': 9})]:
    for flag in ('override_args', 'ignore_extra_args'):
      for on in (True, False):
        calls.append((args, dict(kw, **{flag: on})))
    if tier == 'thorough':
      for ov in (True, False):
        for ig in (True, False):
          calls.append((args, dict(kw, override_args=ov, ignore_extra_args=ig)))
  return calls


def _call_class(sig, specified, flags, args, kw):
  """Names the input class of a call (never decides its outcome)."""
  kw = dict(kw)
  ov = kw.pop('override_args', None)
  ig = kw.pop('ignore_extra_args', None)
  names = set(sig['pos']) | set(sig['kwonly'])
  supplied = list(sig['pos'][:len(args)]) + list(kw)
  classes = set()
  if (len(args) > len(sig['pos']) and not sig['varargs']) or any(
      k not in names and not sig['varkw'] for k in kw):
    classes.add('extra-args[ignore_extra_args=%s]' % (
        f'{flags[1]}@ctor' if ig is None else f'{ig}@call'))
  if len(set(supplied)) != len(supplied):
    classes.add('multiple-values')
  bound = False
  for n in set(supplied):
    if n not in names:
      continue
    if n in specified:
      bound = True
    elif n in sig['defaults']:
      classes.add('sets-defaulted-arg')
    else:
      classes.add('binds-unbound-arg')
  if bound:
    classes.add('overrides-bound-arg[override_args=%s]' % (
        f'{flags[0]}@ctor' if ov is None else f'{ov}@call'))
  elif ov is not None:
    classes.add('override_args@call-without-bound-arg')
  if ig is not None and not any(c.startswith('extra') for c in classes):
    classes.add('ignore_extra_args@call-without-extra-arg')
  return '+'.join(sorted(classes)) or 'no-arguments'


def _lit_call(args, kw):
  return ', '.join([repr(a) for a in args] + [f'{k}={v!r}' for k, v in kw.items()])


def functor_universe(tier, seed):
  """[(src, holder, [(kclass, sig, flags) per functor in traversal order], label)]."""
  r = rng(seed, 'c05-functors')
  out = []
  base = []
  for kind, (kclass, ctor, sig, bindings) in FUNCTOR_KINDS.items():
    d, dv = _DEFAULT_OF[ctor]
    for bi, binding in enumerate(bindings):
      for flags in FUNCTOR_FLAGS:
        e = _functor_src(ctor, binding, flags)
        for hi, (hname, tpl) in enumerate(FUNCTOR_HISTORIES):
          if hname and tier != 'thorough' and (bi + hi + FUNCTOR_FLAGS.index(flags)) % 3:
            continue
          src = tpl.format(e=e, d=d, dv=dv, p=sig['pos'][0])
          if not constructible(src):
            continue
          base.append((src, (kclass, sig, flags), f'{kind}|{hname or "as-constructed"}'))
  for src, meta, label in base:
    out.append((src, 'stand-alone', [meta], label))
  nested = [b for b in base if b[2].endswith('as-constructed')]
  for hi, (hname, tpl, outer) in enumerate(FUNCTOR_HOLDERS[1:]):
    # every flag combination below every holder; kinds / bindings in rotation.
    by_flags = {}
    for b in nested:
      by_flags.setdefault(b[1][2], []).append(b)
    for flags, bs in by_flags.items():
      picks = bs if tier == 'thorough' else r.sample(bs, 3)
      for src, meta, label in picks:
        metas = ([('fn-functor', _APPLY_SIG, outer)] if outer is not None else []) + [meta]
        out.append((tpl.format(e=src), hname, metas, label))
  return out


def _isolated_probes(sig, specified, flags):
  """[(id suffix, args, kwargs)]: calls that each depend on ONE piece of the
  functor's call behaviour (given the argument sets of the original)."""
  names = sig['pos'] + sig['kwonly']
  fill = {n: 1 for n in names if n not in sig['defaults'] and n not in specified}
  probes = [('call/as-bound', (), {}), ('call/binding-the-unbound-args', (), dict(fill))]
  free = [d for d in sig['defaults'] if d not in specified]
  if free:
    probes.append(('call/setting-a-defaulted-arg', (), dict(fill, **{free[0]: 3})))
  bound = [n for n in names if n in specified]
  if bound:
    probes.append((f'override_args={flags[0]}/call-overriding-a-bound-arg', (), dict(fill, **{bound[0]: 2})))
  probes.append((('call/keyword-for-**kwargs' if sig['varkw'] else
                  f'ignore_extra_args={flags[1]}/call-with-unknown-keyword'), (), dict(fill, zz=9)))
  # (override_args=True given with the call: bound arguments do not matter here.)
  probes.append((('call/positionals-for-*args' if sig['varargs'] else
                  f'ignore_extra_args={flags[1]}/call-with-surplus-positional'),
                 tuple(range(1, 2 + len(sig['pos']))), dict(override_args=True)))
  return probes


def drv_functor_copies(tier, seed):
  rec = Recorder(
      'C05', 'copies of functors (deepcopy, clone, pickle, JSON, save/load) are callable like the original',
      scope='6 functor classes (pg.functor, pg.symbolize, arg specs + returns, *args/kw-only/**kwargs, '
            'pg.Functor subclass, subclass of a subclass) x 4-6 bindings (none, partial, full, explicit default, '
            'defaulted only) x override_args/ignore_extra_args in all 4 combinations x histories (as constructed, '
            'rebind, rebind to default, del, unbind, sealed; quick: a third of the non-trivial ones); stand-alone and '
            'below 9 holders (Dict, List, Object, Dict>List, Object>dict>tuple, typed Callable field, argument of a '
            'plain / flagged functor; quick: 3 seeded functors per flag combination and holder); 14 ways to copy '
            '(copy.deepcopy, copy.copy, pg.clone / v.clone shallow+deep, pickle default + protocol 2, to_json/'
            'from_json, string form, pg.save/pg.load on /mem, jsonl record, object and string form with '
            'hide_default_values=True; quick: histories and nested ones use one '
            'way per family in rotation); oracle (differential, original vs copy, per functor of the tree): exact '
            'class, pg.eq/pg.hash, well-formed tree, 6 argument-set properties, outcome (result or exception class) '
            'of 6 isolated probe calls (as bound, binding the unbound, setting a defaulted arg, overriding a bound '
            'arg, unknown keyword, surplus positional) and -- where those agree -- of every call in 0..n+1 '
            'positionals x subsets (quick: size<=1 and the full set) of {first arg, defaulted args, unknown keyword} + refused '
            'values + call-time override_args/ignore_extra_args (quick: for a quarter of the copies); fields unchanged by the calls; deep copies (quick: a third of them): the '
            'same late binding applied to copy and to a fresh original is accepted alike, gives the same argument '
            'sets and probe outcomes and leaves the copied-from original untouched (JSON does not carry `sealed`: '
            'no late binding on sealed originals there)')
  uni = functor_universe(tier, seed)
  probe_cache = {}
  for ui, (src, holder, metas, label) in enumerate(uni):
    head = f'import copy, pickle\n{_header("C05")}v = {src}\n'
    where = 'root' if holder == 'stand-alone' else f'below {holder}'
    try:
      v = ev(src)
      fos = c05_functors(v)
      assert len(fos) == len(metas), f'{len(fos)} functors found, {len(metas)} expected'
      fresh = ev(src)
      sets0 = [c05_arg_sets(f) for f in fos]
      iso, iso_out, orig_out = [], [], []
      for fo, s0, (kclass, sig, flags) in zip(fos, sets0, metas):
        if id(sig) not in probe_cache:
          probe_cache[id(sig)] = _probe_calls(sig, tier)
        orig_out.append(None)      # (filled in when first needed.)
        iso.append(_isolated_probes(sig, set(s0['specified_args']), flags))
        iso_out.append([c05_call(fo, *a, **k) for _, a, k in iso[-1]])
    except Exception as e:  # pylint: disable=broad-except
      rec.case('harness/functor-universe', src, False, f'{type(e).__name__}: {e}', head)
      continue
    copies = FUNCTOR_COPIES
    if tier != 'thorough' and (holder != 'stand-alone' or not label.endswith('as-constructed')):
      copies = [[c for c in FUNCTOR_COPIES if c[0] == fam]
                for fam in ('deepcopy', 'clone', 'pickle', 'json', 'json-hide-defaults')]
      copies = [cs[ui % len(cs)] for cs in copies]
    for mi, (family, method, code, deep) in enumerate(copies):
      key = (src, method)
      wit = head + code + '\n'
      env = dict(_ENV, v=v, copy=copy, pickle=pickle)
      # quick: the many-shapes calls for a quarter, the late binding for a third of the copies.
      broad = tier == 'thorough' or (ui + mi) % 4 == 0
      late = deep and (tier == 'thorough' or (ui + mi // 3) % 3 == 0)
      try:
        exec(code, env)  # pylint: disable=exec-used
        r = env['r']
      except Exception as e:  # pylint: disable=broad-except
        rec.case(f'functor-copy/{family}/copy-is-made', key, False, f'{type(e).__name__}: {e}', wit)
        continue
      fcs = c05_functors(r)
      d = diff_value(v, r)
      ok = rec.case(f'functor-copy/{family}/value', key,
                    not d and len(fcs) == len(fos) and all(type(a) is type(b) for a, b in zip(fos, fcs)),
                    d or f'functors {[type(f).__name__ for f in fos]} -> {[type(f).__name__ for f in fcs]}',
                    wit + 'assert_same(v, r)\n')
      if not ok:
        continue
      same = outcome(pg.eq, v, r) == ('ok', True) and outcome(pg.hash, v) == outcome(pg.hash, r)
      rec.case(f'functor-copy/{family}/eq-hash', key, same, 'pg.eq(v, r) is not True or pg.hash differs',
               wit + 'assert pg.eq(v, r) and pg.hash(v) == pg.hash(r)\n')
      te = tree_errors(r)
      rec.case(f'functor-copy/{family}/well-formed-tree', key, not te, '; '.join(te[:3]),
               wit + 'assert_wellformed(r)\n')
      if deep:
        rec.case(f'functor-copy/{family}/no-shared-functor', key,
                 not ({id(f) for f in fos} & {id(f) for f in fcs}), 'the copy holds a functor of the original',
                 wit + 'assert not ({id(f) for f in c05_functors(v)} & {id(f) for f in c05_functors(r)})\n')
      agree = []
      for i, (fo, fc, (kclass, sig, flags)) in enumerate(zip(fos, fcs, metas)):
        pick = f'fo, fc = c05_functors(v)[{i}], c05_functors(r)[{i}]\n'
        pre = f'functor-copy/{family}/{kclass}'
        ctx = f'[{where}; {label}; (override_args, ignore_extra_args)={flags}]'
        sc = c05_arg_sets(fc)
        bad = [a for a in _ARG_SETS if sets0[i][a] != sc[a]]
        all_ok = rec.case(f'{pre}/argument-sets', key + (i,), not bad,
                          f'{ctx} ' + '; '.join(f'{a}: {sets0[i][a]!r} -> {sc[a]!r}' for a in bad),
                          wit + pick + 'assert c05_arg_sets(fo) == c05_arg_sets(fc), '
                          '(c05_arg_sets(fo), c05_arg_sets(fc))\n')
        for (name, args, kw), want in zip(iso[i], iso_out[i]):
          got = c05_call(fc, *args, **kw)
          if got == want:
            rec.case(f'{pre}/{name}', key + (i,), True)
            continue
          all_ok = False
          lit = _lit_call(args, kw)
          rec.case(f'{pre}/{name}', key + (i,), False, f'{ctx} f({lit}): original {want!r}, copy {got!r}',
                   wit + pick + f'a, b = c05_call(fo, {lit}), c05_call(fc, {lit})\nassert a == b, (a, b)\n')
        agree.append(all_ok)
        if all_ok and broad:
          # every other call shape (the isolated probes agree: anything that
          # differs here is something else).
          specified = set(sets0[i]['specified_args'])
          if orig_out[i] is None:
            orig_out[i] = [c05_call(fo, *a, **k) for a, k in probe_cache[id(sig)]]
          for ci, ((args, kw), want) in enumerate(zip(probe_cache[id(sig)], orig_out[i])):
            got = c05_call(fc, *args, **kw)
            if got == want:
              rec.case(f'{pre}/call/any-other-shape', key + (i, ci), True)
              continue
            lit = _lit_call(args, kw)
            rec.case(f'{pre}/call/{_call_class(sig, specified, flags, args, kw)}', key + (i, ci), False,
                     f'{ctx} f({lit}): original {want!r}, copy {got!r}',
                     wit + pick + f'a, b = c05_call(fo, {lit}), c05_call(fc, {lit})\nassert a == b, (a, b)\n')
        d = diff_value(fo, fc)
        rec.case(f'{pre}/fields-after-the-calls', key + (i,), not d, d,
                 wit + pick + f'for f in (fo, fc):\n  c05_call(f, 5, 6)\n  c05_call(f, {sig["defaults"][0]}=3)\n'
                 'assert_same(fo, fc)\n')
      if not late:
        continue          # (a shallow copy may share what it holds: no writes through it.)
      # the same late binding on the copy and on a fresh original.
      try:
        w = ev(src)
        fws = c05_functors(w)
      except Exception as e:  # pylint: disable=broad-except
        rec.case('harness/functor-universe', src, False, f'{type(e).__name__}: {e}', head)
        continue
      for i, (fw, fc, (kclass, sig, flags)) in enumerate(zip(fws, fcs, metas)):
        pre = f'functor-copy/{family}/{kclass}'
        ctx = f'[{where}; {label}; (override_args, ignore_extra_args)={flags}]'
        d0 = sig['defaults'][0]
        bind = f'rebind({d0}=7)'
        pick = (f'w = {src}\nfw, fc = c05_functors(w)[{i}], c05_functors(r)[{i}]\n'
                f'a, b = outcome(fw.rebind, {d0}=7)[0], outcome(fc.rebind, {d0}=7)[0]\n')
        ow = outcome(fw.rebind, **{d0: 7})
        if family.startswith('json') and ow[0] == 'exc':
          continue
        oc = outcome(fc.rebind, **{d0: 7})
        ok = ow[0] == oc[0] and (ow[0] == 'ok' or ow[1] is oc[1])
        rec.case(f'{pre}/late-binding/accepted-alike', key + (i,), ok,
                 '' if ok else f'{ctx} {bind}: original {ow!r}, copy {oc!r}',
                 wit + pick + 'assert a == b, (a, b)\n')
        if not ok or not agree[i]:
          continue
        sw, sc = c05_arg_sets(fw), c05_arg_sets(fc)
        bad = [a for a in _ARG_SETS if sw[a] != sc[a]]
        rec.case(f'{pre}/late-binding/argument-sets', key + (i,), not bad,
                 f'{ctx} after {bind}: ' + '; '.join(f'{a}: {sw[a]!r} -> {sc[a]!r}' for a in bad),
                 wit + pick + 'assert c05_arg_sets(fw) == c05_arg_sets(fc), (c05_arg_sets(fw), c05_arg_sets(fc))\n')
        if bad:
          continue
        for name, args, kw in _isolated_probes(sig, set(sw['specified_args']), flags):
          a, b = c05_call(fw, *args, **kw), c05_call(fc, *args, **kw)
          lit = _lit_call(args, kw)
          rec.case(f'{pre}/{name}', key + (i, 'after-late-binding'), a == b,
                   f'{ctx} after {bind}: f({lit}): original {a!r}, copy {b!r}',
                   wit + pick + f'a, b = c05_call(fw, {lit}), c05_call(fc, {lit})\nassert a == b, (a, b)\n')
      now = [c05_arg_sets(f) for f in fos]
      d = diff_value(fresh, v)
      rec.case(f'functor-copy/{family}/original-untouched', key, now == sets0 and not d,
               d or f'argument sets of the original {sets0} -> {now} after rebinding the copy',
               wit + f'c05_functors(r)[-1].rebind({metas[-1][1]["defaults"][0]}=7)\nassert_same({src}, v)\n'
               f'assert [c05_arg_sets(f) for f in c05_functors(v)] == [c05_arg_sets(f) for f in c05_functors({src})]\n')
  return rec.result()


# -----------------------------------------------------------------------------
# Other values whose behaviour rests on state outside their symbolic fields.
# -----------------------------------------------------------------------------

# (kind, [sources], [probes on x], [the same change on original and copy])
STATEFUL = [
    ('symbolized-class', ['C05Acc(2)', 'C05Acc(2, 3, scale=4)', 'C05Acc(0, scale=-1)'],
     ['x.bump()', 'x.bump(2)', 'x.total', '(x.start, x.step, x.scale)', 'x.sym_init_args.step'],
     ['x.rebind(step=5)', 'x.rebind(start=7, scale=2)']),
    ('object-with-derived-state', ['C05Derived(3)', 'C05Derived(3, 4, items=[1, 2])', 'C05Derived(x=0, y=0)'],
     ['x.prod()', 'x.sym_nondefault()', 'x.sym_missing()'],
     ['x.rebind(y=5)', 'x.items.append(4)', "x.rebind({'items': [9]})"]),
    ('compound', ['c05_leaf_of(3)', 'c05_leaf_of(3, m=2)'],
     ['x.x', 'x.decomposed', 'x.sym_init_args.m'], ['x.rebind(n=10)', 'x.rebind(m=5)']),
]
STATEFUL_HOLDERS = [('stand-alone', '{e}', 'r'), ('dict', 'pg.Dict(k={e})', 'r.k'),
                    ('list-in-object', 'C05Leaf([0, {e}])', 'r.x[1]'), ('tuple', 'pg.Dict(t=({e}, 1))', 'r.t[0]')]
BOUND_DNAS = [('[(1, 0), 0.5, [0, 2]]', h) for h in ('', 'u', 'un', 'uc', 'umq', 'cn')] + [
    ('[0, 0.25, [1, 0]]', 'ucm')]


def drv_stateful_copies(tier, seed):
  del seed
  rec = Recorder(
      'C05', 'copies of values with state derived from their fields (symbolized classes, _on_bound state, '
             'compounds) and of DNAs bound to a search space behave like the original',
      scope='3 kinds x 2-3 values x 4 holders (stand-alone, Dict, List in Object, tuple in Dict) x 12 ways to '
            'copy (as for functors); oracle: the outcome of 3-5 probes (method results, derived attributes) is the '
            'same on the copy, also after each of 2-3 changes applied to both (deep copies only); 7 bound DNAs '
            '(with cloneable / non-cloneable user data on root / child, metadata) x 3 holders (quick: nested for a third) x copy.deepcopy, '
            'copy.copy, pg.clone, v.clone(deep=True) and the copy of the copy: still bound at every node, same '
            'numbers / values by decision point, user data marked cloneable is kept (and kept again by the copy '
            'of the copy); pickle / JSON do not carry the binding (see drv_geno_dna) and are not asked for it')
  for kind, srcs, probes, changes in STATEFUL:
    for si, e in enumerate(srcs):
      for hi, (hname, tpl, get) in enumerate(STATEFUL_HOLDERS):
        src = tpl.format(e=e)
        head = f'import copy, pickle\n{_header("C05")}v = {src}\n'
        getv = get.replace('r', 'v', 1)
        for mi, (family, method, code, deep) in enumerate(FUNCTOR_COPIES):
          if tier != 'thorough' and hi and (si + hi + mi) % 3:
            continue
          key = (src, method)
          wit = head + code + f'\nxo, xc = {getv}, {get}\n'
          pre = f'stateful-copy/{family}/{kind}'
          try:
            v = ev(src)
            env = dict(_ENV, v=v, copy=copy, pickle=pickle)
            exec(code, env)  # pylint: disable=exec-used
            r = env['r']
            xo, xc = eval(getv, dict(v=v)), eval(get, dict(r=r))  # pylint: disable=eval-used
          except Exception as ex:  # pylint: disable=broad-except
            rec.case(f'{pre}/copy-is-made', key, False, f'{type(ex).__name__}: {ex}', wit)
            continue
          d = diff_value(v, r) or ('' if outcome(pg.eq, v, r) == ('ok', True) else 'pg.eq(v, r) is not True')
          if not rec.case(f'{pre}/value', key, not d and type(xo) is type(xc), d or 'type differs',
                          wit + 'assert_same(v, r)\nassert pg.eq(v, r)\n'):
            continue
          te = tree_errors(r)
          rec.case(f'{pre}/well-formed-tree', key, not te, '; '.join(te[:3]), wit + 'assert_wellformed(r)\n')

          def probe_all(stage, pre=pre, key=key, wit=wit, xo=xo, xc=xc):
            for p in probes:
              a = outcome(eval, p, dict(x=xo))  # pylint: disable=eval-used
              b = outcome(eval, p, dict(x=xc))  # pylint: disable=eval-used
              same = a[0] == b[0] and (diff_value(a[1], b[1]) == '' if a[0] == 'ok' else a[1] is b[1])
              rec.case(f'{pre}/{"probes" if not stage else "probes-after-the-same-change"}', key + (stage, p),
                       same, f'[{stage or "as copied"}] {p}: original {a!r}, copy {b!r}',
                       wit + (f'for x in (xo, xc):\n  {stage}\n' if stage else '')
                       + f'a, b = [outcome(lambda: {p}) for x in (xo, xc)]\n'
                       'assert a[0] == b[0] and (a[0] == "exc" or not diff_value(a[1], b[1])), (a, b)\n')
          probe_all('')
          if deep:
            for ch in changes:
              a = outcome(eval, ch, dict(x=xo))[0]  # pylint: disable=eval-used
              b = outcome(eval, ch, dict(x=xc))[0]  # pylint: disable=eval-used
              if rec.case(f'{pre}/change-accepted-alike', key + (ch,), a == b, f'{ch}: original {a}, copy {b}',
                          wit + f'a, b = [outcome(lambda: {ch})[0] for x in (xo, xc)]\nassert a == b, (a, b)\n'):
                probe_all(ch)
  # DNAs bound to a search space.
  ways = [c for c in FUNCTOR_COPIES if c[0] in ('deepcopy', 'clone')]
  for di, (values, hist) in enumerate(BOUND_DNAS):
    e = f'c05_bound_dna({values}, {hist!r})'
    for hi, (hname, tpl, get) in enumerate(STATEFUL_HOLDERS[:3]):
      if hi and tier != 'thorough' and (di + hi) % 3:
        continue
      src = tpl.format(e=e)
      head = f'import copy\n{_header("C05")}v = {src}\n'
      getv = get.replace('r', 'v', 1)
      v = rec.guard('harness/bound-dna-universe', src, lambda src=src: ev(src), head)
      if v is False:
        continue
      for family, method, code, deep in ways:
        if hi and not deep:
          continue        # (a shallow copy of a holder is not asked to copy what it holds.)
        for generations in (1, 2):
          key = (src, method, generations)
          code_n = code + ('' if generations == 1 else '\nfirst = r\n' + code.replace('(v', '(first').replace('v.', 'first.'))
          wit = head + code_n + f'\na, b = c05_dna_view({getv}), c05_dna_view({get})\n'
          gen = 'copy' if generations == 1 else 'copy-of-the-copy'
          try:
            env = dict(_ENV, v=v, copy=copy)
            exec(code_n, env)  # pylint: disable=exec-used
            r = env['r']
            a = c05_dna_view(eval(getv, dict(v=v)))  # pylint: disable=eval-used
            b = c05_dna_view(eval(get, dict(r=r)))   # pylint: disable=eval-used
          except Exception as ex:  # pylint: disable=broad-except
            rec.case(f'bound-dna-copy/{family}/copy-is-made', key, False, f'{type(ex).__name__}: {ex}', wit)
            continue
          for aspect, names in (('stays-bound-to-its-space', ('bound', 'numbers', 'by_name', 'literal')),
                                ('cloneable-user-data', ('userdata',))):
            bad = [n for n in names if a[n] != b[n]]
            rec.case(f'bound-dna-copy/{family}/{gen}/{aspect}', key, not bad,
                     '; '.join(f'{n}: {a[n]!r} -> {b[n]!r}' for n in bad),
                     wit + f'assert all(a[n] == b[n] for n in {names!r}), (a, b)\n')
  return rec.result()


# -----------------------------------------------------------------------------
# Members whose JSON form is produced by a registered type converter.
# -----------------------------------------------------------------------------
#
# "Converting ANY serializable symbolic value to JSON (object form or string
# form) and back yields a value that is symbolically equal to the original, has
# the same type ..."  Values of types that are not JSON types are serializable
# through the converters of `pg.typing.register_converter`: to_json writes
# converter(value) (built in: datetime -> int, KeyPath -> str; user types:
# whatever their converter returns) and the value spec of the member converts it
# back on load.  The statement does not mention the state of the process: the
# trip gives the original back in every time zone, and what a process in one
# zone has written is read back by a process in another zone.


class _C05Plain:
  """A plain (non-symbolic) user type that converters make serializable."""

  def __init__(self, *a):
    self.a = a

  def __eq__(self, other):
    return type(other) is type(self) and other.a == self.a

  def __ne__(self, other):
    return not self.__eq__(other)

  def __hash__(self):
    return hash((type(self).__name__, self.a))

  def __repr__(self):
    return f'{type(self).__name__}({", ".join(map(repr, self.a))})'


class C05Stamp(_C05Plain):
  """<-> str."""


class C05Vec(_C05Plain):
  """<-> tuple (a structured JSON form, written through to_json again)."""


class C05Rec(_C05Plain):
  """<-> dict with a str and an int key."""


class C05Two(_C05Plain):
  """Has a converter to int AND one to str (and both ways back)."""


def _c05_register_converters():
  reg = pg.typing.register_converter
  reg(C05Stamp, str, lambda x: 'S:' + x.a[0])
  reg(str, C05Stamp, lambda s: C05Stamp(s[2:]))
  reg(C05Vec, tuple, lambda x: tuple(x.a))
  reg(tuple, C05Vec, lambda t: C05Vec(*t))
  reg(C05Rec, dict, lambda x: {'n': x.a[0], 5: x.a[1]})
  reg(dict, C05Rec, lambda d: C05Rec(d['n'], d[5]))
  reg(C05Two, int, lambda x: x.a[0])
  reg(int, C05Two, C05Two)
  reg(C05Two, str, lambda x: str(x.a[0]))
  reg(str, C05Two, lambda s: C05Two(int(s)))


_c05_register_converters()

# One class per member type: the type is declared in every way a schema can
# declare it (annotation, Optional, default, list / dict / tuple element,
# union candidate, nested containers) and, for the control, not at all (`any`).
_CONV_HOLDER = """
class {name}(pg.Object):
  req: {T}
  opt: typing.Optional[{T}] = None
  dflt: {T} = {base}
  l: typing.List[{T}] = []
  d: typing.Dict[str, {T}] = {{}}
  t: pg.typing.Tuple([pg.typing.Object({T}), pg.typing.Int()]).noneable() = None
  vt: pg.typing.Tuple(pg.typing.Object({T}), max_size=3).noneable() = None
  ld: typing.List[typing.Dict[str, {T}]] = []
  u: typing.Union[{T}, bool, None] = None
  any: typing.Any = None
"""

_DT = 'datetime.datetime'
# kind -> (holder class, member type, base value, values)
CONVERTED = {
    'datetime': ('C05ConvDT', _DT, f'{_DT}(2001, 2, 3, 4, 5, 6)', [
        f'{_DT}(1970, 1, 1)', f'{_DT}(1969, 12, 31, 23, 59, 59)',
        f'{_DT}(2024, 2, 29, 12, 30, 15)', f'{_DT}(2038, 1, 19, 3, 14, 8)',
        f'{_DT}(2100, 7, 1)', f'{_DT}(1900, 1, 1)',
        # local times that do not exist / exist twice in the zones of _ZONES.
        f'{_DT}(2024, 3, 10, 2, 30)', f'{_DT}(2024, 11, 3, 1, 30)',
        f'{_DT}(2024, 9, 29, 2, 30)', f'{_DT}(2024, 4, 7, 2, 30)',
        f'{_DT}(1, 1, 1)', f'{_DT}(9999, 12, 31, 23, 59, 59)']),
    'keypath': ('C05ConvKP', 'pg.KeyPath', "pg.KeyPath('a')", [
        'pg.KeyPath()', "pg.KeyPath.parse('a.b[0].c')", "pg.KeyPath(['a', 0, 'b c'])",
        "pg.KeyPath(['a.b', -1])", r"pg.KeyPath(['\xe9\n', 'a[0]'])"]),
    'user-type-str-form': ('C05ConvStamp', 'C05Stamp', "C05Stamp('a')", [
        "C05Stamp('')", r"C05Stamp('\xe9\n\x00\"')", "C05Stamp('S:1')"]),
    'user-type-tuple-form': ('C05ConvVec', 'C05Vec', 'C05Vec(1)', [
        'C05Vec(1, 2.5)', "C05Vec((1,), 'a', None)", "C05Vec([1, {'k': (2,)}])"]),
    'user-type-dict-form': ('C05ConvRec', 'C05Rec', 'C05Rec(1, 2)', [
        "C05Rec('x', (2,))", 'C05Rec(None, [1.5])']),
    'user-type-two-json-forms': ('C05ConvTwo', 'C05Two', 'C05Two(0)', [
        'C05Two(5)', 'C05Two(-1)', 'C05Two(10**20)']),
}
for _kind, (_name, _t, _base, _) in CONVERTED.items():
  exec(_CONV_HOLDER.format(name=_name, T=_t, base=_base), globals())  # pylint: disable=exec-used

_ENV.update(C05Stamp=C05Stamp, C05Vec=C05Vec, C05Rec=C05Rec, C05Two=C05Two,
            **{n: globals()[n] for n, _, _, _ in CONVERTED.values()})

# (position, group, template): H holder class, b base value, x the value.
CONV_POSITIONS = [
    ('required-field', 'typed-member', '{H}({x})'),
    ('optional-field', 'typed-member', '{H}({b}, opt={x})'),
    ('field-with-a-default', 'typed-member', '{H}({b}, dflt={x})'),
    ('list-element', 'typed-member', '{H}({b}, l=[{x}, {b}])'),
    ('dict-value', 'typed-member', "{H}({b}, d={{'k': {x}}})"),
    ('fixed-tuple-element', 'typed-member', '{H}({b}, t=({x}, 1))'),
    ('variable-tuple-element', 'typed-member', '{H}({b}, vt=({x}, {x}))'),
    ('dict-in-list-value', 'typed-member', "{H}({b}, ld=[{{'k': {x}}}, {{}}])"),
    ('union-candidate', 'union-member', '{H}({b}, u={x})'),
]
# where the object that declares the member is.
CONV_WRAPPERS = ['pg.Dict(a={o})', '[0, {o}]', 'C05Pair({o}, right={o})', '({o},)']
# the same values where no value spec says what they are.
CONV_UNTYPED = ['{H}({b}, any={x})', 'pg.Dict(a={x})', 'pg.List([{x}])', '[{x}]',
                "{{'k': {x}}}", 'C05Leaf({x})', '({x},)']

# "... value specs and schemas ...": the value as the default of a spec.
CONV_SPECS = ['pg.typing.Object({T}, default={x})',
              'pg.typing.List(pg.typing.Object({T}), default=[{x}])',
              "pg.typing.Dict([('a', pg.typing.Object({T}, default={x})), ('b', pg.typing.Object({T}).noneable())])",
              "pg.typing.Schema([pg.typing.Field('a', pg.typing.Object({T}, default={x}))])"]

# POSIX TZ strings (no time zone database needed): west of / east of UTC, with a
# fraction of an hour, daylight saving on the northern / southern calendar.
_ZONES = [('tz-as-found', None), ('tz-utc', 'UTC0'),
          ('tz-non-utc', 'PST8PDT,M3.2.0,M11.1.0'), ('tz-non-utc', 'IST-5:30'),
          ('tz-non-utc', 'NZST-12NZDT,M9.5.0,M4.1.0/3')]
_TZ_CODE = "import os, time\nos.environ['TZ'] = {z!r}; time.tzset()\n"


class _TzRestored:
  """Puts the time zone of the process back (cases change it)."""

  def __enter__(self):
    self._old = os.environ.get('TZ')

  def __exit__(self, *unused):
    if self._old is None:
      os.environ.pop('TZ', None)
    else:
      os.environ['TZ'] = self._old
    time.tzset()


def _conv_case(rec, cid, src, form, extra=(), kw=None, zone=None, read_zone=None, thorough=False):
  stage = (_TZ_CODE.format(z=zone) if zone else '',
           _TZ_CODE.format(z=read_zone) if read_zone else '')
  try:
    with _TzRestored():
      ok, kind, msg, wit, _ = json_roundtrip(src, form, kw=kw, stage=stage, check_original=thorough)
  except Exception as e:  # harness problem: surface it.  pylint: disable=broad-except
    ok, kind, msg, wit = False, 'harness', f'{type(e).__name__}: {e}', src
  rec.case(cid, (src, form, zone, read_zone) + tuple(extra), ok,
           f'[{kind}{", TZ=" + zone if zone else ""}{", read with TZ=" + read_zone if read_zone else ""}] {msg}',
           wit)
  return ok


def drv_converter_members(tier, seed):
  rec = Recorder(
      'C05', 'members serialized through registered type converters (datetime, KeyPath, user types)',
      scope='member types: datetime.datetime (12 values incl. epoch, pre-epoch, leap day, 2038, years 1 / 9999, '
            'local times skipped / repeated by daylight saving), pg.KeyPath (5), 4 user types registered with '
            'pg.typing.register_converter (str / tuple / dict JSON form, two JSON forms); declared in 9 positions '
            '(annotation, Optional, default, list / dict / fixed + variable tuple element, dict in list, union '
            'candidate) of an object at the root / below dict, list, object, tuple, and as default of 4 value specs / schemas; forms to_json, to_json_str, '
            'pg.save/pg.load, open_jsonl, hide_default_values; datetime: process time zone as found, UTC and 3 '
            'non-UTC POSIX zones, writer and reader in different zones; controls pickle / deepcopy; '
            'the same values in 7 untyped positions; sub-second and tz-aware datetimes; KeyPath with an empty key')
  r = rng(seed, 'c05-conv')
  thorough = tier == 'thorough'
  case = functools.partial(_conv_case, rec, thorough=thorough)
  all_forms = ['obj', 'str', 'save-load', 'open_jsonl']
  for kind, (holder, _, base, values) in CONVERTED.items():
    vals = [base] + values
    is_dt = kind == 'datetime'
    for zi, (zlabel, zone) in enumerate(_ZONES if is_dt else _ZONES[:1]):
      sfx = f'/{zlabel}' if is_dt else ''
      # every value in every zone where the member is simply declared; every
      # way of declaring it with every value (thorough) / two values, in every
      # zone (thorough) / the zone found (quick): where the conversion happens
      # does not depend on the zone, what it yields not on where it happens.
      for pi, (pos, group, tpl) in enumerate(CONV_POSITIONS):
        if pi and zi and not thorough:
          continue
        xs = vals if (thorough or not pi) else [vals[1], r.choice(vals[1:])]
        forms = all_forms if (thorough or (pi in (0, 3) and not zi)) else all_forms[:2]
        for x in xs:
          for form in forms:
            case(f'converter-json/{kind}/{group}{sfx}',
                       tpl.format(H=holder, b=base, x=x), form, (pos,), zone=zone)
      # value specs / schemas that hold such a value as a default.
      for tpl in CONV_SPECS:
        for x in (vals if thorough else [r.choice(vals)]):
          for form in ('obj', 'str'):
            case(f'converter-json/{kind}/default-of-a-value-spec{sfx}',
                 tpl.format(H=holder, T=CONVERTED[kind][1], x=x), form, zone=zone)
      if zi > 2 and not thorough:
        continue
      # a member that holds its default / another value, defaults left out.
      for x in (None, vals[1]):
        src = f'{holder}({base})' if x is None else f'{holder}({base}, dflt={x})'
        for form in ('obj', 'str'):
          case(f'converter-json/{kind}/typed-member{sfx}/hide_default_values', src, form,
                     kw=dict(hide_default_values='True'), zone=zone)
      if zi and not thorough:
        continue
      # the declaring object below other containers.
      for w in CONV_WRAPPERS:
        for x in (vals if thorough else [r.choice(vals[1:])]):
          for form in ('obj', 'str'):
            case(f'converter-json/{kind}/typed-member{sfx}',
                       w.format(o=f'{holder}({x}, l=[{x}])'), form, ('wrapped',), zone=zone)
    # written by a process in one zone, read by a process in another.
    if is_dt:
      named = [z for _, z in _ZONES if z]
      combos = [(tpl, form) for tpl in ('{H}({x})', '{H}({b}, l=[{x}, {b}])') for form in ('str', 'save-load')]
      for i, (zw, zr) in enumerate(itertools.permutations(named, 2)):
        for j, x in enumerate(vals if thorough else r.sample(vals, 3)):
          for tpl, form in (combos if thorough else [combos[(i + j) % 4]]):
            case('converter-json/datetime/typed-member/tz-differs-between-writer-and-reader',
                       tpl.format(H=holder, b=base, x=x), form, zone=zw, read_zone=zr)
    # controls that do not go through JSON.
    for method in ('deepcopy', 'pickle'):
      for x in (vals if thorough else [vals[0], r.choice(vals[1:])]):
        for tpl in (('{H}({x})',) if thorough else ()) + (
            "{H}({b}, l=[{x}], d={{'k': {x}}}, t=({x}, 1), u={x}, any={x})",):
          src = tpl.format(H=holder, b=base, x=x)
          try:
            ok, ckind, msg, wit = copy_check(src, method)
          except Exception as e:  # pylint: disable=broad-except
            ok, ckind, msg, wit = False, 'harness', f'{type(e).__name__}: {e}', src
          rec.case(f'converter-copy/{method}/{kind}', (src, method), ok, f'[{method}: {ckind}] {msg}', wit)
    # no value spec at the position of the value: nothing but the JSON itself
    # can say what the value was.
    for tpl in CONV_UNTYPED:
      for x in (vals if thorough else vals[:1]):
        for form in ('obj', 'str'):
          case('converter-json/value-in-untyped-position',
                     tpl.format(H=holder, b=base, x=x), form, (kind,))
  # values of a converted type that the JSON form of the type cannot express.
  for cid, xs in (
      ('converter-json/datetime/sub-second-part',
       [f'{_DT}(2020, 1, 1, 0, 0, 0, 5)', f'{_DT}(1969, 12, 31, 23, 59, 59, 999999)', f'{_DT}.max']),
      ('converter-json/datetime/tz-aware',
       [f'{_DT}(2020, 1, 1, tzinfo=datetime.timezone.utc)',
        f'{_DT}(2020, 1, 1, 12, tzinfo=datetime.timezone(datetime.timedelta(hours=2)))']),
      ('converter-json/keypath/empty-string-key', ["pg.KeyPath([''])", "pg.KeyPath(['a', ''])"])):
    holder = 'C05ConvKP' if 'keypath' in cid else 'C05ConvDT'
    for x in xs:
      for tpl in ('{H}({x})', "{H}({x}, l=[{x}], d={{'k': {x}}})"):
        for form in ('obj', 'str'):
          case(cid, tpl.format(H=holder, x=x), form)
  return rec.result()


DRIVERS = [drv_json_values, drv_typed_objects, drv_loader_options, drv_writer_options,
           drv_same_name_symbols, drv_specs,
           drv_geno_dna,
           drv_file_systems, drv_sequences, drv_pickle_deepcopy, drv_functor_copies,
           drv_stateful_copies, drv_converter_members]


def replay(rec):
  """Re-executes rec['witness']; returns (ok, message)."""
  cwd = os.getcwd()
  tz = os.environ.get('TZ')
  try:
    exec(rec['witness'], {'__name__': '__c05_witness__'})  # pylint: disable=exec-used
    return True, 'witness passes'
  except Exception as e:  # pylint: disable=broad-except
    return False, f'{type(e).__name__}: {e}'
  finally:
    os.chdir(cwd)
    if os.environ.get('TZ') != tz:     # witnesses of drv_converter_members set it.
      if tz is None:
        os.environ.pop('TZ', None)
      else:
        os.environ['TZ'] = tz
      time.tzset()
